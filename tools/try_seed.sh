#!/bin/bash
# tools/try_seed.sh <seed-id> <property> [tier]  : apply /verif/seeded/<id>/patch.diff to /repo, run the check, undo.
set -u
ID=$1; PROP=$2; TIER=${3:-quick}
cd /verif
git -C /repo diff --quiet || { echo "/repo is dirty"; exit 9; }
git -C /repo apply /verif/seeded/$ID/patch.diff || { echo "patch does not apply"; exit 9; }
./check $PROP $TIER > /tmp/seed/$ID.$PROP.check.out 2> /tmp/seed/$ID.$PROP.check.err; RC=$?
git -C /repo checkout -- .
echo "seed=$ID property=$PROP tier=$TIER exit=$RC"
grep -E "^(VIOLATION|KNOWN-FINDING)" /tmp/seed/$ID.$PROP.check.out | cut -c1-200
grep -E "signature:" /tmp/seed/$ID.$PROP.check.err | head -5
exit $RC
