#!/bin/bash
# tools/try_seed.sh <seed-id> <property> [tier]  : apply /verif/seeded/<id>/patch.diff to /repo, run the check, undo.
set -u
ID=$1; PROP=$2; TIER=${3:-quick}
cd /verif
git -C /repo diff --quiet || { echo "/repo is dirty"; exit 9; }
git -C /repo apply /verif/seeded/$ID/patch.diff || { echo "patch does not apply"; exit 9; }
./check $PROP $TIER > /tmp/seed/$ID.$PROP.check.out 2> /tmp/seed/$ID.$PROP.check.err; RC=$?
git -C /repo checkout -- .
echo "seed=$ID property=$PROP tier=$TIER exit=$RC"
grep -E "^(VIOLATION|KNOWN-FINDING)" /tmp/seed/$ID.$PROP.check.out | cut -c1-200
grep -E "signature:" /tmp/seed/$ID.$PROP.check.err | head -5
python3 - "$ID" "$PROP" "$TIER" "$RC" <<'PY'
import json,sys,re
id,prop,tier,rc=sys.argv[1:5]
f=f'/verif/seeded/{id}/meta.json'
m=json.load(open(f))
sigs=[l.split('signature:')[1].strip() for l in open(f'/tmp/seed/{id}.{prop}.check.err') if 'signature:' in l]
runs=[r for r in m.get('checks_run',[]) if not (r.get('check')==f"./check {prop} {tier}")]
runs.append({"check":f"./check {prop} {tier}","applied_with":f"git -C /repo apply seeded/{id}/patch.diff","exit":int(rc),"detected":int(rc)==1,"new_violation_signatures":sigs[:8]})
m['checks_run']=runs
json.dump(m,open(f,'w'),indent=1)
PY
exit $RC
