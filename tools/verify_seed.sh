#!/bin/bash
# tools/verify_seed.sh <scratch-id> <property>   (scratch worktree at /tmp/seed/<id>, made by a sub-agent)
# Confirms: patch applies to a clean tree, existing suite passes with it, demo fails with it and passes without.
# On success copies the seed to /verif/seeded/<id>/ (patch.diff, demo.rs, meta.json + verification record).
set -u
ID=$1; PROP=$2
W=/tmp/seed/$ID
LOG=/tmp/seed/$ID.verify.log
exec >"$LOG" 2>&1
cd $W || exit 9
export CARGO_NET_OFFLINE=true
test -f seed/patch.diff || { echo "RESULT: no patch"; exit 1; }
# normalise: clean tree, then apply the delivered patch
# (no git stash: the stash is shared by all worktrees of /repo)
git checkout -q -- rust/src
# verify against /repo's current HEAD (the scratch tree may have been created from an older commit)
git checkout -q --detach $(git -C /repo rev-parse HEAD) || { echo "RESULT: cannot checkout HEAD"; exit 1; }
echo "verifying at $(git rev-parse --short HEAD)"
git apply --check seed/patch.diff || { echo "RESULT: patch does not apply"; exit 1; }
mkdir -p rust/tests; cp seed/demo.rs rust/tests/seed_demo.rs
echo "== clean tree: demo must pass"
(cd rust && cargo test --offline --test seed_demo 2>&1 | tail -5)
(cd rust && cargo test --offline --test seed_demo >/dev/null 2>&1); CLEAN=$?
git apply seed/patch.diff
echo "== patched: demo must fail"
(cd rust && cargo test --offline --test seed_demo 2>&1 | tail -15)
(cd rust && cargo test --offline --test seed_demo >/dev/null 2>&1); PATCHED=$?
echo "== patched: existing suite must pass"
SUITE=$(cd rust && cargo test --offline --lib 2>&1 | grep -E "^test result")
echo "$SUITE"
echo "clean_demo_exit=$CLEAN patched_demo_exit=$PATCHED"
if [ $CLEAN -eq 0 ] && [ $PATCHED -ne 0 ] && echo "$SUITE" | grep -q "532 passed; 0 failed"; then
  mkdir -p /verif/seeded/$ID
  cp seed/patch.diff seed/demo.rs /verif/seeded/$ID/
  python3 - "$ID" "$PROP" "$SUITE" <<'PY'
import json,sys
id,prop,suite=sys.argv[1:4]
try: m=json.load(open(f'/tmp/seed/{id}/seed/meta.json'))
except Exception as e: m={"meta_error":str(e)}
m['property']=prop
m['verified_by_me']={"scratch_worktree":f"/tmp/seed/{id}","clean_tree_demo":"passes","patched_demo":"fails","existing_suite_with_patch":suite.strip(),
  "commands":["git apply seed/patch.diff","cargo test --offline --test seed_demo","cargo test --offline --lib"]}
json.dump(m,open(f'/verif/seeded/{id}/meta.json','w'),indent=1)
PY
  echo "RESULT: confirmed"
else
  echo "RESULT: rejected"
fi
