#!/bin/bash
# tools/seed_worker.sh : processes /tmp/seed/q/<n>-<ID>-<PROP>[-<PROP2>] files one at a time (confirm, run checks, remove worktree)
while true; do
  f=$(ls /tmp/seed/q 2>/dev/null | sort | head -1)
  if [ -z "$f" ]; then sleep 5; continue; fi
  IFS=- read -r n ID P P2 <<<"$f"
  {
    /verif/tools/verify_seed.sh $ID $P; tail -1 /tmp/seed/$ID.verify.log
    if grep -q "RESULT: confirmed" /tmp/seed/$ID.verify.log; then
      /verif/tools/try_seed_iso.sh $ID $P
      [ -n "$P2" ] && /verif/tools/try_seed_iso.sh $ID $P2
      git -C /repo worktree remove --force /tmp/seed/$ID
    fi
    echo PROCESSED
  } > /tmp/seed/$ID.proc.log 2>&1
  rm -f /tmp/seed/q/$f
done
