#!/bin/bash
# tools/process_seed.sh <seed-id> <property> : confirm a delivered seed, then run the property's quick check against it
ID=$1; P=$2
/verif/tools/verify_seed.sh $ID $P; tail -1 /tmp/seed/$ID.verify.log
if grep -q "RESULT: confirmed" /tmp/seed/$ID.verify.log; then
  /verif/tools/try_seed_iso.sh $ID $P
  git -C /repo worktree remove --force /tmp/seed/$ID
fi
