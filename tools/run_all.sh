#!/bin/bash
# tools/run_all.sh quick|thorough [ids...] : run the checks one after another, one summary line each
TIER=${1:-quick}; shift
IDS=${@:-C01 C02 C03 C04 C05 C06 C07 C08 C09 C10 C11 C12 C13 C14 C15 C16 C17 C18 C19 C20}
cd "$(dirname "$0")/.."
for p in $IDS; do
  s=$(date +%s)
  ./check $p $TIER > ${RUNALL_OUT:-/tmp}/run_all.$p.out 2> ${RUNALL_OUT:-/tmp}/run_all.$p.err; rc=$?
  e=$(( $(date +%s) - s ))
  echo "$p $TIER exit=$rc ${e}s $(grep -c '^VIOLATION' ${RUNALL_OUT:-/tmp}/run_all.$p.out) violations $(grep -c '^KNOWN-FINDING' ${RUNALL_OUT:-/tmp}/run_all.$p.out) known; $(grep -i 'missed' ${RUNALL_OUT:-/tmp}/run_all.$p.err | head -1 | cut -c1-200)"
done
