#!/bin/bash
# tools/try_seed_iso.sh <seed-id> <property> [tier]
# Same as try_seed.sh but on an isolated copy: /tmp/seedrun/repo is a scratch worktree of /repo's HEAD
# with the seeded patch applied, /tmp/seedrun/verif a copy of /verif whose harness path-depends on it.
# (/repo and /verif themselves stay untouched, so development can go on in parallel.)
set -u
ID=$1; PROP=$2; TIER=${3:-quick}
R=/tmp/seedrun
mkdir -p $R
exec 8>$R/.lock; flock 8
HEAD=$(git -C /repo rev-parse HEAD)
if [ ! -d $R/repo ]; then git -C /repo worktree add --detach $R/repo $HEAD -q || exit 9; fi
git -C $R/repo checkout -q -- . ; git -C $R/repo checkout -q --detach $HEAD || exit 9
cp /repo/rust/Cargo.lock $R/repo/rust/Cargo.lock
# VERIF_SRC: run the checks of another copy of /verif (e.g. an export of an earlier commit, to see
# what the checks "as they stood" do with a seed); its build output is kept from the previous run
SRC=${VERIF_SRC:-/verif}
if [ "$SRC" = "/verif" ]; then
  rsync -a --delete --exclude 'replays/*.json' --exclude '.git' /verif/ $R/verif/
else
  rsync -a --delete --exclude 'replays/*.json' --exclude '.git' --exclude 'harness/target' $SRC/ $R/verif/
fi
sed -i "s#path = \"/repo/rust\"#path = \"$R/repo/rust\"#" $R/verif/harness/Cargo.toml
git -C $R/repo apply /verif/seeded/$ID/patch.diff || { echo "patch does not apply"; exit 9; }
cd $R/verif
RUST_BACKTRACE=0 ./check $PROP $TIER > /tmp/seed/$ID.$PROP.check.out 2> /tmp/seed/$ID.$PROP.check.err; RC=$?
git -C $R/repo checkout -q -- .
echo "seed=$ID property=$PROP tier=$TIER exit=$RC (isolated copy)"
grep -E "^(VIOLATION|KNOWN-FINDING)" /tmp/seed/$ID.$PROP.check.out | cut -c1-160
grep -E "signature:" /tmp/seed/$ID.$PROP.check.err | head -6
python3 - "$ID" "$PROP" "$TIER" "$RC" "$HEAD" <<'PY'
import json,sys
id,prop,tier,rc,head=sys.argv[1:6]
f=f'/verif/seeded/{id}/meta.json'
m=json.load(open(f))
sigs=[l.split('signature:')[1].strip() for l in open(f'/tmp/seed/{id}.{prop}.check.err') if 'signature:' in l]
runs=[r for r in m.get('checks_run',[]) if not (r.get('check')==f"./check {prop} {tier}")]
runs.append({"check":f"./check {prop} {tier}","applied_with":f"git apply seeded/{id}/patch.diff on a scratch worktree of /repo@{head[:7]} (isolated copy of /verif wired to it; same commands)","exit":int(rc),"detected":int(rc)==1,"new_violation_signatures":sigs[:8]})
m['checks_run']=runs
json.dump(m,open(f,'w'),indent=1)
PY
exit $RC
