#!/bin/bash
# tools/new_seed.sh <seed-id> <property> [hint]  : scratch worktree + prompt for a seed sub-agent
ID=$1; PID=$2; HINT=${3:-}
D=/tmp/seed/$ID
mkdir -p /tmp/seed
[ -e $D ] && git -C /repo worktree remove --force $D 2>/dev/null
git -C /repo worktree add --detach $D $(git -C /repo rev-parse HEAD) -q || exit 1
cp /repo/rust/Cargo.lock $D/rust/Cargo.lock
mkdir -p $D/seed
python3 - "$ID" "$PID" "$HINT" <<'PY'
import json,sys
id,pid,hint=sys.argv[1:4]
prop=None
for l in open('/verif/properties.jsonl'):
    p=json.loads(l)
    if p['id']==pid: prop=p
text=f"[{prop['id']}] {prop['title']}\n\nStatement: {prop['statement']}\n\nQuantified over: {prop['quantifier']['text']}\n\nWhy the existing tests cannot settle it: {prop['why_tests_cant']}\n\nCode anchors: files {', '.join(prop['anchors']['files'])}; mechanisms: " + '; '.join(m['name']+' ('+m['where']+')' for m in prop['anchors']['mechanism'])
t=open('/verif/tools/seed_prompt.tmpl').read()
t=t.replace('@DIR@',f'/tmp/seed/{id}').replace('@PROP@',text).replace('@PID@',pid).replace('@ID@',id).replace('@HINT@',hint)
open(f'/tmp/seed/{id}.prompt','w').write(t)
PY
echo /tmp/seed/$ID.prompt
