#!/usr/bin/env python3
"""Regenerates /verif/MANIFEST.json from the table below (kept in one place so it stays valid)."""
import json, os, sys
HERE = os.path.dirname(os.path.dirname(os.path.abspath(__file__)))

CLAIMED = {
 "C15": dict(
   technique="bounded-exhaustive enumeration of argument products (every size 0..204800 x price alphabet, width-class products) on the real functions vs a big-rational reference (choice-tree explorer E1)",
   text="Every reference-script size up to the per-transaction limit, every tier boundary up to 200/1000 tiers, and full products of width-class arguments are executed on the real functions and compared with an independent big-rational transcription of the ledger's tier recursion; overflow must surface as Err. Exhaustive inside the stated bounds, nothing sampled.",
   note="Trusted: num-bigint, my transcription of tierRefScriptFee / ceil / linear fee. Prices with zero denominators are outside the domain. Sizes above 1000 tiers not enumerated.",
   design="DESIGN.md §3 C15"),
 "C14": dict(
   technique="bounded-exhaustive enumeration (E1 choice tree): full products of boundary operands x operations on the real BigNum/Int/BigInt/Value/MultiAsset code vs u128 / big-integer / own-RFC8949-encoder references",
   text="All operand pairs over the width classes and their neighbours for 9 BigNum operations; every Int constructor/parse path (new, new_negative, new_i32, from_str, from_bytes at every head width, JSON, MintBuilder accumulation, metadata keys/numbers) followed by every accessor and codec; BigInt +-(2^k-1, 2^k, 2^k+1) for every k<=2000 through CBOR/string/JSON/arithmetic; all ordered pairs (and triples of a sub-alphabet) of value bundles for add/sub/clamped_sub/compare/associativity. Every execution compares the library result with an exact reference; nothing is sampled.",
   note="Trusted: num-bigint as reference arithmetic, harness/src/refcbor.rs as RFC 8949 encoder. Division by zero excluded. Equality judged on quantities (zero = absent). Two known findings (Value::checked_sub clamps assets; Int::as_negative(-2^64)).",
   design="DESIGN.md §3 C14"),
 "C11": dict(
   technique="bounded-exhaustive enumeration (E1): all 256 header bytes x payload lengths 0..80 x fill patterns, all pointer triples over width classes, all single (thorough: pair) byte corruptions of Byron addresses, through strict parsers and embedded in outputs, vs a CIP-19 reference classifier",
   text="Every header byte at every length 0..80 is run through Address::from_bytes/from_hex/from_bech32 and embedded in TransactionOutput (both forms) and TransactionUnspentOutput; acceptance, kind, network, credentials and pointer values must equal a 60-line CIP-19 classifier, accepted addresses must survive bytes/hex/Bech32 (default + arbitrary prefixes)/JSON, invalid embedded bytes must come back verbatim as Malformed. Byron: all attribute combinations (3 payloads x 13 protocol magics incl. the explicit mainnet magic and the CBOR width edges x 3 roots x 3 types) built by an independent CBOR+CRC32 encoder, every single-byte (thorough: every pair) corruption, trailing bytes, malformed Base58/Bech32 text.",
   note="Trusted: my CIP-19 transcription, own CRC32/base58, bech32 crate for test-input encoding. Hash content is 3 fill patterns. One known finding (embedded address + trailing bytes re-encoded without them).",
   design="DESIGN.md §3 C11"),
 "C20": dict(
   technique="bounded-exhaustive enumeration (E1): all certificate sequences up to length 3 (thorough 4) x withdrawals x proposals x deposit-parameter grid on the real helpers and the real TransactionBuilder vs a ledger deposit/refund table",
   text="All 16 275 (thorough 406 901) certificate sequences over 25 certificates covering the 19 CDDL kinds, crossed with 3 withdrawal maps, 3 proposal lists and a 5x5 grid of (key_deposit, pool_deposit) including 2^63 and 2^64-1: get_deposit/get_implicit_input on the body, TransactionBuilder::get_deposit/get_implicit_input for the same content, and the harness's ledger table must agree three ways; totals above 2^64-1 must be Err everywhere.",
   note="Trusted: the deposit/refund table transcribed from the Conway ledger rules. Pool registrations counted as first registrations.",
   design="DESIGN.md §3 C20"),
 "C01": dict(
   technique="bounded-exhaustive enumeration (E1 choice tree with deviation bound) of generated values of 68 root types, every nested codec value visited; full presence products for body (2^18) and witness set (2^6)",
   text="For each of 68 root types all values within 2 (thorough 3) deviations of the simplest value - non-default variant, present optional field, non-zero CBOR width class of each integer, collection size 0/1/2/25 - are built through the public constructors; every nested value of a codec type is round-tripped on its own as well (to_bytes -> independent well-formedness parse -> from_bytes == value -> identical re-encoding -> hex entry points identical). Plus all 262 144 presence combinations of the optional body fields, all 64 of the witness set, and the <=3-deviation neighbourhoods of the all-absent and all-present ProtocolParamUpdate.",
   note="Trusted: refcbor (well-formedness), the types' PartialEq. Present-but-empty optional collections compared through bytes and a second round trip. Stand-alone PlutusScript(s) compared on bytes (the wire form has no language). Depth <= 3.",
   design="DESIGN.md §3 C01"),
 "C07": dict(
   technique="bounded-exhaustive enumeration (E1): full product of output shapes x coins-per-byte values derived per output to hit every CBOR width boundary, on min_ada_for_output, the output builder's min-coin helper and TransactionBuilder::add_output",
   text="4.4 M outputs (7 address kinds incl. a 76-byte Byron address and a malformed one x 32 coins x 69 asset bundles with names of every length 0..32 x datum options x script-ref options) x 24 coins-per-byte values computed per output so that the required coin lands on/around 24, 256, 65536, 2^32 and the u64 overflow edge: the returned coin must satisfy coin >= cpb*(160+size) for the output as carried (size measured by the independent CBOR reader) and must not exceed the bound with an 8-byte coin; add_output must never accept an output below the bound or above max_value_size; the output builder's min-coin helper must create conforming outputs.",
   note="Function part and output builder / add_output acceptance are complete; every output (requested, change, collateral return) of every transaction of the shared builder exploration is checked against the bound, max_value_size and max_tx_size (on the really signed bytes). Trusted: refcbor sizes, the Babbage min-UTxO formula.",
   design="DESIGN.md §3 C07"),
 "C17": dict(
   technique="bounded-exhaustive enumeration (E1): generated typed values through to_json/from_json; metadata and JSON trees to depth 3 per schema against a reference JSON->metadata conversion; Plutus data through detailed JSON; every byte length 0..200 through the chunk helpers",
   text="(a) every generated typed value of C01 through to_json -> from_json (equal value, equal bytes, JSON a fixpoint); (b) metadata trees (5 kinds, maps with keys of every kind) -> JSON -> metadata under NoConversions and DetailedSchema; (c) JSON documents in each schema's normal form -> metadata -> JSON, with the metadata compared against the harness's own reference conversion, and ~40 documents one step outside each schema that must be rejected; (d) Plutus data of all five kinds, constructor alternatives across the tag boundaries, big integers up to 2^512 through detailed JSON; (e) every length 0..=200 through encode/decode_arbitrary_bytes.",
   note="Trusted: serde_json for parsing test documents, ref_encode (reference conversion). Insertion-ordered maps are filled in ascending key order. Three known findings (Plutus script JSON drops the language; malformed-address JSON is not read back; Byron address with unknown magic has no default Bech32/JSON form).",
   design="DESIGN.md §3 C17"),
 "C02": dict(
   technique="bounded-exhaustive enumeration (E1) of malformed inputs on every public parsing entry point: all byte strings of length <= 2, all single-deviation mutants of generated valid encodings, nesting to depth 256, oversized lengths; inputs that can trigger an allocation abort are re-executed in child processes (fault isolation)",
   text="145 byte-level entry points (every codec type, raw hash/key/signature parsers, FixedTransaction, ByronAddress, has_transaction_set_tag) x all 65 793 byte strings of length <= 2; ~1 000 valid seed encodings (generators at deviation <= 1) x every truncation point, 20 structural substitutions at every position, inserted break/null/container heads at every gap, every head rewritten to 0/n-1/n+1/n+2, definite->indefinite heads, duplicated tail entries, well-formed tree edits (every container or string emptied, or its last entry removed), every length head rewritten to 2^16..2^63; nine container kinds (incl. set-tagged and general-constructor forms) nested to depths 1..256 in 15 recursive/enclosing types; malformed hex for every from_hex, every single-node replacement inside each type's own JSON, malformed Bech32/Base58/decimal text for 21 text parsers, ~300 documents for 13 free helpers (incl. string atoms with a multi-byte character at byte offsets 0-3 in every string position). Oracle: the call returns (no panic, no abort; a watchdog reports a decoder still running after 20 s), and an accepted value re-serialises to exactly one well-formed CBOR item for an independent reader. Choice vectors whose input could make the CBOR reader allocate a declared length are re-executed one by one in child processes so that an abort is attributed to one input.",
   note="Trusted: refcbor. Nesting > 256 out of scope. Two known findings (allocation of declared lengths inside cbor_event; lenient length checks + byte-preserving types re-emit malformed input). Thorough adds all pairs of substitutions on seeds <= 64 bytes.",
   design="DESIGN.md §3 C02"),
 "C03": dict(
   technique="bounded-exhaustive enumeration (E1) of generated values validated byte-by-byte by an independent schema-directed validator (hand transcription of the Conway CDDL over an independent CBOR reader)",
   text="Every value of the C01 space (68 root types, all values within 2/3 deviations, full presence products of body and witness set, PPU corners) and every nested value with a CDDL rule (about 100 rules) is serialised by the library and validated by cddl.rs: map keys, arities, tags (24/30/102/121-127/1280-1400/258/259/2/3), ranges, size bounds, text/bytes kinds, shortest definite head on every item except the two sanctioned forms, tag 258 and no byte-equal duplicates on every set-typed field. Validating constructors (asset name, url, dns, metadatum text/bytes incl. multi-byte text, ipv4/6) are probed at bound-1/bound/bound+1.",
   note="Trusted base: my transcription of conway.cddl (notes/conway.cddl) and refcbor. Legacy (pre-Conway) shapes the library still offers are validated against their Babbage rules and counted. Builder-produced transactions are validated in builder-output mode by the builder exploration (see C05).",
   design="DESIGN.md §3 C03"),
 "C05": dict(
   technique="explicit-state model checking (E2): breadth-first search over builder operation histories on the real TransactionBuilder with canonical-state deduplication; in every state every balancing method x configuration is executed (RNG answers within 1 deviation) and the built transaction is re-parsed and summed by an independent ledger oracle; model/implementation conformance checked in every state",
   text="Histories to depth 2 (thorough 3) over 49 operations, plus depth 3 (thorough 4) over a 33-operation core alphabet (11 inputs of key/Byron/native-script/Plutus owners with ADA at three widths and 1-3 asset policies, an input added twice, 5 requested outputs, 9 certificates covering every deposit/refund class, key withdrawals incl. one of 0 lovelace and re-adding an account with another amount, native mint / burn / two-name mint, proposal, donation, 4 fee requests, collateral, metadata set and added as JSON, ttl and validity start, current treasury value, add_mint_asset_and_output, declared reference scripts); in each distinct builder state, 5 (thorough 9) balancing methods x 8 (10) configurations (default, prefer_pure_change, max_value_size=100 forcing split asset change, coins_per_byte=1, do_not_burn_extra_change, reference-input de-duplication, a 76-byte Byron change address with prefer_pure_change / with max_value_size=100, the older per-item entry points add_key_input / add_bootstrap_input / add_native_script_input / add_plutus_script_input / set_certs / set_withdrawals / set_mint; set-remove-set of every removable component). Whenever balancing and build_tx succeed the transaction bytes are parsed by refcbor, inputs resolved in the scenario's UTxO table, and consumed == produced checked in u128 for lovelace and every asset id with the harness's deposit/refund table. The parsed body is also compared with the plain reference model of the history (inputs, certificates, withdrawals, mint, proposals, donation, collateral).",
   note="Trusted: ledger rules transcription (notes/ledger_rules.md §1), refcbor, the scenario's UTxO table. State key = digest of the Debug rendering of the real sub-builders plus the model (finer than necessary, never coarser).",
   design="DESIGN.md §3 C05"),
 "C06": dict(
   technique="explicit-state model checking (E2), same state space as C05; oracle: minimum fee recomputed by the harness on the really signed transaction bytes",
   text="In every state of the C05 exploration and for every balancing method x configuration, the built transaction is completed with exactly the witnesses the ledger requires - witsVKeyNeeded computed by the harness from the parsed body and the UTxO table (payment keys of inputs and collateral, certificate / withdrawal / vote keys, keys named by native scripts in use, required signers; one bootstrap witness per Byron address) - and fee >= a*|signed tx| + b + ceil(ex-unit cost) + floor(tiered reference-script fee) is checked with big integers; a requested minimum fee is a lower bound; an exact fee is used exactly. When balancing succeeded but build_tx refuses the fee, the same oracle is applied to build_tx_unsafe().",
   note="Trusted: notes/ledger_rules.md §2/§4, ledger.rs (min_fee, signed_bytes). One known finding (asset-change top-up outruns the fee slack at coins_per_byte=1).",
   design="DESIGN.md §3 C06"),
 "C09": dict(
   technique="explicit-state model checking (E2) over histories of Plutus uses on the real builder + bounded-exhaustive enumeration (E1) of the stand-alone hashing helpers; oracle recomputes both hashes from byte spans cut out of the emitted transaction",
   text="Histories to depth 4 (thorough 5) over 39 operations plus depth 5 (6) over a 22-operation core alphabet: Plutus spends (V1/V2/V3, the same bytes under two languages, three inputs under one script; script inline or by reference; datum in the witness set, inline or in a reference input), two Plutus mint policies, a mint that nets to zero, script certificates, two Plutus / native / key withdrawals, script and key voters (two Plutus), plain and Plutus-guarded proposals, extra datums (new and duplicate of a spend datum), metadata; calc_script_data_hash before and after balancing. From the built bytes refcbor cuts the raw spans of witness fields 5 and 4 and of the auxiliary data; body[11] must equal blake2b256(redeemers-or-A0 || datums-if-present || language views of exactly the languages in use) with the harness's own language-view encoder, body[7] must equal blake2b256(aux span). hash_script_data / hash_auxiliary_data / hash_plutus_data are compared with the bytes a witness set built through the typed setters emits for the same arguments (redeemers {0,1,2} x map/array container x 6 datum arguments incl. duplicates and an indefinite-decoded list x 4 cost-model tables).",
   note="Trusted: notes/ledger_rules.md §6, cryptoxide blake2b. Precondition from the property: the hash is computed after the last script item was added.",
   design="DESIGN.md §3 C09"),
 "C10": dict(
   technique="explicit-state model checking (E2): BFS over all insertion orders of script and non-script items on the real builder; oracle resolves every emitted redeemer pointer in the re-parsed body by the ledger's ordering rules",
   text="Histories to depth 4 (thorough 5) over 39 operations plus depth 5 (6) over a 22-operation core alphabet, with at least two Plutus items in every redeemer purpose: key and Plutus inputs on adversarial outpoints (hash order != index order != insertion order; three inputs under one script), native and two Plutus policies (and a native mint that nets to zero before them), key and script certificates, key / native-script / two Plutus withdrawals, committee key / committee script / two Plutus voters, plain and two Plutus-guarded proposals; every redeemer's data is a unique integer naming the item it was attached to. For each (tag, index) in the emitted witness set the item is resolved in the parsed body (inputs sorted by (txid, ix); policies bytewise; certificates in sequence; reward accounts in the ledger's RewardAccount order - script before key; voters in the ledger's Voter order; proposals in sequence) and must be the named item; no two redeemers share a pointer.",
   note="Trusted: notes/ledger_rules.md §5. BFS visits every order of every multiset of operations, which is the permutation differential of the design.",
   design="DESIGN.md §3 C10"),
 "C18": dict(
   technique="explicit-state model checking (E2): BFS over histories mixing every witness source on the real builder; oracle = script availability exactly once + size of the really signed transaction",
   text="Histories to depth 3 (thorough 4) over 53 operations plus depth 4 (5) over a 36-operation core alphabet, x 3 configurations (default, reference-input de-duplication, older entry points): key inputs sharing a key, three Byron inputs over two addresses, native-script inputs (pubkey, all-of, 2-of-3 with any-of and a time lock; inline / by reference with all or different single signers declared on two inputs of one script), Plutus inputs V1/V2/V3 (the same bytes under two languages; two inputs under one script; inline or reference script, witness / inline / reference-input datum), collateral (same / different key), certificates of every witness class, key / native / Plutus withdrawals, five voter kinds, native and Plutus mints, required signers (new / already needed), explicit reference inputs (plain, with script size, equal to a regular input, with and without the de-duplication flag), extra datums, metadata. For every built transaction: each script-locked item has its script exactly once (witness set, or reference input present in body[18], never both unless another use supplies it inline), witness datums exactly the supplied ones once, one redeemer per Plutus use, and 0 <= full_size() - |transaction signed by exactly witsVKeyNeeded + one bootstrap witness per Byron address| < 101.",
   note="Trusted: notes/ledger_rules.md §4, ledger.rs. Script hashes recomputed by the harness with cryptoxide.",
   design="DESIGN.md §3 C18"),
 "C08": dict(
   technique="stateless model checking of the real selection code under a controlled source of randomness: every gen_range answer of the random-improve strategies is a choice point of the choice-tree explorer (E1, no deviation bound), crossed with a full product of scenarios",
   text="4 strategies x 4 output configurations (one / two ADA outputs, asset A, assets A+B) x 3 implicit inputs (none / not covering / covering withdrawal) x 3 pre-existing-input situations (none, foreign, one that is also offered) x every offered subset of size <= 6 (thorough: all 128) of a 7-entry table (two equal ADA values, large, small, asset A, asset B, A+B) x offered order as listed / reversed x EVERY sequence of random answers (selection picks, improvement swaps, fee top-up). On Ok: inputs read back from the built body are distinct members of pre-existing + offered, pre-existing ones untouched, get_explicit_input equals the table sum, and table values + implicit input >= get_total_output + min_fee in lovelace and each asset; LargestFirst: top-k by coin, minimal (dropping its smallest pick uncovers), insufficiency only if everything offered does not suffice.",
   note="Hook: RNG seam (verif_hooks::ChoiceRng). The right side of the coverage inequality uses the builder's min_fee/get_total_output (their correctness is C06/C05).",
   design="DESIGN.md §3 C08"),
 "C19": dict(
   technique="bounded-exhaustive enumeration (E1): full product of collateral input sets x helper entry points x boundary arguments x both call orders on the real builder; the body fields 13/16/17 are re-parsed and judged as an equation on whole values",
   text="Collateral input sets of size 1..3 (thorough 1..5) over 5 candidates (ADA at three widths, ADA + asset A, ADA + A + B) x set_collateral_return_and_total with 9 return coins (around the return's own min-ADA, around the input total, 0, 2^16) x 8 asset choices (exactly the inputs' assets, fewer, more, another policy, none, partial, another asset name under a held policy x2) and set_total_collateral_and_return with 9 totals (0, 1, around inputs - min-ADA, = inputs, > inputs, 2^16, 2^32) x coins_per_byte {4310, 1} x both orders of collateral vs balancing; the percentage helper over collateral sets x percentages {0, 1, 99, 100, 150, 2^32, 2^64-1} x 4 output sizes (one beyond everything offered) x 2 strategies (RNG answers all explored). Oracle on the parsed body: table values of body[13] == value(body[16]) + body[17] for lovelace and every asset, return >= coins_per_byte*(160+size), total >= ceil(fee*pct/100), and after an Err neither field is set.",
   note="Trusted: notes/ledger_rules.md §7, refcbor. Raw pass-through setters excluded by the reading in DESIGN.",
   design="DESIGN.md §3 C19"),
 "C16": dict(
   technique="bounded-exhaustive enumeration (E1) of insertion histories with repeats x arrival paths on the real collection types, witness-set setters and asset maps, against a first-insertion-order / canonical-order reference model; explicit-state BFS (E2) over builder histories with every end state rebuilt 12 times under 4 hash-container seeds",
   text="sets: all histories of length <= 4 (thorough 6) over 4 elements into TransactionInputs, Ed25519KeyHashes, Credentials, Certificates, VotingProposals, Vkeywitnesses, BootstrapWitnesses x {add, bytes tagged/untagged x definite/indefinite, JSON, decode-a-prefix-then-add at every split, inside a TransactionBody (fields 0, 13, 18, 14, 4, 20) / TransactionWitnessSet (0, 2)}; items cut from the emitted bytes == history with later repeats dropped, also after JSON/bytes round trip and clone; len/get/add-return agree. witness_setters: histories <= 4 (5) over 4 native scripts, 4 Plutus scripts, 5 datums (same value constructed / decoded / decoded non-canonical). asset_maps: <= 3 (4) insertions over 3 policies x 8 names (lengths 0,1,1,2,23,24,25,32; longer names bytewise smaller) through MultiAsset::set_asset, Assets+MultiAsset::insert, Value, decoding unsorted bytes / JSON, add_mint_asset, MintBuilder, set_mint; key order length-first canonical at both levels and content == model. builder: BFS to depth 4 (5) over 28 ops (items bringing scripts, datums, reference inputs and signers) x 2 configs (default, reference-input de-duplication) x 2 finishing methods; byte-identical rebuilds (object, clone, 4 hash seeds), no repeated element in any set-typed field of the built transaction, every value and mint canonical.",
   note="Trusted: refcbor; RFC 8949 length-first key order. Hash-order seam: verif-hooks feature (seeded HashMap/HashSet in the builder).",
   design="DESIGN.md §3 C16"),
 "C04": dict(
   technique="bounded-exhaustive enumeration (E1) with a deviation bound: every re-encoding of base transactions / datums / block bodies with <= B encoding deviations (independent CBOR writer) x load paths x every history of signature / setter operations on the real FixedTransaction; oracle = byte spans of the input cut out by the independent reader, Blake2b and Ed25519 from cryptoxide",
   text="fixed_tx: 4 base transactions (minimal; full Conway body with all 8 witness fields and tag-259 auxiliary data, tagged sets; the same with untagged sets; legacy array redeemers with witness keys out of order) x all trees with <= 1 deviation (thorough: <= 2 with histories <= 1) from the per-node menu {each wider head, indefinite container, string in 1 / 2 chunks / empty first chunk, adjacent map entries swapped, map entry repeated, set element repeated, set tag dropped / added} x {from_bytes, from_hex, new / new_with_auxiliary} x every history of <= 2 (3) operations over 11 (add / sign vkey, add / sign bootstrap icarus + daedalus, re-adding a present witness, set_body, set_auxiliary_data, set_is_valid), checked after load and after every operation. datum: 7 base datums x <= 2 (3) deviations x 7 containers. block: the rich bodies x <= 1 deviation inside a block (FixedBlock, FixedTransactionBody).",
   note="Trusted: refcbor, cryptoxide. Repeating an element of a fixed-arity array (another shape, not another encoding) is left to C02's recorded finding.",
   design="DESIGN.md §3 C04"),
 "C13": dict(
   technique="bounded-exhaustive enumeration (E1, full product) of UTxO sequences x protocol-parameter configurations x target addresses x hash-container seeds on the real create_send_all; the returned transactions are re-parsed and judged by the harness's ledger model against the UTxO table",
   text="sequences: every sequence of <= 3 (thorough 4) UTxOs over 14 kinds (pure ADA from dust to 2^40, assets whose summed quantity crosses 255|256, 2^32 and ~2^63 quantities, names of 0 / 1 / 32 bytes, 1..3 policies, asset-rich with little ADA, two Byron owners, one key behind three address forms) x 8 parameter configurations (tight max_tx_size, tight max_value_size, zero fee, tiny and tenfold min-ADA price, steep fee) x 3 targets x 2 hash seeds; families: 6 count families x n in {1..4, 22..26, 60} (thorough also 120, 254..257, 300) x 8 configurations x 2 seeds. Oracle: each supplied UTxO spent exactly once, only the target paid, lovelace and every asset balanced, fee >= a*|signed tx|+b with one witness per distinct key / Byron address (real-size witnesses inserted by the harness), |signed tx| <= max_tx_size, |value| <= max_value_size, min-ADA per output, no zero quantities.",
   note="Trusted: ledger.rs, refcbor, notes/ledger_rules.md §1-§3. A refusal is not judged (the property is conditional).",
   design="DESIGN.md §3 C13"),
 "C12": dict(
   technique="bounded-exhaustive enumeration (E1, full product) over key kinds x seeds x messages x derivation paths over a boundary index alphabet x passwords / plaintext lengths on the real wrappers, each positive case with its complete single-fault neighbourhood (every bit flip of message, signature, public key, hash, container; every truncation; every other key / password); oracles: cryptoxide Ed25519 called directly, an independent BIP32-Ed25519 V2 derivation, an independent Bech32 reading",
   text="sign_verify: 3 key kinds x 3 seeds x 8 message lengths (0..255) with all single-bit neighbours rejected, all encodings round-tripped and cross-type Bech32 strings refused. witness_helpers: 5 helpers/key kinds x 3 seeds x 4 hashes, signature over exactly the hash bytes (256 neighbours rejected). derivation: 4 roots x all paths to depth 3 over 8 indices (thorough: depth 6 over 5 indices and depth 4 over 12 indices) including 0x7FFFFFFE/0x7FFFFFFF/0x80000000/0xFFFFFFFF: every private step against the independent derivation, soft steps commute, hardened-from-public refused, all encodings at every path end. emip3: 4 passwords x 8 plaintext lengths (0..200) x 2 salt/nonce pairs with wrong/near-miss passwords and the bit-flip / truncation neighbourhood of the container.",
   note="Trusted: cryptoxide primitives, bech32 crate. Randomly generated keys are outside a deterministic enumeration.",
   design="DESIGN.md §3 C12"),
}

PENDING_REASON = "check not built yet in this session (work in progress; see DESIGN.md §8 construction order)"

def main():
    props = [json.loads(l) for l in open(os.path.join(HERE, "properties.jsonl"))]
    checks = []
    na = []
    for p in props:
        pid = p["id"]
        c = CLAIMED.get(pid)
        if not c:
            na.append({"property_id": pid, "reason": PENDING_REASON})
            continue
        checks.append({
            "property_id": pid,
            "quick_cmd": f"./check {pid} quick",
            "thorough_cmd": f"./check {pid} thorough",
            "evidence_file": f"/verif/evidence/{pid}.json",
            "replay_cmd_template": f"./check {pid} --replay {{path}}",
            "engine": c.get("engine", "csl-mc"),
            "level_claimed": {"category": "model_checking", "text": c["text"], "design_ref": c["design"]},
            "level_note": c["note"],
            "technique": c["technique"],
        })
    m = {
        "version": 1,
        "setup_cmd": "cd /verif/harness && CARGO_NET_OFFLINE=true cargo build --release --offline",
        "hooks": {
            "guard": "cargo feature verif-hooks (rust/Cargo.toml)",
            "enable": "the harness crate /verif/harness path-depends on /repo/rust with features=[\"verif-hooks\"]; ./check rebuilds it from /repo's working tree",
            "baseline_off_cmd": "cd /repo/rust && cargo test --workspace --no-fail-fast --offline",
            "source_commits": ["23045e0"],
            "add_only": True,
        },
        "engines": [
            {"name": "csl-mc", "path": "/verif/harness", "serves_properties": sorted(CLAIMED.keys()),
             "kind_free_text": "own Rust explorers executing the real library: E1 choice-tree DFS by re-execution with deviation bounds, sharding and replay; E2 explicit-state BFS over builder operation histories with canonical-state dedup; independent CBOR reader, CDDL validator and ledger oracle as reference models"},
        ],
        "checks": checks,
        "not_applicable": na,
        "notes": "All checks: ./check <id> <quick|thorough>; violations write /verif/replays/<id>-<hash>.json; known findings in /verif/known_findings.json.",
    }
    json.dump(m, open(os.path.join(HERE, "MANIFEST.json"), "w"), indent=1)
    print("claimed:", sorted(CLAIMED.keys()), "unclaimed:", [x["property_id"] for x in na])

if __name__ == "__main__":
    main()
