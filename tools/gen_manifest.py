#!/usr/bin/env python3
"""Regenerates /verif/MANIFEST.json from the table below (kept in one place so it stays valid)."""
import json, os, sys
HERE = os.path.dirname(os.path.dirname(os.path.abspath(__file__)))

CLAIMED = {
 "C15": dict(
   technique="bounded-exhaustive enumeration of argument products (every size 0..204800 x price alphabet, width-class products) on the real functions vs a big-rational reference (choice-tree explorer E1)",
   text="Every reference-script size up to the per-transaction limit, every tier boundary up to 200/1000 tiers, and full products of width-class arguments are executed on the real functions and compared with an independent big-rational transcription of the ledger's tier recursion; overflow must surface as Err. Exhaustive inside the stated bounds, nothing sampled.",
   note="Trusted: num-bigint, my transcription of tierRefScriptFee / ceil / linear fee. Prices with zero denominators are outside the domain. Sizes above 1000 tiers not enumerated.",
   design="DESIGN.md §3 C15"),
}

PENDING_REASON = "check not built yet in this session (work in progress; see DESIGN.md §8 construction order)"

def main():
    props = [json.loads(l) for l in open(os.path.join(HERE, "properties.jsonl"))]
    checks = []
    na = []
    for p in props:
        pid = p["id"]
        c = CLAIMED.get(pid)
        if not c:
            na.append({"property_id": pid, "reason": PENDING_REASON})
            continue
        checks.append({
            "property_id": pid,
            "quick_cmd": f"./check {pid} quick",
            "thorough_cmd": f"./check {pid} thorough",
            "evidence_file": f"/verif/evidence/{pid}.json",
            "replay_cmd_template": f"./check {pid} --replay {{path}}",
            "engine": c.get("engine", "csl-mc"),
            "level_claimed": {"category": "model_checking", "text": c["text"], "design_ref": c["design"]},
            "level_note": c["note"],
            "technique": c["technique"],
        })
    m = {
        "version": 1,
        "setup_cmd": "cd /verif/harness && CARGO_NET_OFFLINE=true cargo build --release --offline",
        "hooks": {
            "guard": "cargo feature verif-hooks (rust/Cargo.toml)",
            "enable": "the harness crate /verif/harness path-depends on /repo/rust with features=[\"verif-hooks\"]; ./check rebuilds it from /repo's working tree",
            "baseline_off_cmd": "cd /repo/rust && cargo test --workspace --no-fail-fast --offline",
            "source_commits": ["23045e0"],
            "add_only": True,
        },
        "engines": [
            {"name": "csl-mc", "path": "/verif/harness", "serves_properties": sorted(CLAIMED.keys()),
             "kind_free_text": "own Rust explorers executing the real library: E1 choice-tree DFS by re-execution with deviation bounds, sharding and replay; E2 explicit-state BFS over builder operation histories with canonical-state dedup; independent CBOR reader, CDDL validator and ledger oracle as reference models"},
        ],
        "checks": checks,
        "not_applicable": na,
        "notes": "All checks: ./check <id> <quick|thorough>; violations write /verif/replays/<id>-<hash>.json; known findings in /verif/known_findings.json.",
    }
    json.dump(m, open(os.path.join(HERE, "MANIFEST.json"), "w"), indent=1)
    print("claimed:", sorted(CLAIMED.keys()), "unclaimed:", [x["property_id"] for x in na])

if __name__ == "__main__":
    main()
