#!/bin/bash
# tools/seed_round.sh <suffix> <props...> : prepare scratch worktrees + prompts for one seed round;
# the hint lists the mechanisms of the earlier seeds of that property (from seeded/*/meta.json) so they are not repeated.
SUF=$1; shift
for P in "$@"; do
  HINT=$(python3 - "$P" <<'PY'
import json,glob,sys
p=sys.argv[1]
ms=[]
for f in sorted(glob.glob(f'/verif/seeded/{p}?/meta.json')):
    m=json.load(open(f)); s=m.get('summary','')
    ms.append(s[:260].replace('\n',' '))
if ms:
    print("Do NOT reuse any of these mechanisms, which have been used before (pick a different code site and a different kind of mistake): "+" || ".join(f"({i+1}) {s}…" for i,s in enumerate(ms)))
PY
)
  /verif/tools/new_seed.sh $P$SUF $P "$HINT"
done
