//! Ledger oracle (notes/ledger_rules.md): works on the bytes of a transaction re-parsed with
//! refcbor and on the scenario's UTxO table. Nothing here calls the library.

use crate::refcbor::{self, Kind, Node};
use crate::util::*;
use num_bigint::BigInt as NB;
use num_integer::Integer;
use num_traits::{ToPrimitive, Zero};
use std::collections::{BTreeMap, BTreeSet};

pub type AssetId = (Vec<u8>, Vec<u8>);

#[derive(Clone, Debug, Default, PartialEq)]
pub struct Val {
    pub coin: u128,
    pub assets: BTreeMap<AssetId, i128>,
}

impl Val {
    pub fn coin(c: u64) -> Val {
        Val { coin: c as u128, assets: BTreeMap::new() }
    }
    pub fn add(&mut self, o: &Val) {
        self.coin += o.coin;
        for (k, q) in &o.assets {
            *self.assets.entry(k.clone()).or_insert(0) += *q;
        }
    }
    pub fn normalized(&self) -> Val {
        let mut v = self.clone();
        v.assets.retain(|_, q| *q != 0);
        v
    }
}

#[derive(Clone, Debug)]
pub struct POut {
    pub addr: Vec<u8>,
    pub value: Val,
    pub value_bytes: usize,
    pub size: usize,
    pub has_zero_asset: bool,
    pub has_empty_bundle: bool,
    pub span: (usize, usize),
}

#[derive(Clone, Debug, PartialEq, Eq, PartialOrd, Ord)]
pub struct PRedeemer {
    pub tag: u64,
    pub index: u64,
    pub data: Vec<u8>,
    pub mem: u64,
    pub steps: u64,
}

#[derive(Clone, Debug, Default)]
pub struct PTx {
    pub bytes: Vec<u8>,
    pub body_span: (usize, usize),
    pub wits_span: (usize, usize),
    pub aux_span: Option<(usize, usize)>,
    pub inputs: Vec<(Vec<u8>, u64)>,
    pub outputs: Vec<POut>,
    pub fee: u64,
    pub ttl: Option<u64>,
    pub certs: Vec<Node>,
    pub withdrawals: Vec<(Vec<u8>, u64)>,
    pub aux_hash: Option<Vec<u8>>,
    pub mint: Vec<(Vec<u8>, Vec<(Vec<u8>, i128)>)>,
    pub script_data_hash: Option<Vec<u8>>,
    pub collateral: Vec<(Vec<u8>, u64)>,
    pub required_signers: Vec<Vec<u8>>,
    pub collateral_return: Option<POut>,
    pub total_collateral: Option<u64>,
    pub reference_inputs: Vec<(Vec<u8>, u64)>,
    pub voters: Vec<(u64, Vec<u8>)>,
    pub proposals: Vec<Node>,
    pub treasury: Option<u64>,
    pub donation: Option<u64>,
    pub body_keys: Vec<u64>,
    // witness set
    pub wit_keys: Vec<u64>,
    pub vkey_count: usize,
    pub bootstrap_count: usize,
    pub native_scripts: Vec<Vec<u8>>,
    pub plutus_scripts: Vec<(u8, Vec<u8>)>,
    pub datums: Vec<Vec<u8>>,
    pub datums_span: Option<(usize, usize)>,
    pub redeemers: Vec<PRedeemer>,
    pub redeemers_span: Option<(usize, usize)>,
    pub wit_field_spans: BTreeMap<u64, (usize, usize)>,
}

fn outpoint(n: &Node) -> Option<(Vec<u8>, u64)> {
    let a = n.as_array()?;
    Some((a.get(0)?.as_bytes()?.to_vec(), a.get(1)?.as_uint()?))
}

fn parse_value(n: &Node, src: &[u8]) -> Option<(Val, bool, bool)> {
    let _ = src;
    let mut v = Val::default();
    let mut zero = false;
    let mut empty = false;
    match &n.kind {
        Kind::UInt(c) => v.coin = *c as u128,
        Kind::Array(a) => {
            v.coin = a.get(0)?.as_uint()? as u128;
            let m = a.get(1)?.as_map()?;
            if m.is_empty() {
                empty = true;
            }
            for (p, assets) in m {
                let am = assets.as_map()?;
                if am.is_empty() {
                    empty = true;
                }
                for (name, q) in am {
                    let q = q.as_uint()?;
                    if q == 0 {
                        zero = true;
                    }
                    *v.assets.entry((p.as_bytes()?.to_vec(), name.as_bytes()?.to_vec())).or_insert(0) += q as i128;
                }
            }
        }
        _ => return None,
    }
    Some((v, zero, empty))
}

pub fn parse_output(n: &Node, src: &[u8]) -> Option<POut> {
    let (addr, val) = match &n.kind {
        Kind::Array(a) => (a.get(0)?, a.get(1)?),
        Kind::Map(_) => (n.map_get(0)?, n.map_get(1)?),
        _ => return None,
    };
    let (value, z, e) = parse_value(val, src)?;
    Some(POut { addr: addr.as_bytes()?.to_vec(), value, value_bytes: val.end - val.start, size: n.end - n.start, has_zero_asset: z, has_empty_bundle: e, span: (n.start, n.end) })
}

pub fn parse_tx(bytes: &[u8]) -> Result<PTx, String> {
    let root = refcbor::parse(bytes).map_err(|e| format!("transaction bytes not well-formed: {:?}", e))?;
    let a = root.as_array().ok_or("transaction is not an array")?;
    if a.len() != 4 {
        return Err(format!("transaction array has {} items", a.len()));
    }
    let mut t = PTx { bytes: bytes.to_vec(), ..Default::default() };
    t.body_span = (a[0].start, a[0].end);
    t.wits_span = (a[1].start, a[1].end);
    if !a[3].is_null() {
        t.aux_span = Some((a[3].start, a[3].end));
    }
    let body = a[0].as_map().ok_or("body is not a map")?;
    for (k, v) in body {
        let key = k.as_uint().ok_or("non-uint body key")?;
        t.body_keys.push(key);
        let bad = || format!("body field {} has an unexpected shape: {}", key, short(&refcbor::diag(v), 120));
        match key {
            0 => t.inputs = v.set_items().ok_or_else(bad)?.iter().map(outpoint).collect::<Option<Vec<_>>>().ok_or_else(bad)?,
            1 => t.outputs = v.as_array().ok_or_else(bad)?.iter().map(|o| parse_output(o, bytes)).collect::<Option<Vec<_>>>().ok_or_else(bad)?,
            2 => t.fee = v.as_uint().ok_or_else(bad)?,
            3 => t.ttl = Some(v.as_uint().ok_or_else(bad)?),
            4 => t.certs = v.set_items().ok_or_else(bad)?.clone(),
            5 => {
                for (ra, c) in v.as_map().ok_or_else(bad)? {
                    t.withdrawals.push((ra.as_bytes().ok_or_else(bad)?.to_vec(), c.as_uint().ok_or_else(bad)?));
                }
            }
            7 => t.aux_hash = Some(v.as_bytes().ok_or_else(bad)?.to_vec()),
            9 => {
                for (p, assets) in v.as_map().ok_or_else(bad)? {
                    let mut list = Vec::new();
                    for (n, q) in assets.as_map().ok_or_else(bad)? {
                        list.push((n.as_bytes().ok_or_else(bad)?.to_vec(), q.as_int().ok_or_else(bad)?));
                    }
                    t.mint.push((p.as_bytes().ok_or_else(bad)?.to_vec(), list));
                }
            }
            11 => t.script_data_hash = Some(v.as_bytes().ok_or_else(bad)?.to_vec()),
            13 => t.collateral = v.set_items().ok_or_else(bad)?.iter().map(outpoint).collect::<Option<Vec<_>>>().ok_or_else(bad)?,
            14 => t.required_signers = v.set_items().ok_or_else(bad)?.iter().map(|x| x.as_bytes().map(|b| b.to_vec())).collect::<Option<Vec<_>>>().ok_or_else(bad)?,
            16 => t.collateral_return = Some(parse_output(v, bytes).ok_or_else(bad)?),
            17 => t.total_collateral = Some(v.as_uint().ok_or_else(bad)?),
            18 => t.reference_inputs = v.set_items().ok_or_else(bad)?.iter().map(outpoint).collect::<Option<Vec<_>>>().ok_or_else(bad)?,
            19 => {
                for (voter, _) in v.as_map().ok_or_else(bad)? {
                    let va = voter.as_array().ok_or_else(bad)?;
                    t.voters.push((va.get(0).and_then(|x| x.as_uint()).ok_or_else(bad)?, va.get(1).and_then(|x| x.as_bytes()).ok_or_else(bad)?.to_vec()));
                }
            }
            20 => t.proposals = v.set_items().ok_or_else(bad)?.clone(),
            21 => t.treasury = Some(v.as_uint().ok_or_else(bad)?),
            22 => t.donation = Some(v.as_uint().ok_or_else(bad)?),
            _ => {}
        }
    }
    let wits = a[1].as_map().ok_or("witness set is not a map")?;
    for (k, v) in wits {
        let key = k.as_uint().ok_or("non-uint witness key")?;
        t.wit_keys.push(key);
        t.wit_field_spans.insert(key, (v.start, v.end));
        let bad = || format!("witness field {} has an unexpected shape", key);
        match key {
            0 => t.vkey_count = v.set_items().ok_or_else(bad)?.len(),
            2 => t.bootstrap_count = v.set_items().ok_or_else(bad)?.len(),
            1 => t.native_scripts = v.set_items().ok_or_else(bad)?.iter().map(|s| bytes[s.start..s.end].to_vec()).collect(),
            3 | 6 | 7 => {
                let lang = match key {
                    3 => 1u8,
                    6 => 2,
                    _ => 3,
                };
                for s in v.set_items().ok_or_else(bad)? {
                    t.plutus_scripts.push((lang, s.as_bytes().ok_or_else(bad)?.to_vec()));
                }
            }
            4 => {
                t.datums_span = Some((v.start, v.end));
                t.datums = v.set_items().ok_or_else(bad)?.iter().map(|d| bytes[d.start..d.end].to_vec()).collect();
            }
            5 => {
                t.redeemers_span = Some((v.start, v.end));
                match &v.kind {
                    Kind::Map(m) => {
                        for (rk, rv) in m {
                            let ka = rk.as_array().ok_or_else(bad)?;
                            let va = rv.as_array().ok_or_else(bad)?;
                            let ex = va.get(1).and_then(|x| x.as_array()).ok_or_else(bad)?;
                            t.redeemers.push(PRedeemer {
                                tag: ka.get(0).and_then(|x| x.as_uint()).ok_or_else(bad)?,
                                index: ka.get(1).and_then(|x| x.as_uint()).ok_or_else(bad)?,
                                data: bytes[va[0].start..va[0].end].to_vec(),
                                mem: ex.get(0).and_then(|x| x.as_uint()).ok_or_else(bad)?,
                                steps: ex.get(1).and_then(|x| x.as_uint()).ok_or_else(bad)?,
                            });
                        }
                    }
                    Kind::Array(arr) => {
                        for r in arr {
                            let ra = r.as_array().ok_or_else(bad)?;
                            let ex = ra.get(3).and_then(|x| x.as_array()).ok_or_else(bad)?;
                            t.redeemers.push(PRedeemer {
                                tag: ra.get(0).and_then(|x| x.as_uint()).ok_or_else(bad)?,
                                index: ra.get(1).and_then(|x| x.as_uint()).ok_or_else(bad)?,
                                data: bytes[ra[2].start..ra[2].end].to_vec(),
                                mem: ex.get(0).and_then(|x| x.as_uint()).ok_or_else(bad)?,
                                steps: ex.get(1).and_then(|x| x.as_uint()).ok_or_else(bad)?,
                            });
                        }
                    }
                    _ => return Err(bad()),
                }
            }
            _ => {}
        }
    }
    Ok(t)
}

#[derive(Clone, Copy, Debug)]
pub struct Deposits {
    pub key_deposit: u64,
    pub pool_deposit: u64,
}

/// (deposit, refund) of one certificate node, per the table in notes/ledger_rules.md §1
pub fn cert_deposit_refund(c: &Node, p: &Deposits) -> Result<(u128, u128), String> {
    let a = c.as_array().ok_or("certificate is not an array")?;
    let k = a.get(0).and_then(|x| x.as_uint()).ok_or("certificate without kind")?;
    let coin_at = |i: usize| -> Result<u128, String> { a.get(i).and_then(|x| x.as_uint()).map(|x| x as u128).ok_or(format!("certificate kind {} lacks coin at {}", k, i)) };
    Ok(match k {
        0 => (p.key_deposit as u128, 0),
        1 => (0, p.key_deposit as u128),
        3 => (p.pool_deposit as u128, 0),
        7 => (coin_at(2)?, 0),
        8 => (0, coin_at(2)?),
        11 => (coin_at(3)?, 0),
        12 => (coin_at(3)?, 0),
        13 => (coin_at(4)?, 0),
        16 => (coin_at(2)?, 0),
        17 => (0, coin_at(2)?),
        _ => (0, 0),
    })
}

/// Preservation of value. `utxo` resolves an outpoint to its value.
pub fn conservation(t: &PTx, utxo: &dyn Fn(&(Vec<u8>, u64)) -> Option<Val>, p: &Deposits) -> Result<(Val, Val), String> {
    let mut consumed = Val::default();
    for i in &t.inputs {
        consumed.add(&utxo(i).ok_or(format!("input {}#{} is not in the scenario's UTxO table", hx(&i.0[..4]), i.1))?);
    }
    for (_, c) in &t.withdrawals {
        consumed.coin += *c as u128;
    }
    let mut produced = Val::default();
    for o in &t.outputs {
        produced.add(&o.value);
    }
    produced.coin += t.fee as u128;
    for c in &t.certs {
        let (d, r) = cert_deposit_refund(c, p)?;
        produced.coin += d;
        consumed.coin += r;
    }
    for pr in &t.proposals {
        produced.coin += pr.as_array().and_then(|a| a.get(0)).and_then(|x| x.as_uint()).ok_or("proposal without deposit")? as u128;
    }
    produced.coin += t.donation.unwrap_or(0) as u128;
    for (pol, assets) in &t.mint {
        for (name, q) in assets {
            if *q >= 0 {
                *consumed.assets.entry((pol.clone(), name.clone())).or_insert(0) += *q;
            } else {
                *produced.assets.entry((pol.clone(), name.clone())).or_insert(0) += -*q;
            }
        }
    }
    Ok((consumed.normalized(), produced.normalized()))
}

#[derive(Clone, Debug)]
pub struct FeeParams {
    pub a: u64,
    pub b: u64,
    pub price_mem: (u64, u64),
    pub price_steps: (u64, u64),
    pub ref_price: (u64, u64),
}

/// Conway minimum fee for a transaction of `size` bytes.
pub fn min_fee(size: usize, redeemers: &[PRedeemer], total_ref_script_size: u64, p: &FeeParams) -> NB {
    let mut fee = NB::from(p.a) * NB::from(size as u64) + NB::from(p.b);
    let mem: u128 = redeemers.iter().map(|r| r.mem as u128).sum();
    let steps: u128 = redeemers.iter().map(|r| r.steps as u128).sum();
    if !redeemers.is_empty() {
        let n = NB::from(mem) * NB::from(p.price_mem.0) * NB::from(p.price_steps.1) + NB::from(steps) * NB::from(p.price_steps.0) * NB::from(p.price_mem.1);
        let d = NB::from(p.price_mem.1) * NB::from(p.price_steps.1);
        if !d.is_zero() {
            fee += n.div_ceil(&d);
        }
    }
    if total_ref_script_size > 0 {
        fee += crate::props::c15::ref_tier_fee(p.ref_price, total_ref_script_size);
    }
    fee
}

/// key hashes a certificate requires (witsVKeyNeeded), from the certificate node
pub fn cert_signers(c: &Node) -> Vec<Vec<u8>> {
    let a = match c.as_array() {
        Some(a) => a,
        None => return vec![],
    };
    let k = a.get(0).and_then(|x| x.as_uint()).unwrap_or(99);
    let cred_key = |i: usize| -> Vec<Vec<u8>> {
        a.get(i)
            .and_then(|x| x.as_array())
            .and_then(|c| if c.get(0).and_then(|x| x.as_uint()) == Some(0) { c.get(1).and_then(|h| h.as_bytes()).map(|b| vec![b.to_vec()]) } else { None })
            .unwrap_or_default()
    };
    match k {
        0 => vec![],
        1 | 2 | 7 | 8 | 9 | 10 | 11 | 12 | 13 | 14 | 15 | 16 | 17 | 18 => cred_key(1),
        3 => {
            let mut v = vec![];
            if let Some(op) = a.get(1).and_then(|x| x.as_bytes()) {
                v.push(op.to_vec());
            }
            if let Some(owners) = a.get(7).and_then(|x| x.set_items()) {
                for o in owners {
                    if let Some(b) = o.as_bytes() {
                        v.push(b.to_vec());
                    }
                }
            }
            v
        }
        4 => a.get(1).and_then(|x| x.as_bytes()).map(|b| vec![b.to_vec()]).unwrap_or_default(),
        5 => a.get(2).and_then(|x| x.as_bytes()).map(|b| vec![b.to_vec()]).unwrap_or_default(),
        _ => vec![],
    }
}

/// script credential a certificate is locked by (needs a script witness), if any
pub fn cert_script(c: &Node) -> Option<Vec<u8>> {
    let a = c.as_array()?;
    let k = a.get(0)?.as_uint()?;
    if matches!(k, 0 | 3 | 4 | 5 | 6) {
        return None;
    }
    let cred = a.get(1)?.as_array()?;
    if cred.get(0)?.as_uint()? == 1 {
        Some(cred.get(1)?.as_bytes()?.to_vec())
    } else {
        None
    }
}

/// every key hash named in a native script (CBOR bytes)
pub fn native_script_keys(script: &[u8]) -> Vec<Vec<u8>> {
    fn go(n: &Node, out: &mut Vec<Vec<u8>>) {
        if let Some(a) = n.as_array() {
            match a.get(0).and_then(|x| x.as_uint()) {
                Some(0) => {
                    if let Some(b) = a.get(1).and_then(|x| x.as_bytes()) {
                        out.push(b.to_vec());
                    }
                }
                Some(1) | Some(2) => {
                    if let Some(subs) = a.get(1).and_then(|x| x.as_array()) {
                        for s in subs {
                            go(s, out);
                        }
                    }
                }
                Some(3) => {
                    if let Some(subs) = a.get(2).and_then(|x| x.as_array()) {
                        for s in subs {
                            go(s, out);
                        }
                    }
                }
                _ => {}
            }
        }
    }
    let mut out = Vec::new();
    if let Ok(n) = refcbor::parse(script) {
        go(&n, &mut out);
    }
    out
}

/// Insert `n_keys` key witnesses and the given bootstrap witnesses into a built transaction;
/// returns the bytes of the signed transaction (everything else byte-identical).
pub fn signed_bytes(t: &PTx, n_keys: usize, bootstraps: &[Vec<u8>]) -> Vec<u8> {
    let mut wits: Vec<(Node, Vec<u8>)> = Vec::new();
    if n_keys > 0 {
        let mut items = Vec::new();
        for i in 0..n_keys {
            let mut vk = vec![0u8; 32];
            vk[0] = i as u8;
            vk[31] = 0xaa;
            items.push(Node::arr(vec![Node::bytes(&vk), Node::bytes(&vec![0x5c; 64])]));
        }
        wits.push((Node::uint(0), refcbor::emit(&Node::tag(258, Node::arr(items)))));
    }
    if !bootstraps.is_empty() {
        let mut items = Vec::new();
        for (i, attrs) in bootstraps.iter().enumerate() {
            let mut vk = vec![0u8; 32];
            vk[0] = 0x80 | i as u8;
            items.push(Node::arr(vec![Node::bytes(&vk), Node::bytes(&vec![0x5d; 64]), Node::bytes(&vec![0x5e; 32]), Node::bytes(attrs)]));
        }
        wits.push((Node::uint(2), refcbor::emit(&Node::tag(258, Node::arr(items)))));
    }
    for (k, (s, e)) in &t.wit_field_spans {
        if *k == 0 || *k == 2 {
            continue;
        }
        wits.push((Node::uint(*k), t.bytes[*s..*e].to_vec()));
    }
    let mut out = vec![0x84];
    out.extend_from_slice(&t.bytes[t.body_span.0..t.body_span.1]);
    // map header + entries
    let mut hdr = Vec::new();
    refcbor::emit_into(&Node::map(vec![]).with_width(0), &mut hdr);
    let n = wits.len() as u64;
    let mut w = Vec::new();
    // emit map head manually
    if n < 24 {
        w.push(0xa0 | n as u8);
    } else {
        w.push(0xb8);
        w.push(n as u8);
    }
    for (k, v) in &wits {
        w.extend_from_slice(&refcbor::emit(k));
        w.extend_from_slice(v);
    }
    out.extend_from_slice(&w);
    // is_valid and aux as in the original
    out.extend_from_slice(&t.bytes[t.wits_span.1..]);
    out
}

/// order of reward accounts / credentials per the ledger: script before key, then hash
pub fn reward_account_key(ra: &[u8]) -> (u8, u8, Vec<u8>) {
    // network (testnet 0 < mainnet 1), script(0) before key(1), hash
    let net = ra[0] & 0x0f;
    let is_script = ra[0] & 0x10 != 0;
    (net, if is_script { 0 } else { 1 }, ra[1..].to_vec())
}
/// voter sort key: CC (kinds 0,1) < DRep (2,3) < SPO (4); inside, script before key, then hash
pub fn voter_key(kind: u64, hash: &[u8]) -> (u8, u8, Vec<u8>) {
    match kind {
        0 => (0, 1, hash.to_vec()),
        1 => (0, 0, hash.to_vec()),
        2 => (1, 1, hash.to_vec()),
        3 => (1, 0, hash.to_vec()),
        _ => (2, 0, hash.to_vec()),
    }
}

/// language views for the script-integrity hash (notes §6)
pub fn language_views(langs: &BTreeSet<u8>, cost: &dyn Fn(u8) -> Option<Vec<i128>>) -> Option<Vec<u8>> {
    let mut entries: Vec<(Vec<u8>, Vec<u8>)> = Vec::new();
    for l in langs {
        let model = cost(*l)?;
        match l {
            1 => {
                // key: bytes(CBOR 0), value: bytes(indefinite list)
                let key = refcbor::emit(&Node::bytes(&[0x00]));
                let mut inner = vec![0x9f];
                for x in &model {
                    inner.extend_from_slice(&refcbor::emit(&Node::int(*x)));
                }
                inner.push(0xff);
                entries.push((key, refcbor::emit(&Node::bytes(&inner))));
            }
            _ => {
                let key = refcbor::emit(&Node::uint((*l - 1) as u64));
                let list = Node::arr(model.iter().map(|x| Node::int(*x)).collect());
                entries.push((key, refcbor::emit(&list)));
            }
        }
    }
    entries.sort_by(|a, b| (a.0.len(), &a.0).cmp(&(b.0.len(), &b.0)));
    let mut out = Vec::new();
    let n = entries.len();
    out.push(0xa0 | n as u8);
    for (k, v) in entries {
        out.extend_from_slice(&k);
        out.extend_from_slice(&v);
    }
    Some(out)
}

pub fn fits_u64(x: &NB) -> Option<u64> {
    x.to_u64()
}
