//! Exploration engines.
//!
//! E1: choice-tree explorer. A scenario is `Fn(&mut Ctx)`; every undetermined thing is a
//!     `ctx.choose(n)`. The engine enumerates the tree depth-first by re-execution, optionally
//!     bounded by the number of deviations (non-zero, non-free choices), sharded over threads.
//! E2: explicit-state breadth-first search over operation histories. The scenario reads its
//!     history through `ctx.next_op(n)`, reports a canonical state key through `ctx.state_key`,
//!     and whatever it chooses afterwards is an inner E1 tree explored in every new state.
//!
//! Everything is deterministic: exploration order is lexicographic, thread scheduling only
//! decides which worker runs which shard; totals are sums / set unions.

use std::cell::RefCell;
use std::collections::{BTreeMap, HashMap, HashSet};
use std::hash::{Hash, Hasher};
use std::panic::{catch_unwind, resume_unwind, AssertUnwindSafe};
use std::sync::atomic::{AtomicBool, AtomicU64, AtomicUsize, Ordering};
use std::sync::{Mutex, OnceLock};
use std::time::{Duration, Instant};

/// Payload used for failures of the machinery itself (never a verdict).
pub struct Machinery(pub String);

pub fn machinery(msg: impl Into<String>) -> ! {
    std::panic::panic_any(Machinery(msg.into()))
}

#[derive(Clone, Debug)]
pub struct PanicRec {
    pub file: String,
    pub line: u32,
    pub msg: String,
}

thread_local! {
    static LAST_PANIC: RefCell<Option<PanicRec>> = RefCell::new(None);
}

pub fn install_panic_hook() {
    std::panic::set_hook(Box::new(|info| {
        let (file, line) = info
            .location()
            .map(|l| (l.file().to_string(), l.line()))
            .unwrap_or(("?".into(), 0));
        let msg = if let Some(s) = info.payload().downcast_ref::<&str>() {
            s.to_string()
        } else if let Some(s) = info.payload().downcast_ref::<String>() {
            s.clone()
        } else if let Some(m) = info.payload().downcast_ref::<Machinery>() {
            format!("MACHINERY: {}", m.0)
        } else {
            "<non-string panic payload>".to_string()
        };
        LAST_PANIC.with(|p| *p.borrow_mut() = Some(PanicRec { file, line, msg }));
    }));
}

/// Run library code; a panic becomes `Err(PanicRec)`. Machinery failures propagate.
pub fn guard<T>(f: impl FnOnce() -> T) -> Result<T, PanicRec> {
    match catch_unwind(AssertUnwindSafe(f)) {
        Ok(v) => Ok(v),
        Err(payload) => {
            if payload.is::<Machinery>() {
                resume_unwind(payload);
            }
            let rec = LAST_PANIC.with(|p| p.borrow_mut().take()).unwrap_or(PanicRec {
                file: "?".into(),
                line: 0,
                msg: "?".into(),
            });
            Err(rec)
        }
    }
}

/// `src/protocol_types/address.rs` from an absolute or relative panic location.
pub fn short_file(f: &str) -> String {
    if let Some(i) = f.find("/registry/src/") {
        // dependency from the cargo registry: <crate-version>/src/file.rs
        let rest = &f[i + "/registry/src/".len()..];
        if let Some(j) = rest.find('/') {
            return rest[j + 1..].to_string();
        }
    }
    if let Some(i) = f.find("/library/") {
        return f[i + 1..].to_string();
    }
    if let Some(i) = f.rfind("/src/") {
        // keep crate dir name for dependencies
        let head = &f[..i];
        let krate = head.rsplit('/').next().unwrap_or("");
        if krate == "rust" {
            f[i + 1..].to_string()
        } else {
            format!("{}{}", krate, &f[i..])
        }
    } else {
        f.to_string()
    }
}

/// Normalise a panic message for use in a signature: digits collapsed so that lengths /
/// indices do not create new signatures for the same defect.
pub fn norm_msg(m: &str) -> String {
    let mut out = String::new();
    let mut in_digits = false;
    for ch in m.chars().take(120) {
        if ch.is_ascii_digit() {
            if !in_digits {
                out.push('N');
            }
            in_digits = true;
        } else {
            in_digits = false;
            out.push(if ch == '\n' { ' ' } else { ch });
        }
    }
    out
}

pub fn panic_sig(prop: &str, site: &str, p: &PanicRec) -> String {
    format!("{}/panic@{}/\"{}\"/{}", prop, short_file(&p.file), norm_msg(&p.msg), site)
}

#[derive(Clone, Copy, PartialEq, Eq, Debug)]
pub enum Mode {
    Full,
    KeyOnly,
}

#[derive(Clone, Debug)]
pub struct Violation {
    pub signature: String,
    pub detail: String,
}

pub struct Ctx {
    prefix: Vec<u32>,
    pos: usize,
    /// (choice, arity, free)
    pub trace: Vec<(u32, u32, bool)>,
    pub mode: Mode,
    pub violations: Vec<Violation>,
    pub hits: Vec<&'static str>,
    outcome: std::collections::hash_map::DefaultHasher,
    pub key: Option<u128>,
    pub pruned: bool,
    pub compared: u64,
    pub sample: Option<String>,
    pub want_sample: bool,
    pub seed: u64,
}

impl Ctx {
    pub fn new(prefix: Vec<u32>, mode: Mode, seed: u64) -> Ctx {
        Ctx {
            prefix,
            pos: 0,
            trace: Vec::with_capacity(32),
            mode,
            violations: Vec::new(),
            hits: Vec::new(),
            outcome: std::collections::hash_map::DefaultHasher::new(),
            key: None,
            pruned: false,
            compared: 0,
            sample: None,
            want_sample: false,
            seed,
        }
    }

    fn choose_impl(&mut self, n: usize, free: bool) -> usize {
        if n == 0 {
            machinery("choose(0)");
        }
        let c = if self.pos < self.prefix.len() {
            let c = self.prefix[self.pos];
            if c as usize >= n {
                machinery(format!(
                    "replay divergence at choice point {}: recorded choice {} but arity is {}",
                    self.pos, c, n
                ));
            }
            c
        } else {
            0
        };
        self.pos += 1;
        self.trace.push((c, n as u32, free));
        c as usize
    }

    /// A choice point; alternative 0 is the default, any other alternative is one deviation.
    pub fn choose(&mut self, n: usize) -> usize {
        self.choose_impl(n, false)
    }

    /// A choice point that does not count against the deviation bound (full product).
    pub fn choose_free(&mut self, n: usize) -> usize {
        self.choose_impl(n, true)
    }

    pub fn flag(&mut self) -> bool {
        self.choose(2) == 1
    }

    pub fn pick<'a, T>(&mut self, xs: &'a [T]) -> &'a T {
        &xs[self.choose(xs.len())]
    }

    pub fn pick_free<'a, T>(&mut self, xs: &'a [T]) -> &'a T {
        &xs[self.choose_free(xs.len())]
    }

    /// Next operation of the history (E2): `None` = end of history.
    pub fn next_op(&mut self, n_ops: usize) -> Option<usize> {
        let c = self.choose_impl(n_ops + 1, true);
        if c == 0 {
            None
        } else {
            Some(c - 1)
        }
    }

    /// Report the canonical state key. Returns true if the scenario must stop here (key pass).
    pub fn state_key(&mut self, key: u128) -> bool {
        self.key = Some(key);
        self.mode == Mode::KeyOnly
    }

    pub fn prune(&mut self) {
        self.pruned = true;
    }

    pub fn violation(&mut self, signature: impl Into<String>, detail: impl Into<String>) {
        self.violations.push(Violation {
            signature: signature.into(),
            detail: detail.into(),
        });
    }

    pub fn hit(&mut self, tag: &'static str) {
        self.hits.push(tag);
    }

    pub fn observe<H: Hash + ?Sized>(&mut self, h: &H) {
        h.hash(&mut self.outcome);
    }

    pub fn compared(&mut self) {
        self.compared += 1;
    }

    pub fn set_sample(&mut self, f: impl FnOnce() -> String) {
        if self.want_sample && self.sample.is_none() {
            self.sample = Some(f());
        }
    }

    pub fn choices(&self) -> Vec<u32> {
        self.trace.iter().map(|t| t.0).collect()
    }

    fn outcome_digest(&self) -> u64 {
        self.outcome.finish()
    }
}

#[derive(Clone, Debug)]
pub struct VRec {
    pub count: u64,
    pub scenario: String,
    pub choices: Vec<u32>,
    pub arities: Vec<u32>,
    pub detail: String,
}

#[derive(Default)]
pub struct Stats {
    pub executions: u64,
    pub transitions: u64,
    pub max_depth: usize,
    pub outcomes: HashSet<u64>,
    pub hits: BTreeMap<&'static str, u64>,
    pub viols: BTreeMap<String, VRec>,
    pub compared: u64,
    pub samples: Vec<String>,
    pub cap_hit: bool,
    pub states: u64,
    pub state_transitions: u64,
    pub bfs_levels: Vec<u64>,
    pub notes: Vec<String>,
}

impl Stats {
    pub fn merge(&mut self, o: Stats) {
        self.executions += o.executions;
        self.transitions += o.transitions;
        self.max_depth = self.max_depth.max(o.max_depth);
        self.outcomes.extend(o.outcomes);
        for (k, v) in o.hits {
            *self.hits.entry(k).or_insert(0) += v;
        }
        for (k, v) in o.viols {
            match self.viols.get_mut(&k) {
                Some(e) => {
                    e.count += v.count;
                    // keep the shortest / lexicographically first witness for determinism
                    if (v.choices.len(), &v.choices) < (e.choices.len(), &e.choices) {
                        e.choices = v.choices;
                        e.arities = v.arities;
                        e.detail = v.detail;
                        e.scenario = v.scenario;
                    }
                }
                None => {
                    self.viols.insert(k, v);
                }
            }
        }
        self.compared += o.compared;
        for s in o.samples {
            if self.samples.len() < 6 {
                self.samples.push(s);
            }
        }
        self.cap_hit |= o.cap_hit;
        self.states += o.states;
        self.state_transitions += o.state_transitions;
        if !o.bfs_levels.is_empty() {
            self.bfs_levels = o.bfs_levels;
        }
        self.notes.extend(o.notes);
    }

    fn absorb(&mut self, scenario: &str, ctx: Ctx) {
        self.executions += 1;
        self.transitions += ctx.trace.len() as u64;
        self.max_depth = self.max_depth.max(ctx.trace.len());
        self.outcomes.insert(ctx.outcome_digest());
        self.compared += ctx.compared;
        for h in &ctx.hits {
            *self.hits.entry(h).or_insert(0) += 1;
        }
        if let Some(s) = &ctx.sample {
            if self.samples.len() < 6 {
                self.samples.push(s.clone());
            }
        }
        if !ctx.violations.is_empty() {
            let choices: Vec<u32> = ctx.trace.iter().map(|t| t.0).collect();
            let arities: Vec<u32> = ctx.trace.iter().map(|t| t.1).collect();
            for v in ctx.violations {
                match self.viols.get_mut(&v.signature) {
                    Some(e) => {
                        e.count += 1;
                        if (choices.len(), &choices) < (e.choices.len(), &e.choices) {
                            e.choices = choices.clone();
                            e.arities = arities.clone();
                            e.detail = v.detail;
                        }
                    }
                    None => {
                        self.viols.insert(
                            v.signature,
                            VRec {
                                count: 1,
                                scenario: scenario.to_string(),
                                choices: choices.clone(),
                                arities: arities.clone(),
                                detail: v.detail,
                            },
                        );
                    }
                }
            }
        }
    }
}

#[derive(Clone)]
pub struct Opts {
    pub bound: Option<u32>,
    pub threads: usize,
    pub max_exec: Option<u64>,
    pub wall_cap: Duration,
    pub seed: u64,
}

impl Opts {
    pub fn new(seed: u64) -> Opts {
        let threads = std::env::var("VERIF_THREADS")
            .ok()
            .and_then(|s| s.parse().ok())
            .unwrap_or_else(|| std::thread::available_parallelism().map(|n| n.get()).unwrap_or(8));
        Opts {
            bound: None,
            threads,
            max_exec: std::env::var("VERIF_MAX_EXEC").ok().and_then(|s| s.parse().ok()),
            wall_cap: Duration::from_secs(3600),
            seed,
        }
    }
    pub fn bound(mut self, b: u32) -> Opts {
        self.bound = Some(b);
        self
    }
    pub fn cap(mut self, n: u64) -> Opts {
        self.max_exec = Some(n);
        self
    }
    pub fn wall(mut self, s: u64) -> Opts {
        self.wall_cap = Duration::from_secs(s);
        self
    }
}

pub type Scenario<'a> = &'a (dyn Fn(&mut Ctx) + Sync);

fn cost(trace: &[(u32, u32, bool)]) -> u32 {
    trace.iter().filter(|t| t.0 != 0 && !t.2).count() as u32
}

/// Lexicographic successor of a completed execution, not touching the first `frozen` choices.
fn next_prefix(trace: &[(u32, u32, bool)], frozen: usize, bound: Option<u32>) -> Option<Vec<u32>> {
    let mut i = trace.len();
    while i > frozen {
        i -= 1;
        let (c, a, free) = trace[i];
        if c + 1 < a {
            let cst = cost(&trace[..i]) + if free { 0 } else { 1 };
            if bound.map_or(true, |b| cst <= b) {
                let mut p: Vec<u32> = trace[..i].iter().map(|t| t.0).collect();
                p.push(c + 1);
                return Some(p);
            }
        }
    }
    None
}

static CURRENT_PROPERTY: Mutex<String> = Mutex::new(String::new());
pub fn set_current_property(p: &str) {
    *CURRENT_PROPERTY.lock().unwrap() = p.to_string();
}
thread_local! {
    static PROP_CACHE: RefCell<String> = RefCell::new(String::new());
}
/// whole executions are watched too: 300 s is far beyond the slowest legitimate one (a few seconds)
pub const EXECUTION_LIMIT_MS: u64 = 300_000;

pub fn run_once(f: Scenario, prefix: Vec<u32>, mode: Mode, seed: u64, want_sample: bool) -> Ctx {
    let _exec_watch = {
        let prop = PROP_CACHE.with(|c| {
            if c.borrow().is_empty() {
                *c.borrow_mut() = CURRENT_PROPERTY.lock().map(|g| g.clone()).unwrap_or_default();
            }
            c.borrow().clone()
        });
        let bytes: Vec<u8> = prefix.iter().flat_map(|x| x.to_be_bytes()).collect();
        watch_begin_limit(if prop.is_empty() { "unknown" } else { &prop }, "execution(choice prefix as big-endian u32s)", &bytes, EXECUTION_LIMIT_MS, 1)
    };
    let mut ctx = Ctx::new(prefix, mode, seed);
    ctx.want_sample = want_sample;
    // A panic inside an execution that is not a machinery exit is an assumption of the harness about
    // the library that did not hold (an `expect` on a constructor of the alphabet, an index into a
    // result it took for well-formed) or a library panic outside a guarded call. On the unchanged tree
    // there is none; under a changed library it is what the change did, so it is reported as a
    // violation of the property being checked, with the choices as replay, not as a machinery failure.
    let r = catch_unwind(AssertUnwindSafe(|| f(&mut ctx)));
    if let Err(p) = r {
        if p.downcast_ref::<Machinery>().is_some() {
            std::panic::resume_unwind(p);
        }
        let msg = if let Some(s) = p.downcast_ref::<&str>() {
            s.to_string()
        } else if let Some(s) = p.downcast_ref::<String>() {
            s.clone()
        } else {
            "panic".to_string()
        };
        let loc = LAST_PANIC.with(|p| p.borrow().clone());
        let file = loc.as_ref().map(|l| l.file.clone()).unwrap_or_default();
        let prop = PROP_CACHE.with(|c| c.borrow().clone());
        crate::builder::reset_hooks_after_panic();
        ctx.pruned = true;
        ctx.violation(format!("{}/harness-assumption-about-the-library-broken@{}/{}", if prop.is_empty() { "C??" } else { &prop }, file, norm_msg(&msg)), format!("{} at {:?}", msg, loc));
    }
    if ctx.pos < ctx.prefix.len() && !ctx.pruned {
        machinery(format!(
            "replay divergence: execution consumed {} choices but {} were recorded",
            ctx.pos,
            ctx.prefix.len()
        ));
    }
    ctx
}

struct Shared {
    execs: AtomicU64,
    stop: AtomicBool,
    start: Instant,
}

fn dfs_under(
    name: &str,
    f: Scenario,
    prefix: Vec<u32>,
    opts: &Opts,
    shared: &Shared,
    stats: &mut Stats,
) {
    let frozen = prefix.len();
    let mut next = Some(prefix);
    while let Some(p) = next {
        if shared.stop.load(Ordering::Relaxed) {
            stats.cap_hit = true;
            return;
        }
        let n = shared.execs.fetch_add(1, Ordering::Relaxed);
        if let Some(m) = opts.max_exec {
            if n >= m {
                shared.stop.store(true, Ordering::Relaxed);
                stats.cap_hit = true;
                return;
            }
        }
        if n % 4096 == 0 && shared.start.elapsed() > opts.wall_cap {
            shared.stop.store(true, Ordering::Relaxed);
            stats.cap_hit = true;
            return;
        }
        let want_sample = stats.samples.len() < 2 && (stats.executions % 97 == 0);
        let ctx = run_once(f, p, Mode::Full, opts.seed, want_sample);
        next = next_prefix(&ctx.trace, frozen, opts.bound);
        stats.absorb(name, ctx);
    }
}

fn run_workers<T: Send>(
    threads: usize,
    n_items: usize,
    work: &(dyn Fn(usize, &mut T) + Sync),
    mk: &(dyn Fn() -> T + Sync),
) -> Vec<T> {
    let idx = AtomicUsize::new(0);
    let failed: Mutex<Option<String>> = Mutex::new(None);
    let mut results = Vec::new();
    std::thread::scope(|s| {
        let mut hs = Vec::new();
        for _ in 0..threads.max(1).min(n_items.max(1)) {
            hs.push(
                std::thread::Builder::new()
                    .stack_size(256 << 20)
                    .spawn_scoped(s, || {
                        let mut local = mk();
                        let r = catch_unwind(AssertUnwindSafe(|| loop {
                            let i = idx.fetch_add(1, Ordering::Relaxed);
                            if i >= n_items {
                                break;
                            }
                            work(i, &mut local);
                        }));
                        if let Err(p) = r {
                            let msg = if let Some(m) = p.downcast_ref::<Machinery>() {
                                m.0.clone()
                            } else if let Some(s) = p.downcast_ref::<&str>() {
                                format!("harness panic: {}", s)
                            } else if let Some(s) = p.downcast_ref::<String>() {
                                format!("harness panic: {}", s)
                            } else {
                                "harness panic".to_string()
                            };
                            let loc = LAST_PANIC.with(|p| p.borrow().clone());
                            *failed.lock().unwrap() = Some(format!("{} at {:?}", msg, loc));
                            idx.store(usize::MAX / 2, Ordering::Relaxed);
                        }
                        local
                    })
                    .unwrap(),
            );
        }
        for h in hs {
            results.push(h.join().unwrap());
        }
    });
    if let Some(m) = failed.lock().unwrap().take() {
        eprintln!("MACHINERY FAILURE: {}", m);
        std::process::exit(2);
    }
    results
}

/// Generic deterministic parallel for over `n` items (each worker gets its own accumulator).
pub fn par_for<T: Send>(
    threads: usize,
    n: usize,
    mk: &(dyn Fn() -> T + Sync),
    work: &(dyn Fn(usize, &mut T) + Sync),
) -> Vec<T> {
    run_workers(threads, n, work, mk)
}

/// E1: explore the whole choice tree of `f` (within `opts.bound` deviations).
pub fn explore(name: &str, f: Scenario, opts: &Opts) -> Stats {
    explore_under(name, f, vec![], opts)
}

pub fn explore_under(name: &str, f: Scenario, root: Vec<u32>, opts: &Opts) -> Stats {
    // shard: expand prefixes breadth-first until there are enough work items
    // level-synchronous: a whole level is split while there are too few items for a balanced
    // schedule; a cap keeps the item list small when one level is very wide.
    let want = opts.threads * 24;
    const ITEM_CAP: usize = 400_000;
    let mut items: Vec<Vec<u32>> = vec![root.clone()];
    let mut leaves: Vec<Vec<u32>> = Vec::new();
    let mut levels = 0;
    while !items.is_empty() && items.len() + leaves.len() < want && levels < 12 {
        levels += 1;
        let mut next_items: Vec<Vec<u32>> = Vec::new();
        let mut full = false;
        // the probing runs of one level are independent: do them on all workers (a scenario may be
        // expensive), then expand in item order so that the schedule stays deterministic
        let probes = par_for(opts.threads, items.len(), &Vec::new, &|i, acc: &mut Vec<(usize, Option<(u32, bool, u32)>)>| {
            let p = &items[i];
            let ctx = run_once(f, p.clone(), Mode::Full, opts.seed, false);
            let info = if ctx.trace.len() == p.len() {
                None
            } else {
                let (_, a, free) = ctx.trace[p.len()];
                Some((a, free, cost(&ctx.trace[..p.len()])))
            };
            acc.push((i, info));
        });
        let mut info_of: Vec<Option<(u32, bool, u32)>> = vec![None; items.len()];
        for part in probes {
            for (i, info) in part {
                info_of[i] = info;
            }
        }
        for (idx, p) in items.into_iter().enumerate() {
            if full {
                next_items.push(p);
                continue;
            }
            let (a, free, base_cost) = match info_of[idx] {
                None => {
                    leaves.push(p);
                    continue;
                }
                Some(x) => x,
            };
            for k in 0..a {
                let c = base_cost + if k != 0 && !free { 1 } else { 0 };
                if opts.bound.map_or(true, |b| c <= b) {
                    let mut q = p.clone();
                    q.push(k);
                    next_items.push(q);
                }
            }
            if next_items.len() + leaves.len() > ITEM_CAP {
                full = true;
            }
        }
        items = next_items;
        if full {
            break;
        }
    }
    let mut work_items: Vec<Vec<u32>> = leaves;
    work_items.extend(items.into_iter());
    // big (short-prefix) items first so that stragglers are small
    work_items.sort_by(|a, b| (a.len(), a).cmp(&(b.len(), b)));
    let shared = Shared {
        execs: AtomicU64::new(0),
        stop: AtomicBool::new(false),
        start: Instant::now(),
    };
    let parts = run_workers(
        opts.threads,
        work_items.len(),
        &|i, st: &mut Stats| {
            dfs_under(name, f, work_items[i].clone(), opts, &shared, st);
        },
        &Stats::default,
    );
    let mut total = Stats::default();
    for p in parts {
        total.merge(p);
    }
    total
}

pub fn encode_history(h: &[u32]) -> Vec<u32> {
    let mut p: Vec<u32> = h.iter().map(|o| o + 1).collect();
    p.push(0);
    p
}

/// E2: level-synchronous BFS over operation histories with canonical-state deduplication.
/// In every new state the inner choice tree of the scenario is explored completely.
pub fn bfs(name: &str, f: Scenario, n_ops: usize, max_depth: usize, opts: &Opts) -> Stats {
    let mut total = Stats::default();
    let mut visited: HashSet<u128> = HashSet::new();
    let mut frontier: Vec<Vec<u32>> = vec![];
    let shared = Shared {
        execs: AtomicU64::new(0),
        stop: AtomicBool::new(false),
        start: Instant::now(),
    };
    // level 0: the empty history
    {
        let ctx = run_once(f, encode_history(&[]), Mode::KeyOnly, opts.seed, false);
        if let Some(k) = ctx.key {
            visited.insert(k);
        }
        let mut st = Stats::default();
        dfs_under(name, f, encode_history(&[]), opts, &shared, &mut st);
        total.merge(st);
        frontier.push(vec![]);
        total.bfs_levels.push(1);
    }
    for _depth in 1..=max_depth {
        if shared.stop.load(Ordering::Relaxed) {
            total.cap_hit = true;
            break;
        }
        // candidates in lexicographic order
        let mut cands: Vec<Vec<u32>> = Vec::with_capacity(frontier.len() * n_ops);
        for h in &frontier {
            for op in 0..n_ops as u32 {
                let mut q = h.clone();
                q.push(op);
                cands.push(q);
            }
        }
        // phase A: keys
        let keyparts = run_workers(
            opts.threads,
            cands.len(),
            &|i, out: &mut Vec<(usize, Option<u128>)>| {
                let ctx = run_once(f, encode_history(&cands[i]), Mode::KeyOnly, opts.seed, false);
                let k = if ctx.pruned { None } else { ctx.key };
                if !ctx.pruned && ctx.key.is_none() {
                    machinery("scenario neither pruned nor reported a state key");
                }
                out.push((i, k));
            },
            &Vec::new,
        );
        let mut keys: Vec<Option<u128>> = vec![None; cands.len()];
        for part in keyparts {
            for (i, k) in part {
                keys[i] = k;
            }
        }
        let mut new_states: Vec<Vec<u32>> = Vec::new();
        let mut trans = 0u64;
        for (i, k) in keys.iter().enumerate() {
            if let Some(k) = k {
                trans += 1;
                if visited.insert(*k) {
                    new_states.push(cands[i].clone());
                }
            }
        }
        total.state_transitions += trans;
        // phase B: full evaluation of every new state
        let parts = run_workers(
            opts.threads,
            new_states.len(),
            &|i, st: &mut Stats| {
                dfs_under(name, f, encode_history(&new_states[i]), opts, &shared, st);
            },
            &Stats::default,
        );
        for p in parts {
            total.merge(p);
        }
        total.bfs_levels.push(new_states.len() as u64);
        if new_states.is_empty() {
            break;
        }
        frontier = new_states;
    }
    total.states = visited.len() as u64;
    total
}

pub fn hash64<H: Hash + ?Sized>(h: &H) -> u64 {
    let mut s = std::collections::hash_map::DefaultHasher::new();
    h.hash(&mut s);
    s.finish()
}

pub fn key128(bytes: &[u8]) -> u128 {
    use cryptoxide::blake2b::Blake2b;
    use cryptoxide::digest::Digest;
    let mut h = Blake2b::new(16);
    h.input(bytes);
    let mut out = [0u8; 16];
    h.result(&mut out);
    u128::from_le_bytes(out)
}

/// Keep results keyed for optional differential oracles across executions.
pub type SharedMap<K, V> = Mutex<HashMap<K, V>>;

// ---------------------------------------------------------------------------------------------
// Non-termination watchdog: a call that does not return cannot be judged by the code after it.
// A worker announces a call (site + input) in its slot before making it; a watchdog thread looks
// at the slots and, when one call has been running for longer than the limit, writes a replay
// file, prints the VIOLATION line and ends the process with exit code 1.

pub struct WatchSlot {
    started_ms: AtomicU64,
    limit_ms: AtomicU64,
    info: Mutex<(String, String, Vec<u8>)>,
}
static WATCH_SLOTS: OnceLock<Vec<WatchSlot>> = OnceLock::new();
static WATCH_NEXT: AtomicUsize = AtomicUsize::new(0);
static WATCH_EPOCH: OnceLock<Instant> = OnceLock::new();
thread_local! {
    static WATCH_MY_SLOT: std::cell::Cell<usize> = std::cell::Cell::new(usize::MAX);
}
pub const WATCH_LIMIT_MS: u64 = 20_000;

fn watch_slots() -> &'static Vec<WatchSlot> {
    WATCH_SLOTS.get_or_init(|| {
        WATCH_EPOCH.get_or_init(Instant::now);
        let v: Vec<WatchSlot> = (0..256).map(|_| WatchSlot { started_ms: AtomicU64::new(0), limit_ms: AtomicU64::new(WATCH_LIMIT_MS), info: Mutex::new((String::new(), String::new(), Vec::new())) }).collect();
        std::thread::Builder::new()
            .name("watchdog".into())
            .spawn(|| loop {
                std::thread::sleep(std::time::Duration::from_millis(250));
                let now = WATCH_EPOCH.get().unwrap().elapsed().as_millis() as u64;
                if let Some(slots) = WATCH_SLOTS.get() {
                    for s in slots.iter() {
                        let st = s.started_ms.load(Ordering::Relaxed);
                        let limit = s.limit_ms.load(Ordering::Relaxed);
                        if st != 0 && now.saturating_sub(st) > limit {
                            let (prop, site, input) = s.info.lock().map(|g| g.clone()).unwrap_or_default();
                            let sig = format!("{}/does-not-return-within-{}s/{}", prop, limit / 1000, site);
                            let vdir = crate::report::verif_dir();
                            let path = format!("{}/replays/{}-{:016x}.json", vdir, prop, hash64(sig.as_str()));
                            let _ = std::fs::create_dir_all(format!("{}/replays", vdir));
                            let doc = serde_json::json!({"property": prop, "signature": sig, "site": site, "input_hex": hex::encode(&input), "note": "the call was still running when the watchdog looked; replay by feeding input_hex to the named entry point"});
                            let _ = std::fs::write(&path, serde_json::to_string_pretty(&doc).unwrap());
                            println!("VIOLATION property={} replay={}", prop, path);
                            eprintln!("  signature: {}", sig);
                            eprintln!("  detail: {} had not returned after {} s on a {}-byte input {}", site, limit / 1000, input.len(), hex::encode(&input[..input.len().min(120)]));
                            std::process::exit(1);
                        }
                    }
                }
            })
            .expect("watchdog thread");
        v
    })
}

pub struct WatchGuard(usize);
impl Drop for WatchGuard {
    fn drop(&mut self) {
        watch_slots()[self.0].started_ms.store(0, Ordering::Relaxed);
    }
}

/// Announce a call that must return; the guard clears the announcement when dropped.
pub fn watch_begin(prop: &str, site: &str, input: &[u8]) -> WatchGuard {
    watch_begin_limit(prop, site, input, WATCH_LIMIT_MS, 0)
}

/// `lane` 0: calls into the library; lane 1: whole executions of a scenario (a worker may have one
/// of each open at the same time)
pub fn watch_begin_limit(prop: &str, site: &str, input: &[u8], limit_ms: u64, lane: usize) -> WatchGuard {
    let slots = watch_slots();
    let base = WATCH_MY_SLOT.with(|c| {
        if c.get() == usize::MAX {
            c.set((WATCH_NEXT.fetch_add(2, Ordering::Relaxed)) % (slots.len() - 1));
        }
        c.get()
    });
    let i = (base + lane) % slots.len();
    slots[i].limit_ms.store(limit_ms, Ordering::Relaxed);
    if let Ok(mut g) = slots[i].info.lock() {
        if g.0 != prop {
            g.0 = prop.to_string();
        }
        if g.1 != site {
            g.1 = site.to_string();
        }
        g.2.clear();
        g.2.extend_from_slice(input);
    }
    let now = WATCH_EPOCH.get().unwrap().elapsed().as_millis() as u64;
    slots[i].started_ms.store(now.max(1), Ordering::Relaxed);
    WatchGuard(i)
}
