//! Finite domains shared by the checks (DESIGN §2).

/// CBOR head-width class boundaries.
pub const W: [u64; 12] = [
    0,
    23,
    24,
    255,
    256,
    65535,
    65536,
    0xffff_ffff,
    0x1_0000_0000,
    0x7fff_ffff_ffff_ffff,
    0x8000_0000_0000_0000,
    0xffff_ffff_ffff_ffff,
];

/// W plus the ±1 neighbours (deduplicated, sorted).
pub fn w_ext() -> Vec<u64> {
    let mut v: Vec<u64> = Vec::new();
    for &w in W.iter() {
        v.push(w);
        if w > 0 {
            v.push(w - 1);
        }
        if w < u64::MAX {
            v.push(w + 1);
        }
    }
    v.sort();
    v.dedup();
    v
}
