//! Fixtures: the finite alphabets of hashes, credentials, addresses, certificates, scripts...
//! (DESIGN §2). Hashes are chosen so that lexicographic order != insertion order.

use crate::util::*;
use cardano_serialization_lib as csl;
use csl::*;

pub const KEY_FILL: [u8; 4] = [0xc1, 0x0a, 0xfe, 0x55];
pub const SCRIPT_FILL: [u8; 3] = [0xb7, 0x03, 0x9d];

pub fn kh_bytes(i: usize) -> Vec<u8> {
    vec![KEY_FILL[i % 4]; 28]
}
pub fn kh(i: usize) -> Ed25519KeyHash {
    Ed25519KeyHash::from_bytes(kh_bytes(i)).unwrap()
}
pub fn sh_bytes(i: usize) -> Vec<u8> {
    vec![SCRIPT_FILL[i % 3]; 28]
}
pub fn sh(i: usize) -> ScriptHash {
    ScriptHash::from_bytes(sh_bytes(i)).unwrap()
}
pub fn cred_key(i: usize) -> Credential {
    Credential::from_keyhash(&kh(i))
}
pub fn cred_script(i: usize) -> Credential {
    Credential::from_scripthash(&sh(i))
}
pub fn hash32(fill: u8) -> Vec<u8> {
    vec![fill; 32]
}
pub fn txhash(fill: u8) -> TransactionHash {
    TransactionHash::from_bytes(hash32(fill)).unwrap()
}

/// Adversarial outpoints: lexicographic order != listing order != numeric order of the index.
pub const OUTPOINTS: [(u8, u32); 6] = [(0xff, 0), (0x00, 1), (0x00, 0), (0x7f, 65535), (0x80, 256), (0x00, 24)];
pub fn outpoint(i: usize) -> TransactionInput {
    let (f, ix) = OUTPOINTS[i % OUTPOINTS.len()];
    TransactionInput::new(&txhash(f), ix)
}
pub fn outpoint_key(i: usize) -> (Vec<u8>, u32) {
    let (f, ix) = OUTPOINTS[i % OUTPOINTS.len()];
    (hash32(f), ix)
}

pub fn reward_key(i: usize) -> RewardAddress {
    RewardAddress::new(1, &cred_key(i))
}
pub fn reward_script(i: usize) -> RewardAddress {
    RewardAddress::new(1, &cred_script(i))
}
pub fn base_addr(pay: usize, stake: usize) -> Address {
    BaseAddress::new(1, &cred_key(pay), &cred_key(stake)).to_address()
}
pub fn enterprise_addr(pay: usize) -> Address {
    EnterpriseAddress::new(1, &cred_key(pay)).to_address()
}
pub fn script_enterprise_addr(s: usize) -> Address {
    EnterpriseAddress::new(1, &cred_script(s)).to_address()
}
pub fn pointer_addr(pay: usize) -> Address {
    PointerAddress::new(1, &cred_key(pay), &Pointer::new_pointer(&bn(2498243), &bn(27), &bn(3))).to_address()
}

pub fn bip32_pub(i: u8) -> Bip32PublicKey {
    let mut b = vec![0u8; 64];
    // a valid ed25519 point is not required for address construction; use derived real keys
    let entropy = vec![i.wrapping_mul(37).wrapping_add(11); 32];
    let root = Bip32PrivateKey::from_bip39_entropy(&entropy, &[]);
    let _ = &mut b;
    root.derive(0x8000_0000 + 1852).derive(0x8000_0000 + 1815).derive(0x8000_0000).to_public()
}
pub fn byron_addr(i: u8) -> ByronAddress {
    ByronAddress::icarus_from_key(&bip32_pub(i), NetworkInfo::mainnet().protocol_magic())
}

pub fn anchor() -> Anchor {
    Anchor::new(&URL::new("https://x.io/a".to_string()).unwrap(), &AnchorDataHash::from_bytes(hash32(0xad)).unwrap())
}

pub fn native_pubkey(i: usize) -> NativeScript {
    NativeScript::new_script_pubkey(&ScriptPubkey::new(&kh(i)))
}

pub fn pool_params(operator: usize, owners: &[usize]) -> PoolParams {
    let mut os = Ed25519KeyHashes::new();
    for o in owners {
        os.add(&kh(*o));
    }
    PoolParams::new(
        &kh(operator),
        &VRFKeyHash::from_bytes(hash32(0x44)).unwrap(),
        &bn(1_000_000),
        &bn(340_000_000),
        &UnitInterval::new(&bn(1), &bn(20)),
        &reward_key(operator),
        &os,
        &Relays::new(),
        None,
    )
}

/// What the ledger charges / refunds for a certificate (Conway, notes/ledger_rules.md).
#[derive(Clone, Copy, Debug, PartialEq)]
pub enum Dep {
    None,
    Explicit(u64),
    KeyParam,
    PoolParam,
}

pub struct CertSpec {
    pub name: &'static str,
    pub cert: Certificate,
    pub deposit: Dep,
    pub refund: Dep,
    /// key hashes the ledger requires to sign for this certificate (witsVKeyNeeded)
    pub signers: Vec<usize>,
    /// script credential index when the certificate needs a script witness
    pub script: Option<usize>,
}

pub const C_2ADA: u64 = 2_000_000;
pub const C_500ADA: u64 = 500_000_000;
pub const C_2P63: u64 = 0x8000_0000_0000_0000;
pub const C_2P63M1: u64 = 0x7fff_ffff_ffff_ffff;

/// 28 certificates: the 19 CDDL kinds, with/without explicit amounts, key and script credentials.
pub fn cert_alphabet() -> Vec<CertSpec> {
    let drep = DRep::new_key_hash(&kh(3));
    let mut v = Vec::new();
    let mut push = |name, cert, deposit, refund, signers: Vec<usize>, script| v.push(CertSpec { name, cert, deposit, refund, signers, script });
    push("stake_reg_legacy(key0)", Certificate::new_stake_registration(&StakeRegistration::new(&cred_key(0))), Dep::KeyParam, Dep::None, vec![], None);
    push("reg_cert(key1,2ADA)", Certificate::new_reg_cert(&StakeRegistration::new_with_explicit_deposit(&cred_key(1), &bn(C_2ADA))).unwrap(), Dep::Explicit(C_2ADA), Dep::None, vec![1], None);
    push("stake_dereg_legacy(key0)", Certificate::new_stake_deregistration(&StakeDeregistration::new(&cred_key(0))), Dep::None, Dep::KeyParam, vec![0], None);
    push("unreg_cert(key1,2ADA)", Certificate::new_unreg_cert(&StakeDeregistration::new_with_explicit_refund(&cred_key(1), &bn(C_2ADA))).unwrap(), Dep::None, Dep::Explicit(C_2ADA), vec![1], None);
    push("stake_dereg_legacy(script0)", Certificate::new_stake_deregistration(&StakeDeregistration::new(&cred_script(0))), Dep::None, Dep::KeyParam, vec![], Some(0));
    push("stake_delegation(key0)", Certificate::new_stake_delegation(&StakeDelegation::new(&cred_key(0), &kh(2))), Dep::None, Dep::None, vec![0], None);
    push("stake_delegation(script1)", Certificate::new_stake_delegation(&StakeDelegation::new(&cred_script(1), &kh(2))), Dep::None, Dep::None, vec![], Some(1));
    push("pool_registration(op2,owners0+1)", Certificate::new_pool_registration(&PoolRegistration::new(&pool_params(2, &[0, 1]))), Dep::PoolParam, Dep::None, vec![2, 0, 1], None);
    push("pool_retirement(op2)", Certificate::new_pool_retirement(&PoolRetirement::new(&kh(2), 300)), Dep::None, Dep::None, vec![2], None);
    push(
        "genesis_key_delegation",
        Certificate::new_genesis_key_delegation(&GenesisKeyDelegation::new(
            &GenesisHash::from_bytes(vec![0x61; 28]).unwrap(),
            &GenesisDelegateHash::from_bytes(kh_bytes(3)).unwrap(),
            &VRFKeyHash::from_bytes(hash32(0x45)).unwrap(),
        )),
        Dep::None,
        Dep::None,
        vec![3],
        None,
    );
    push(
        "mir_to_other_pot",
        Certificate::new_move_instantaneous_rewards_cert(&MoveInstantaneousRewardsCert::new(&MoveInstantaneousReward::new_to_other_pot(MIRPot::Reserves, &bn(C_500ADA)))),
        Dep::None,
        Dep::None,
        vec![],
        None,
    );
    push("committee_hot_auth(key0->key1)", Certificate::new_committee_hot_auth(&CommitteeHotAuth::new(&cred_key(0), &cred_key(1))), Dep::None, Dep::None, vec![0], None);
    push("committee_cold_resign(key1)", Certificate::new_committee_cold_resign(&CommitteeColdResign::new(&cred_key(1))), Dep::None, Dep::None, vec![1], None);
    push("drep_registration(key3,500ADA)", Certificate::new_drep_registration(&DRepRegistration::new(&cred_key(3), &bn(C_500ADA))), Dep::Explicit(C_500ADA), Dep::None, vec![3], None);
    push("drep_registration(script2,2^63-1)", Certificate::new_drep_registration(&DRepRegistration::new_with_anchor(&cred_script(2), &bn(C_2P63M1), &anchor())), Dep::Explicit(C_2P63M1), Dep::None, vec![], Some(2));
    push("drep_deregistration(key3,500ADA)", Certificate::new_drep_deregistration(&DRepDeregistration::new(&cred_key(3), &bn(C_500ADA))), Dep::None, Dep::Explicit(C_500ADA), vec![3], None);
    push("drep_deregistration(script2,2^63)", Certificate::new_drep_deregistration(&DRepDeregistration::new(&cred_script(2), &bn(C_2P63))), Dep::None, Dep::Explicit(C_2P63), vec![], Some(2));
    push("drep_update(key3)", Certificate::new_drep_update(&DRepUpdate::new(&cred_key(3))), Dep::None, Dep::None, vec![3], None);
    push("stake_and_vote_delegation(key0)", Certificate::new_stake_and_vote_delegation(&StakeAndVoteDelegation::new(&cred_key(0), &kh(2), &drep)), Dep::None, Dep::None, vec![0], None);
    push("stake_reg_and_deleg(key1,2^63)", Certificate::new_stake_registration_and_delegation(&StakeRegistrationAndDelegation::new(&cred_key(1), &kh(2), &bn(C_2P63))), Dep::Explicit(C_2P63), Dep::None, vec![1], None);
    push("stake_vote_reg_and_deleg(key0,2ADA)", Certificate::new_stake_vote_registration_and_delegation(&StakeVoteRegistrationAndDelegation::new(&cred_key(0), &kh(2), &drep, &bn(C_2ADA))), Dep::Explicit(C_2ADA), Dep::None, vec![0], None);
    push("vote_delegation(key1)", Certificate::new_vote_delegation(&VoteDelegation::new(&cred_key(1), &DRep::new_always_abstain())), Dep::None, Dep::None, vec![1], None);
    push("vote_reg_and_deleg(key3,2^63)", Certificate::new_vote_registration_and_delegation(&VoteRegistrationAndDelegation::new(&cred_key(3), &DRep::new_always_no_confidence(), &bn(C_2P63))), Dep::Explicit(C_2P63), Dep::None, vec![3], None);
    push("vote_reg_and_deleg(script0,500ADA)", Certificate::new_vote_registration_and_delegation(&VoteRegistrationAndDelegation::new(&cred_script(0), &drep, &bn(C_500ADA))), Dep::Explicit(C_500ADA), Dep::None, vec![], Some(0));
    push("reg_cert(key3,2^64-1)", Certificate::new_reg_cert(&StakeRegistration::new_with_explicit_deposit(&cred_key(3), &bn(u64::MAX))).unwrap(), Dep::Explicit(u64::MAX), Dep::None, vec![3], None);
    push("stake_delegation(script2)", Certificate::new_stake_delegation(&StakeDelegation::new(&cred_script(2), &kh(2))), Dep::None, Dep::None, vec![], Some(2));
    push("vote_delegation(script2)", Certificate::new_vote_delegation(&VoteDelegation::new(&cred_script(2), &DRep::new_always_abstain())), Dep::None, Dep::None, vec![], Some(2));
    // 27: a legacy (deposit-less) registration of a script credential: the ledger runs no script for it
    push("stake_reg_legacy(script2)", Certificate::new_stake_registration(&StakeRegistration::new(&cred_script(2))), Dep::KeyParam, Dep::None, vec![], None);
    v
}

pub fn proposal(i: usize, deposit: u64) -> VotingProposal {
    let action = match i % 3 {
        0 => GovernanceAction::new_info_action(&InfoAction::new()),
        1 => GovernanceAction::new_no_confidence_action(&NoConfidenceAction::new()),
        _ => GovernanceAction::new_hard_fork_initiation_action(&HardForkInitiationAction::new(&ProtocolVersion::new(10, 0))),
    };
    VotingProposal::new(&action, &anchor(), &reward_key(i % 4), &bn(deposit))
}

pub fn plutus_script(lang: usize, fill: u8, len: usize) -> PlutusScript {
    let body = vec![fill; len];
    match lang {
        0 => PlutusScript::new(body),
        1 => PlutusScript::new_v2(body),
        _ => PlutusScript::new_v3(body),
    }
}

#[derive(Clone, Debug)]
pub struct Params {
    pub fee_a: u64,
    pub fee_b: u64,
    pub pool_deposit: u64,
    pub key_deposit: u64,
    pub max_value_size: u32,
    pub max_tx_size: u32,
    pub coins_per_byte: u64,
    pub ex_prices: Option<((u64, u64), (u64, u64))>,
    pub ref_script_price: Option<(u64, u64)>,
    pub prefer_pure_change: bool,
    pub dedup_ref_inputs: bool,
    pub do_not_burn: bool,
    /// change address used by the builder scenarios: 0 base (57 bytes), 1 Byron (longer), 2 enterprise (29 bytes)
    pub change_kind: u8,
    /// builder scenarios: feed the transaction builder through its older per-item entry points
    /// (add_key_input, add_bootstrap_input, add_native_script_input, set_certs, set_withdrawals, set_mint)
    pub legacy_api: bool,
    /// builder scenarios: set / remove every removable component before the real set-up
    pub churn: bool,
}

impl Params {
    pub fn mainnet() -> Params {
        Params {
            fee_a: 44,
            fee_b: 155_381,
            pool_deposit: 500_000_000,
            key_deposit: 2_000_000,
            max_value_size: 5000,
            max_tx_size: 16384,
            coins_per_byte: 4310,
            ex_prices: Some(((577, 10_000), (721, 10_000_000))),
            ref_script_price: Some((15, 1)),
            prefer_pure_change: false,
            dedup_ref_inputs: false,
            do_not_burn: false,
            change_kind: 0,
            legacy_api: false,
            churn: false,
        }
    }
    pub fn config(&self) -> TransactionBuilderConfig {
        let mut b = TransactionBuilderConfigBuilder::new()
            .fee_algo(&LinearFee::new(&bn(self.fee_a), &bn(self.fee_b)))
            .pool_deposit(&bn(self.pool_deposit))
            .key_deposit(&bn(self.key_deposit))
            .max_value_size(self.max_value_size)
            .max_tx_size(self.max_tx_size)
            .coins_per_utxo_byte(&bn(self.coins_per_byte))
            .prefer_pure_change(self.prefer_pure_change)
            .deduplicate_explicit_ref_inputs_with_regular_inputs(self.dedup_ref_inputs)
            .do_not_burn_extra_change(self.do_not_burn);
        if let Some((m, s)) = self.ex_prices {
            b = b.ex_unit_prices(&ExUnitPrices::new(&UnitInterval::new(&bn(m.0), &bn(m.1)), &UnitInterval::new(&bn(s.0), &bn(s.1))));
        }
        if let Some(p) = self.ref_script_price {
            b = b.ref_script_coins_per_byte(&UnitInterval::new(&bn(p.0), &bn(p.1)));
        }
        b.build().unwrap()
    }
}
