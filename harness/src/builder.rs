//! Builder exploration shared by C05/C06/C07/C16/C18/C19 (E2: BFS over operation histories).
//! Filled in step by step; until then the hooks below are no-ops.

use crate::props::BoxedScenario;
use crate::report::{Report, Tier};

pub fn scenario_for(_prop: &str, _name: &str, _tier: Tier) -> Option<BoxedScenario> {
    None
}

pub fn explore_for(_prop: &str, _tier: Tier, _seed: u64, _rep: &mut Report) {}
