//! Builder exploration shared by C03/C05/C06/C07/C09/C10/C16/C18 (E2: BFS over operation
//! histories on the real TransactionBuilder, with a plain reference model and the ledger oracle).
//!
//! A state is an operation history over a finite alphabet. `replay` applies it to fresh real
//! sub-builders and to the model; the canonical key is a digest of the Debug rendering of the real
//! sub-builders plus the model. In every new state the *finish procedure* is run for every
//! (balancing method x configuration) and, for the random strategies, for every RNG answer within
//! the deviation bound; the produced transaction is re-parsed by refcbor and judged.

use crate::engine::{bfs, guard, key128, panic_sig, Ctx, Opts};
use cardano_serialization_lib::verif_hooks;
use crate::fx::*;
use crate::ledger::{self, Deposits, FeeParams, PTx, Val};
use crate::props::BoxedScenario;
use crate::refcbor;
use crate::report::{Report, Tier};
use crate::util::*;
use cardano_serialization_lib as csl;
use csl::*;
use std::cell::Cell;
use std::collections::{BTreeMap, BTreeSet};

// ---------------------------------------------------------------------------------------------
// the world: UTxO table, scripts, policies, outputs

#[derive(Clone, Debug, PartialEq)]
pub enum Owner {
    Key(usize),
    Byron(u8),
    Native(usize),
    Plutus(usize),
}

pub struct UtxoSpec {
    pub owner: Owner,
    pub base: bool,
    pub coin: u64,
    /// (policy index, name index, quantity)
    pub assets: Vec<(usize, usize, u64)>,
}

pub struct World {
    pub native: Vec<NativeScript>,
    pub plutus: Vec<PlutusScript>,
    pub policies: Vec<ScriptHash>,
    pub names: Vec<AssetName>,
    pub utxos: Vec<(UtxoSpec, TransactionUnspentOutput)>,
    pub outputs: Vec<TransactionOutput>,
    pub certs: Vec<CertSpec>,
    pub change: Address,
    pub byron_attrs: Vec<u8>,
    pub datums: Vec<PlutusData>,
    pub cost_models: Costmdls,
    pub cost_lists: BTreeMap<u8, Vec<i128>>,
}

pub const N_OUTPOINTS: usize = 28;
pub fn op_outpoint(i: usize) -> TransactionInput {
    // adversarial order: hashes ff.., 00.., 7f.., 80.. with indices that do not sort like the list
    const T: [(u8, u32); N_OUTPOINTS] = [
        (0xff, 0), (0x00, 1), (0x00, 0), (0x7f, 65535), (0x80, 256), (0x00, 24), (0x7f, 2), (0xfe, 9), (0x01, 0), (0x80, 1), (0x10, 23), (0xc0, 7), (0x20, 3), (0x30, 4), (0x40, 5), (0x50, 6),
        (0x21, 3), (0x31, 4), (0x41, 5), (0x51, 6),
        // 20, 21: the UTxOs holding reference scripts; 22, 23: explicit reference inputs
        (0x22, 3), (0x32, 4), (0x42, 5), (0x52, 6),
        // 24..: UTxOs 20.. of the table (outpoints 20..23 are taken by the reference UTxOs)
        (0x23, 3), (0x02, 2), (0x43, 5), (0x53, 6),
    ];
    TransactionInput::new(&txhash(T[i].0), T[i].1)
}
/// the outpoint of UTxO `i` of the world's table
pub fn utxo_outpoint_index(i: usize) -> usize {
    if i < 20 { i } else { i + 4 }
}
pub fn utxo_outpoint(i: usize) -> TransactionInput {
    op_outpoint(utxo_outpoint_index(i))
}
pub fn utxo_outpoint_key(i: usize) -> (Vec<u8>, u64) {
    op_outpoint_key(utxo_outpoint_index(i))
}
pub fn op_outpoint_key(i: usize) -> (Vec<u8>, u64) {
    let x = op_outpoint(i);
    (x.transaction_id().to_bytes(), x.index() as u64)
}

fn mk_value(w: &World, coin: u64, assets: &[(usize, usize, u64)]) -> Value {
    let mut v = Value::new(&bn(coin));
    if !assets.is_empty() {
        let mut ma = MultiAsset::new();
        for (p, n, q) in assets {
            ma.set_asset(&w.policies[*p], &w.names[*n], &bn(*q));
        }
        v.set_multiasset(&ma);
    }
    v
}

impl World {
    pub fn new() -> World {
        let native = vec![native_pubkey(2), {
            let mut subs = NativeScripts::new();
            subs.add(&native_pubkey(0));
            subs.add(&native_pubkey(3));
            NativeScript::new_script_all(&ScriptAll::new(&subs))
        }, {
            // 2-of-3 over key 1, any[key 2, not-before-slot-10], key 3: every structural arm of a native script
            let mut inner = NativeScripts::new();
            inner.add(&native_pubkey(2));
            inner.add(&NativeScript::new_timelock_start(&TimelockStart::new_timelockstart(&bn(10))));
            let mut subs = NativeScripts::new();
            subs.add(&native_pubkey(1));
            subs.add(&NativeScript::new_script_any(&ScriptAny::new(&inner)));
            subs.add(&native_pubkey(3));
            NativeScript::new_script_n_of_k(&ScriptNOfK::new(2, &subs))
        }];
        let plutus = vec![PlutusScript::new(vec![1, 2, 3]), PlutusScript::new_v2(vec![4; 10]), PlutusScript::new_v3(vec![4; 10])]; // 1 and 2: the same bytes under two languages are two scripts
        let policies = vec![native[0].hash(), plutus[1].hash(), sh(2), plutus[0].hash()];
        let names = vec![AssetName::new(vec![]).unwrap(), AssetName::new(b"t".to_vec()).unwrap(), AssetName::new(vec![0x42; 32]).unwrap()];
        let mut w = World {
            native,
            plutus,
            policies,
            names,
            utxos: vec![],
            outputs: vec![],
            certs: cert_alphabet(),
            change: base_addr(3, 1),
            byron_attrs: vec![0xa0],
            // [0] and [2]: the same value with the same bytes; [3]: the same value decoded from a
            // non-minimal encoding (PlutusData keeps its original bytes: a different datum hash)
            datums: vec![PlutusData::new_integer(&BigInt::from(7u64)), PlutusData::new_bytes(vec![0xd0; 70]), PlutusData::new_integer(&BigInt::from(7u64)), PlutusData::from_bytes(vec![0x18, 0x07]).unwrap(), PlutusData::new_bytes(vec![0xe1; 64])], // 4: a 64-byte datum no input carries
            cost_models: Costmdls::new(),
            cost_lists: BTreeMap::new(),
        };
        for (lang, list) in [(1u8, vec![1i128, 2, 3]), (2, vec![4, 5]), (3, vec![6])] {
            let mut cm = CostModel::new();
            for (i, x) in list.iter().enumerate() {
                cm.set(i, &Int::new_i32(*x as i32)).unwrap();
            }
            let l = match lang {
                1 => Language::new_plutus_v1(),
                2 => Language::new_plutus_v2(),
                _ => Language::new_plutus_v3(),
            };
            w.cost_models.insert(&l, &cm);
            w.cost_lists.insert(lang, list);
        }
        let specs = vec![
            UtxoSpec { owner: Owner::Key(0), base: true, coin: 2_000_000, assets: vec![] },
            UtxoSpec { owner: Owner::Key(1), base: false, coin: 10_000_000, assets: vec![] },
            UtxoSpec { owner: Owner::Key(0), base: false, coin: 5_000_000_000, assets: vec![] },
            UtxoSpec { owner: Owner::Key(1), base: false, coin: 3_000_000, assets: vec![(0, 1, 100)] },
            UtxoSpec { owner: Owner::Key(2), base: true, coin: 6_000_000, assets: vec![(0, 1, 5), (1, 0, 7), (2, 2, 1)] },
            UtxoSpec { owner: Owner::Byron(0), base: false, coin: 4_000_000, assets: vec![] },
            UtxoSpec { owner: Owner::Native(0), base: false, coin: 3_000_000, assets: vec![] },
            UtxoSpec { owner: Owner::Plutus(1), base: false, coin: 4_000_000, assets: vec![] },
            UtxoSpec { owner: Owner::Plutus(0), base: false, coin: 2_500_000, assets: vec![] },
            UtxoSpec { owner: Owner::Key(1), base: false, coin: 70_000, assets: vec![] },
            UtxoSpec { owner: Owner::Native(1), base: false, coin: 3_500_000, assets: vec![] },
            UtxoSpec { owner: Owner::Plutus(2), base: false, coin: 4_500_000, assets: vec![] },
            // 12, 13: a second UTxO at the Byron address of 5, and another Byron address
            UtxoSpec { owner: Owner::Byron(0), base: false, coin: 3_200_000, assets: vec![] },
            UtxoSpec { owner: Owner::Byron(1), base: false, coin: 3_300_000, assets: vec![] },
            // 14, 15: locked by the same Plutus script as 7 (their outpoints sort before 7's)
            UtxoSpec { owner: Owner::Plutus(1), base: false, coin: 4_200_000, assets: vec![] },
            UtxoSpec { owner: Owner::Plutus(1), base: false, coin: 4_300_000, assets: vec![] },
            // 16: locked by the same two-key native script as 10
            UtxoSpec { owner: Owner::Native(1), base: false, coin: 3_600_000, assets: vec![] },
            // 17: locked by the 2-of-3 script
            UtxoSpec { owner: Owner::Native(2), base: false, coin: 3_700_000, assets: vec![] },
            // 18: more than 2^63 units of one asset (to be burnt by Mint(6))
            UtxoSpec { owner: Owner::Key(1), base: false, coin: 3_100_000, assets: vec![(0, 1, (1u64 << 63) + 10)] },
            // 19: a key-owned UTxO at an enterprise address that CARRIES a reference script (2000 bytes of
            // Plutus V2): spending it is charged the reference-script fee like referencing it
            UtxoSpec { owner: Owner::Key(1), base: false, coin: 8_000_000, assets: vec![] },
            // 20: a key-owned UTxO whose value was DECODED and holds an asset with quantity 0 and a policy with
            // no assets (nothing in ledger terms: zero = absent); what the builder emits must not carry them on
            UtxoSpec { owner: Owner::Key(2), base: false, coin: 7_000_000, assets: vec![] },
        ];
        for (i, s) in specs.into_iter().enumerate() {
            let addr = match &s.owner {
                Owner::Key(k) => {
                    if s.base {
                        base_addr(*k, (*k + 1) % 4)
                    } else {
                        enterprise_addr(*k)
                    }
                }
                Owner::Byron(b) => byron_addr(*b).to_address(),
                Owner::Native(n) => EnterpriseAddress::new(1, &Credential::from_scripthash(&w.native[*n].hash())).to_address(),
                Owner::Plutus(p) => EnterpriseAddress::new(1, &Credential::from_scripthash(&w.plutus[*p].hash())).to_address(),
            };
            let mut out = TransactionOutput::new(&addr, &mk_value(&w, s.coin, &s.assets));
            if i == SPENT_REF_SCRIPT_UTXO {
                out.set_script_ref(&ScriptRef::new_plutus_script(&PlutusScript::new_v2(vec![0x5c; SPENT_REF_SCRIPT_SIZE])));
            }
            if i == ZERO_ASSET_UTXO {
                // a value as a decoder hands it over: an asset with quantity 0 and a policy with no assets
                let vb = refcbor::emit(&refcbor::Node::arr(vec![
                    refcbor::Node::uint(s.coin),
                    refcbor::Node::map(vec![
                        (refcbor::Node::bytes(&w.policies[0].to_bytes()), refcbor::Node::map(vec![(refcbor::Node::bytes(b"t"), refcbor::Node::uint(0))])),
                        (refcbor::Node::bytes(&w.policies[2].to_bytes()), refcbor::Node::map(vec![])),
                    ]),
                ]));
                out = TransactionOutput::new(&addr, &Value::from_bytes(vb).expect("harness: value with a zero quantity and an empty policy"));
            }
            let u = TransactionUnspentOutput::new(&utxo_outpoint(i), &out);
            w.utxos.push((s, u));
        }
        // requested outputs
        let o0 = TransactionOutput::new(&enterprise_addr(3), &Value::new(&bn(1_000_000)));
        let o1 = TransactionOutput::new(&base_addr(2, 0), &mk_value(&w, 1_500_000, &[(0, 1, 3)]));
        let o2 = TransactionOutput::new(&enterprise_addr(3), &Value::new(&bn(4_990_000_000)));
        let mut o3 = TransactionOutput::new(&base_addr(1, 1), &mk_value(&w, 2_000_000, &[(1, 0, 7)]));
        o3.set_data_hash(&DataHash::from_bytes(hash32(0xd7)).unwrap());
        let o4 = TransactionOutput::new(&enterprise_addr(3), &Value::new(&bn(60_000)));
        w.outputs = vec![o0, o1, o2, o3, o4];
        w
    }
    pub fn utxo_val(&self, i: usize) -> Val {
        let s = &self.utxos[i].0;
        let mut v = Val::coin(s.coin);
        for (p, n, q) in &s.assets {
            *v.assets.entry((self.policies[*p].to_bytes(), self.names[*n].name())).or_insert(0) += *q as i128;
        }
        v
    }
    /// the leftover sweep gives UTxO `i` another coin (same outpoint, owner and assets)
    pub fn set_utxo_coin(&mut self, i: usize, coin: u64) {
        let (spec, u) = &mut self.utxos[i];
        spec.coin = coin;
        let old = u.output();
        let mut v = old.amount();
        v.set_coin(&bn(coin));
        let mut o = TransactionOutput::new(&old.address(), &v);
        if let Some(r) = old.script_ref() {
            o.set_script_ref(&r);
        }
        *u = TransactionUnspentOutput::new(&u.input(), &o);
    }
    pub fn lookup(&self, op: &(Vec<u8>, u64)) -> Option<usize> {
        (0..self.utxos.len()).find(|i| &utxo_outpoint_key(*i) == op)
    }
}

thread_local! {
    pub static WORLD: World = World::new();
    static RNG_CTX: Cell<*mut Ctx> = Cell::new(std::ptr::null_mut());
    static RNG_FREE: Cell<bool> = Cell::new(false);
    static RNG_CALLS: Cell<u32> = Cell::new(0);
}

/// run `f` with the library's RNG answered by `ctx.choose` (counted deviations unless `free`)
pub fn with_rng<T>(ctx: &mut Ctx, free: bool, f: impl FnOnce() -> T) -> T {
    RNG_CTX.with(|c| c.set(ctx as *mut Ctx));
    RNG_FREE.with(|c| c.set(free));
    RNG_CALLS.with(|c| c.set(0));
    verif_hooks::set_rng_callback(Some(Box::new(|n| {
        RNG_CALLS.with(|c| c.set(c.get() + 1));
        let p = RNG_CTX.with(|c| c.get());
        if p.is_null() {
            return 0;
        }
        // single-threaded, re-entrancy free: the pointer is valid for the duration of `f`
        let ctx: &mut Ctx = unsafe { &mut *p };
        if RNG_FREE.with(|c| c.get()) {
            ctx.choose_free(n)
        } else {
            ctx.choose(n)
        }
    })));
    let r = f();
    verif_hooks::set_rng_callback(None);
    RNG_CTX.with(|c| c.set(std::ptr::null_mut()));
    r
}
/// after a panic unwound through `with_rng` / a seeded section: remove the callback (it points at
/// the execution's context) and go back to hash seed 0
pub fn reset_hooks_after_panic() {
    verif_hooks::set_rng_callback(None);
    RNG_CTX.with(|c| c.set(std::ptr::null_mut()));
    verif_hooks::set_hash_seed(0);
}
pub fn rng_calls() -> u32 {
    RNG_CALLS.with(|c| c.get())
}

// ---------------------------------------------------------------------------------------------
// operations

#[derive(Clone, Copy, Debug, PartialEq, Eq, PartialOrd, Ord, Hash)]
pub enum Op {
    /// add UTxO i as an input; variant: 0 = script inline / datum in witness, 1 = script by reference (and inline datum)
    In(usize, u8),
    Out(usize),
    Cert(usize),
    /// 0: key0 5 ADA, 1: native-script account 1 ADA, 2: key2 2^32 lovelace, 3: plutus-script account
    Wd(usize),
    /// re-add the reward account of Wd(i) with another amount (the entry is replaced)
    WdAgain(usize),
    /// add UTxO i again (already an input: the entry is replaced by itself)
    InAgain(usize),
    /// 0: +10 (pol0,"t") native, 1: -3 (pol0,"t") native, 2: +1 (pol1,"") plutus, 3: +5 (pol0,"") and -5 ... second name
    Mint(usize),
    Proposal(usize),
    Donate,
    /// 0: exact 200_000, 1: exact 2_000_000, 2: not-less 100, 3: not-less 900_000
    Fee(usize),
    Coll(usize),
    ReqSigner(usize),
    /// explicit reference input: 0 = outpoint 13 (no script), 1 = outpoint 14 with a 30_000-byte script, 2 = same outpoint as UTxO 0, 3 = UTxO 1 declared to carry a 20_000-byte script
    RefIn(usize),
    /// 0: DRep key3, 1: CC hot key1, 2: SPO key2, 3: CC hot script (native 0), 4: DRep script plutus
    Vote(usize),
    Meta,
    ExtraDatum(usize),
    /// set_ttl_bignum(2^33) and set_validity_start_interval(7)
    Ttl,
    /// set_current_treasury_value(10^12)
    Treasury,
    /// add_mint_asset_and_output_min_required_coin: +7 of (policy 0, third name) and an output holding them
    MintAndOutput,
    /// add_json_metadatum (label 1) next to whatever metadata is set
    MetaJson,
    /// auxiliary data that is set but empty: 0 = set_metadata(empty map), 1 = set_auxiliary_data(blank)
    MetaEmpty(usize),
    /// the most recent certificate / proposal / vote / collateral input handed to its sub-builder once
    /// more (the content of the transaction does not change: these are sets / maps)
    Again,
}

pub fn op_name(op: &Op) -> String {
    format!("{:?}", op)
}

#[derive(Clone, Debug, Default)]
pub struct Model {
    pub inputs: Vec<(usize, u8)>,
    pub outputs: Vec<usize>,
    pub certs: Vec<usize>,
    pub wds: Vec<usize>,
    pub wd_again: Vec<usize>,
    pub in_again: Vec<usize>,
    pub mint: BTreeMap<(usize, usize), i128>,
    pub proposals: Vec<usize>,
    pub donation: Option<u64>,
    pub fee_req: Option<usize>,
    pub collateral: Vec<usize>,
    pub req_signers: Vec<usize>,
    pub ref_inputs: Vec<usize>,
    pub votes: Vec<usize>,
    pub meta: bool,
    pub extra_datums: Vec<usize>,
    pub ttl: bool,
    pub treasury: bool,
    pub mint_and_output: bool,
    pub meta_json: bool,
    pub meta_empty: Option<usize>,
    /// Plutus scripts (index into World::plutus) used BY REFERENCE for a purpose other than spending
    pub ref_plutus: Vec<usize>,
    /// native script 0 used BY REFERENCE for a purpose other than spending (certificate 4, withdrawal 8, vote 8)
    pub ref_native_uses: u32,
    /// the last operation that `Again` can repeat
    pub last: Option<Op>,
    pub again: u32,
}

pub struct St {
    pub ib: TxInputsBuilder,
    pub cb: TxInputsBuilder,
    pub certs: CertificatesBuilder,
    pub wds: WithdrawalsBuilder,
    pub mint: MintBuilder,
    pub votes: VotingBuilder,
    pub props: VotingProposalBuilder,
    pub m: Model,
}

impl St {
    pub fn new() -> St {
        St { ib: TxInputsBuilder::new(), cb: TxInputsBuilder::new(), certs: CertificatesBuilder::new(), wds: WithdrawalsBuilder::new(), mint: MintBuilder::new(), votes: VotingBuilder::new(), props: VotingProposalBuilder::new(), m: Model::default() }
    }
}

pub const WD_AMOUNT: [u64; 4] = [5_000_000, 1_000_000, 0x1_0000_0000, 1_500_000];
pub const REF_SCRIPT_OUTPOINT: usize = 20;
pub const REF_SCRIPT_SIZE: usize = 600;
pub const SPENT_REF_SCRIPT_UTXO: usize = 19;
pub const SPENT_REF_SCRIPT_SIZE: usize = 2000;
pub const ZERO_ASSET_UTXO: usize = 20;

fn redeemer_for(tag: RedeemerTag, marker: u64) -> Redeemer {
    // the data names the item the redeemer is attached to (C10); index is a placeholder
    Redeemer::new(&tag, &bn(999), &PlutusData::new_integer(&BigInt::from(marker)), &ExUnits::new(&bn(1_000 + marker), &bn(2_000_000 + marker)))
}

fn plutus_lang(w: &World, p: usize) -> Language {
    w.plutus[p].language_version()
}

/// witness for a Plutus use of script `p`: variant 0 = script + datum in the witness set,
/// variant 1 = script by reference input, datum inline (no datum witness)
fn plutus_witness(w: &World, p: usize, variant: u8, tag: RedeemerTag, marker: u64, datum: Option<usize>) -> PlutusWitness {
    let red = redeemer_for(tag, marker);
    if variant == 0 {
        match datum {
            Some(d) => PlutusWitness::new(&w.plutus[p], &w.datums[d], &red),
            None => PlutusWitness::new_without_datum(&w.plutus[p], &red),
        }
    } else if variant == 1 {
        let src = PlutusScriptSource::new_ref_input(&w.plutus[p].hash(), &op_outpoint(REF_SCRIPT_OUTPOINT), &plutus_lang(w, p), REF_SCRIPT_SIZE);
        PlutusWitness::new_with_ref_without_datum(&src, &red)
    } else if variant == 4 {
        // script by reference, datum by value (in the witness set)
        let src = PlutusScriptSource::new_ref_input(&w.plutus[p].hash(), &op_outpoint(REF_SCRIPT_OUTPOINT), &plutus_lang(w, p), REF_SCRIPT_SIZE);
        match datum {
            Some(d) => PlutusWitness::new_with_ref(&src, &DatumSource::new(&w.datums[d]), &red),
            None => PlutusWitness::new_with_ref_without_datum(&src, &red),
        }
    } else {
        // variants 2 and 3: the datum sits in a reference input (no datum witness);
        // 2 = script in the witness set, 3 = script by reference as well
        let src = if variant == 2 { PlutusScriptSource::new(&w.plutus[p]) } else { PlutusScriptSource::new_ref_input(&w.plutus[p].hash(), &op_outpoint(REF_SCRIPT_OUTPOINT), &plutus_lang(w, p), REF_SCRIPT_SIZE) };
        PlutusWitness::new_with_ref(&src, &DatumSource::new_ref_input(&op_outpoint(22)), &red)
    }
}

/// native script `n` supplied by reference (outpoint REF_SCRIPT_OUTPOINT + 1), all its keys declared as signers
pub fn native_by_ref(w: &World, n: usize) -> NativeScriptSource {
    let mut s = NativeScriptSource::new_ref_input(&w.native[n].hash(), &op_outpoint(REF_SCRIPT_OUTPOINT + 1), 40);
    let mut ks = Ed25519KeyHashes::new();
    for k in declared_native_signers(w, n, 1) {
        ks.add(&Ed25519KeyHash::from_bytes(k).unwrap());
    }
    s.set_required_signers(&ks);
    s
}

/// signers declared for a native script used by reference: variant 1 all keys it names,
/// variant 2 only the first, variant 3 only the last
pub fn declared_native_signers(w: &World, n: usize, variant: u8) -> Vec<Vec<u8>> {
    let all = crate::ledger::native_script_keys(&w.native[n].to_bytes());
    match variant {
        2 => all.into_iter().take(1).collect(),
        3 => all.into_iter().rev().take(1).collect(),
        _ => all,
    }
}

/// proposals 3 and 4: treasury withdrawal / parameter change naming script 0 as their policy
pub fn guarded_proposal(w: &World, i: usize) -> VotingProposal {
    let policy = w.plutus[0].hash();
    let action = if i == 3 {
        let mut tw = TreasuryWithdrawals::new();
        tw.insert(&reward_key(1), &bn(1000));
        GovernanceAction::new_treasury_withdrawals_action(&TreasuryWithdrawalsAction::new_with_policy_hash(&tw, &policy))
    } else {
        let mut ppu = ProtocolParamUpdate::new();
        ppu.set_max_tx_size(20_000);
        GovernanceAction::new_parameter_change_action(&ParameterChangeAction::new_with_policy_hash(&ppu, &policy))
    };
    VotingProposal::new(&action, &anchor(), &reward_key(i % 4), &bn(1_000_000 + i as u64))
}

/// Apply one operation to the real sub-builders and to the model; false = not applicable here.
pub fn apply(w: &World, st: &mut St, op: Op) -> bool {
    match op {
        Op::In(i, variant) => {
            if st.m.inputs.iter().any(|x| x.0 == i) || st.m.collateral.contains(&i) && false {
                return false;
            }
            let (spec, u) = &w.utxos[i];
            let r = match &spec.owner {
                Owner::Key(_) | Owner::Byron(_) => {
                    if variant != 0 {
                        return false;
                    }
                    st.ib.add_regular_utxo(u)
                }
                Owner::Native(n) => {
                    let src = if variant == 0 {
                        NativeScriptSource::new(&w.native[*n])
                    } else {
                        // a script used by reference cannot be inspected by the builder: the caller
                        // declares its signers, as the API documents
                        let mut s = NativeScriptSource::new_ref_input(&w.native[*n].hash(), &op_outpoint(REF_SCRIPT_OUTPOINT + 1), 40);
                        let mut ks = Ed25519KeyHashes::new();
                        for k in declared_native_signers(w, *n, variant) {
                            ks.add(&Ed25519KeyHash::from_bytes(k).unwrap());
                        }
                        s.set_required_signers(&ks);
                        s
                    };
                    st.ib.add_native_script_utxo(u, &src)
                }
                Owner::Plutus(p) => {
                    let wit = plutus_witness(w, *p, variant, RedeemerTag::new_spend(), 100 + i as u64, Some(i % 3));
                    st.ib.add_plutus_script_utxo(u, &wit)
                }
            };
            if r.is_err() {
                return false;
            }
            st.m.inputs.push((i, variant));
            true
        }
        Op::Out(j) => {
            if st.m.outputs.iter().filter(|x| **x == j).count() >= 1 {
                return false;
            }
            st.m.outputs.push(j);
            true
        }
        Op::Cert(k) => {
            if st.m.certs.contains(&k) {
                return false;
            }
            let c = &w.certs[k];
            let r = match c.script {
                // 27 carries a script credential but runs no script: a caller may still offer a Plutus
                // witness; the builder has to refuse it (and the plain add then succeeds)
                None if k == 27 => st.certs.add_with_plutus_witness(&c.cert, &plutus_witness(w, 1, 0, RedeemerTag::new_cert(), 200 + k as u64, None)).or_else(|_| st.certs.add(&c.cert)),
                None => st.certs.add(&c.cert),
                Some(s) => {
                    // script credentials of the certificate alphabet are sh(0..2): witness with a
                    // native script (the builder does not check the hash) or a Plutus one for sh(2)
                    if s == 2 {
                        st.certs.add_with_plutus_witness(&c.cert, &plutus_witness(w, 1, 0, RedeemerTag::new_cert(), 200 + k as u64, None))
                    } else {
                        // script credential 1 is witnessed by the two-key script (keys 0 and 3), the others by the
                        // one-key script: a certificate's script signers then overlap the keys of other certificates
                        if k == 4 {
                            // this one names its (one-key) script by reference
                            st.certs.add_with_native_script(&c.cert, &native_by_ref(w, 0))
                        } else {
                            st.certs.add_with_native_script(&c.cert, &NativeScriptSource::new(&w.native[if s == 1 { 1 } else { 0 }]))
                        }
                    }
                }
            };
            if r.is_err() {
                return false;
            }
            st.m.certs.push(k);
            if k == 4 {
                st.m.ref_native_uses += 1;
            }
            st.m.last = Some(op);
            true
        }
        Op::WdAgain(i) => {
            if !st.m.wds.contains(&i) || st.m.wd_again.contains(&i) {
                return false;
            }
            let key = if i == 0 { 0 } else { 2 };
            if st.wds.add(&reward_key(key), &bn(WD_AMOUNT[i] / 2 + 7)).is_err() {
                return false;
            }
            st.m.wd_again.push(i);
            true
        }
        Op::InAgain(i) => {
            if !st.m.inputs.iter().any(|x| x.0 == i) || st.m.in_again.contains(&i) {
                return false;
            }
            if st.ib.add_regular_utxo(&w.utxos[i].1).is_err() {
                return false;
            }
            st.m.in_again.push(i);
            true
        }
        Op::Wd(i) => {
            if st.m.wds.contains(&i) {
                return false;
            }
            let r = match i {
                // a withdrawal of nothing still needs the account's signature
                4 => st.wds.add(&reward_key(3), &bn(0)),
                // nothing withdrawn from a native-script account either (the two-key script): the script and
                // the keys it names are needed all the same
                6 => st.wds.add_with_native_script(&RewardAddress::new(1, &Credential::from_scripthash(&w.native[1].hash())), &bn(0), &NativeScriptSource::new(&w.native[1])),
                // a second Plutus-script account (script 0)
                5 => st.wds.add_with_plutus_witness(&RewardAddress::new(1, &Credential::from_scripthash(&w.plutus[0].hash())), &bn(1_700_000), &plutus_witness(w, 0, 0, RedeemerTag::new_reward(), 300 + i as u64, None)),
                // the account of Plutus script 2 (V3), the script supplied by reference: its language is used by
                // nothing else unless another item brings it
                7 => st.wds.add_with_plutus_witness(&RewardAddress::new(1, &Credential::from_scripthash(&w.plutus[2].hash())), &bn(1_900_000), &plutus_witness(w, 2, 1, RedeemerTag::new_reward(), 300 + i as u64, None)),
                // the native-script account of withdrawal 1 with the script supplied by reference
                8 => {
                    if st.m.wds.contains(&1) {
                        return false;
                    }
                    st.wds.add_with_native_script(&RewardAddress::new(1, &Credential::from_scripthash(&w.native[0].hash())), &bn(1_100_000), &native_by_ref(w, 0))
                }
                1 if st.m.wds.contains(&8) => return false,
                0 => st.wds.add(&reward_key(0), &bn(WD_AMOUNT[0])),
                1 => st.wds.add_with_native_script(&RewardAddress::new(1, &Credential::from_scripthash(&w.native[0].hash())), &bn(WD_AMOUNT[1]), &NativeScriptSource::new(&w.native[0])),
                2 => st.wds.add(&reward_key(2), &bn(WD_AMOUNT[2])),
                _ => st.wds.add_with_plutus_witness(&RewardAddress::new(1, &Credential::from_scripthash(&w.plutus[1].hash())), &bn(WD_AMOUNT[3]), &plutus_witness(w, 1, 0, RedeemerTag::new_reward(), 300 + i as u64, None)),
            };
            if r.is_err() {
                return false;
            }
            st.m.wds.push(i);
            if i == 7 {
                st.m.ref_plutus.push(2);
            }
            if i == 8 {
                st.m.ref_native_uses += 1;
            }
            true
        }
        Op::Mint(i) => {
            let native = MintWitness::new_native_script(&NativeScriptSource::new(&w.native[0]));
            let (r, entries): (Result<(), JsError>, Vec<((usize, usize), i128)>) = match i {
                0 => (st.mint.add_asset(&native, &w.names[1], &Int::new_i32(10)), vec![((0, 1), 10)]),
                1 => (st.mint.add_asset(&native, &w.names[1], &Int::new_i32(-3)), vec![((0, 1), -3)]),
                2 => {
                    let red = redeemer_for(RedeemerTag::new_mint(), 400);
                    let mw = MintWitness::new_plutus_script(&PlutusScriptSource::new(&w.plutus[1]), &red);
                    (st.mint.add_asset(&mw, &w.names[0], &Int::new_i32(1)), vec![((1, 0), 1)])
                }
                // the widest burn the ledger allows, -2^63 (UTxO 18 holds the tokens)
                6 => (st.mint.add_asset(&native, &w.names[1], &Int::new_negative(&bn(1u64 << 63))), vec![((0, 1), -((1u128 << 63) as i128))]),
                // burns exactly what Mint(0) mints: together they net to zero
                5 => (st.mint.add_asset(&native, &w.names[1], &Int::new_i32(-10)), vec![((0, 1), -10)]),
                4 => {
                    // a second Plutus policy (script 0)
                    let red = redeemer_for(RedeemerTag::new_mint(), 401);
                    let mw = MintWitness::new_plutus_script(&PlutusScriptSource::new(&w.plutus[0]), &red);
                    (st.mint.add_asset(&mw, &w.names[0], &Int::new_i32(2)), vec![((3, 0), 2)])
                }
                7 => {
                    // Plutus policy 0 (V1) with the script supplied by reference
                    if st.m.mint.keys().any(|k| k.0 == 3) {
                        return false;
                    }
                    let red = redeemer_for(RedeemerTag::new_mint(), 407);
                    let src = PlutusScriptSource::new_ref_input(&w.plutus[0].hash(), &op_outpoint(REF_SCRIPT_OUTPOINT), &plutus_lang(w, 0), REF_SCRIPT_SIZE);
                    (st.mint.add_asset(&MintWitness::new_plutus_script(&src, &red), &w.names[0], &Int::new_i32(2)), vec![((3, 0), 2)])
                }
                _ => {
                    let a = st.mint.add_asset(&native, &w.names[0], &Int::new_i32(5));
                    let b = st.mint.add_asset(&native, &w.names[2], &Int::new_i32(-1));
                    (a.and(b), vec![((0, 0), 5), ((0, 2), -1)])
                }
            };
            if r.is_err() {
                return false;
            }
            for (k, q) in entries {
                *st.m.mint.entry(k).or_insert(0) += q;
            }
            if i == 7 {
                st.m.ref_plutus.push(0);
            }
            if i == 4 && st.m.ref_plutus.contains(&0) {
                return false;
            }
            // an entry that nets to zero stays in the builder; building then refuses (or, were the
            // entry dropped, every policy index after it would shift): the state is kept
            true
        }
        Op::Proposal(i) => {
            if st.m.proposals.contains(&i) {
                return false;
            }
            let r = if i >= 3 {
                // proposals guarded by a Plutus policy script (script 0): proposing redeemers
                st.props.add_with_plutus_witness(&guarded_proposal(w, i), &plutus_witness(w, 0, 0, RedeemerTag::new_voting_proposal(), 600 + i as u64, None))
            } else {
                st.props.add(&proposal(i, 1_000_000 + i as u64))
            };
            if r.is_err() {
                return false;
            }
            st.m.proposals.push(i);
            st.m.last = Some(op);
            true
        }
        Op::Donate => {
            if st.m.donation.is_some() {
                return false;
            }
            st.m.donation = Some(1_500_000);
            true
        }
        Op::Fee(i) => {
            if st.m.fee_req.is_some() {
                return false;
            }
            st.m.fee_req = Some(i);
            true
        }
        Op::Coll(i) => {
            if st.m.collateral.contains(&i) {
                return false;
            }
            if st.cb.add_regular_utxo(&w.utxos[i].1).is_err() {
                return false;
            }
            st.m.collateral.push(i);
            st.m.last = Some(op);
            true
        }
        Op::ReqSigner(k) => {
            if st.m.req_signers.contains(&k) {
                return false;
            }
            st.m.req_signers.push(k);
            true
        }
        Op::RefIn(i) => {
            if st.m.ref_inputs.contains(&i) {
                return false;
            }
            st.m.ref_inputs.push(i);
            true
        }
        Op::Vote(i) => {
            if st.m.votes.contains(&i) {
                return false;
            }
            // 3 / 8 and 4 / 7 are the same voter with the script inline / by reference
            if (i == 3 && st.m.votes.contains(&8)) || (i == 8 && st.m.votes.contains(&3)) || (i == 4 && st.m.votes.contains(&7)) || (i == 7 && st.m.votes.contains(&4)) {
                return false;
            }
            let aid = GovernanceActionId::new(&txhash(0x33), 1);
            let vp = VotingProcedure::new(VoteKind::Yes);
            let r = match i {
                0 => st.votes.add(&Voter::new_drep_credential(&cred_key(3)), &aid, &vp),
                1 => st.votes.add(&Voter::new_constitutional_committee_hot_credential(&cred_key(1)), &aid, &vp),
                2 => st.votes.add(&Voter::new_stake_pool_key_hash(&kh(2)), &aid, &vp),
                3 => st.votes.add_with_native_script(&Voter::new_constitutional_committee_hot_credential(&Credential::from_scripthash(&w.native[0].hash())), &aid, &vp, &NativeScriptSource::new(&w.native[0])),
                // the DRep of vote 4 (script 2, V3) with the script supplied by reference
                7 => {
                    if st.m.votes.contains(&4) {
                        return false;
                    }
                    st.votes.add_with_plutus_witness(&Voter::new_drep_credential(&Credential::from_scripthash(&w.plutus[2].hash())), &aid, &vp, &plutus_witness(w, 2, 1, RedeemerTag::new_vote(), 500 + i as u64, None))
                }
                4 if st.m.votes.contains(&7) => return false,
                // the committee script voter of vote 3 with the script supplied by reference
                8 => {
                    if st.m.votes.contains(&3) {
                        return false;
                    }
                    st.votes.add_with_native_script(&Voter::new_constitutional_committee_hot_credential(&Credential::from_scripthash(&w.native[0].hash())), &aid, &vp, &native_by_ref(w, 0))
                }
                5 => st.votes.add_with_plutus_witness(&Voter::new_constitutional_committee_hot_credential(&Credential::from_scripthash(&w.plutus[0].hash())), &aid, &vp, &plutus_witness(w, 0, 0, RedeemerTag::new_vote(), 500 + i as u64, None)),
                // the same script as 5, voting in another role (DRep): two voters, one script hash
                6 => st.votes.add_with_plutus_witness(&Voter::new_drep_credential(&Credential::from_scripthash(&w.plutus[0].hash())), &aid, &vp, &plutus_witness(w, 0, 0, RedeemerTag::new_vote(), 500 + i as u64, None)),
                _ => st.votes.add_with_plutus_witness(&Voter::new_drep_credential(&Credential::from_scripthash(&w.plutus[2].hash())), &aid, &vp, &plutus_witness(w, 2, 0, RedeemerTag::new_vote(), 500 + i as u64, None)),
            };
            if r.is_err() {
                return false;
            }
            st.m.votes.push(i);
            if i == 7 {
                st.m.ref_plutus.push(2);
            }
            if i == 8 {
                st.m.ref_native_uses += 1;
            }
            st.m.last = Some(op);
            true
        }
        Op::Meta => {
            if st.m.meta {
                return false;
            }
            st.m.meta = true;
            true
        }
        Op::Ttl => {
            if st.m.ttl {
                return false;
            }
            st.m.ttl = true;
            true
        }
        Op::Treasury => {
            if st.m.treasury {
                return false;
            }
            st.m.treasury = true;
            true
        }
        Op::MintAndOutput => {
            if st.m.mint_and_output {
                return false;
            }
            st.m.mint_and_output = true;
            true
        }
        Op::Again => {
            let last = match st.m.last {
                Some(o) => o,
                None => return false,
            };
            if st.m.again >= 1 {
                return false;
            }
            // forget the item in the model so that the same code hands it to the real sub-builder again,
            // then put the model back: the content of the transaction is what it was
            let saved = st.m.clone();
            match last {
                Op::Proposal(i) => st.m.proposals.retain(|x| *x != i),
                Op::Cert(k) => st.m.certs.retain(|x| *x != k),
                Op::Vote(i) => st.m.votes.retain(|x| *x != i),
                Op::Coll(i) => st.m.collateral.retain(|x| *x != i),
                _ => return false,
            }
            let ok = apply(w, st, last);
            st.m = saved;
            if ok {
                st.m.again += 1;
            }
            ok
        }
        Op::MetaEmpty(i) => {
            if st.m.meta_empty.is_some() {
                return false;
            }
            st.m.meta_empty = Some(i);
            true
        }
        Op::MetaJson => {
            if st.m.meta_json {
                return false;
            }
            st.m.meta_json = true;
            true
        }
        Op::ExtraDatum(i) => {
            if st.m.extra_datums.contains(&i) {
                return false;
            }
            st.m.extra_datums.push(i);
            true
        }
    }
}

// ---------------------------------------------------------------------------------------------
// configurations and balancing methods

pub fn config(i: usize) -> (&'static str, Params) {
    let mut p = Params::mainnet();
    let name = match i {
        0 => "default",
        1 => {
            p.prefer_pure_change = true;
            "prefer_pure_change"
        }
        2 => {
            p.max_value_size = 100;
            "max_value_size=100"
        }
        3 => {
            p.coins_per_byte = 1;
            "coins_per_byte=1"
        }
        4 => {
            p.do_not_burn = true;
            "do_not_burn_extra_change"
        }
        5 => {
            p.dedup_ref_inputs = true;
            "deduplicate_explicit_ref_inputs"
        }
        6 => {
            p.change_kind = 1;
            p.prefer_pure_change = true;
            "byron-change-address,prefer_pure_change"
        }
        7 => {
            p.change_kind = 1;
            p.max_value_size = 100;
            "byron-change-address,max_value_size=100"
        }
        8 => {
            p.legacy_api = true;
            "older-entry-points"
        }
        9 => {
            p.churn = true;
            "set-remove-set"
        }
        11 => {
            // most transactions of the alphabet are larger than this once signed: building must refuse them
            p.max_tx_size = 340;
            "max_tx_size=340"
        }
        _ => {
            // the fee itself sits at the 2^16 boundary of its CBOR width: 65 200 + 1 per byte crosses
            // 65 535 | 65 536 at a size of 336 bytes, inside the range of the transactions built here
            p.fee_a = 1;
            p.fee_b = 65_200;
            "fee-at-the-2^16-width-boundary"
        }
    };
    (name, p)
}

#[derive(Clone, Copy, Debug, PartialEq)]
pub enum Method {
    Change,
    ChangeWithDatum,
    SelectThenChange(u8),
    SelectAndChange(u8),
    SelectAndChangeWithCollateralReturn(u8),
    /// add_change_if_needed; if that fails, add_inputs_from (largest first) and add_change_if_needed
    /// again on the same builder: a failed attempt must leave nothing behind
    ChangeRetry,
}

pub fn strategy(i: u8) -> CoinSelectionStrategyCIP2 {
    match i {
        0 => CoinSelectionStrategyCIP2::LargestFirst,
        1 => CoinSelectionStrategyCIP2::RandomImprove,
        2 => CoinSelectionStrategyCIP2::LargestFirstMultiAsset,
        _ => CoinSelectionStrategyCIP2::RandomImproveMultiAsset,
    }
}

pub struct Finish {
    pub tb: TransactionBuilder,
    pub setup_err: Option<String>,
    pub balance: Option<Result<bool, String>>,
    pub tx: Option<Result<Transaction, String>>,
    pub offered: Vec<usize>,
}

/// Build a TransactionBuilder for state `st` under `params` (no balancing yet).
pub fn setup(w: &World, st: &St, params: &Params) -> Result<TransactionBuilder, String> {
    let mut tb = TransactionBuilder::new(&params.config());
    // legacy mode: every component that the older entry points can express goes through them
    let legacy = params.legacy_api;
    // the per-item entry points take (address / key, outpoint, value): they cannot be told that a
    // UTxO carries a reference script, so a UTxO that does goes through the UTxO-level entry point
    let simple_inputs = st.m.inputs.iter().all(|(i, v)| (*v == 0 || matches!(w.utxos[*i].0.owner, Owner::Plutus(_))) && *i != SPENT_REF_SCRIPT_UTXO);
    // churn: everything that has a remove_* counterpart is first set to something else and removed
    // again; the builder must then behave as if it had never been set
    if params.churn {
        let mut cb = CertificatesBuilder::new();
        cb.add(&w.certs[1].cert).map_err(|e| format!("churn cert: {:?}", e))?;
        tb.set_certs_builder(&cb);
        tb.remove_certs();
        let mut wb = WithdrawalsBuilder::new();
        wb.add(&reward_key(3), &bn(77_000_000)).map_err(|e| format!("churn wd: {:?}", e))?;
        tb.set_withdrawals_builder(&wb);
        tb.remove_withdrawals();
        let mut mb = MintBuilder::new();
        mb.add_asset(&MintWitness::new_native_script(&NativeScriptSource::new(&w.native[0])), &w.names[0], &Int::new_i32(99)).map_err(|e| format!("churn mint: {:?}", e))?;
        tb.set_mint_builder(&mb);
        tb.remove_mint_builder();
        let mut md = GeneralTransactionMetadata::new();
        md.insert(&bn(1), &TransactionMetadatum::new_text("churn".into()).unwrap());
        tb.set_metadata(&md);
        tb.remove_auxiliary_data();
        tb.set_ttl_bignum(&bn(123_456_789_000));
        tb.remove_ttl();
        tb.set_validity_start_interval_bignum(bn(99));
        tb.remove_validity_start_interval();
        tb.set_script_data_hash(&ScriptDataHash::from_bytes(hash32(0xee)).unwrap());
        tb.remove_script_data_hash();
    }
    if legacy && simple_inputs {
        for (i, _) in &st.m.inputs {
            let (spec, u) = &w.utxos[*i];
            let (inp, val) = (u.input(), u.output().amount());
            match &spec.owner {
                Owner::Key(k) => {
                    // alternate between the two key-input entry points
                    if i % 2 == 0 {
                        tb.add_key_input(&kh(*k), &inp, &val)
                    } else {
                        tb.add_regular_input(&u.output().address(), &inp, &val).map_err(|e| format!("add_regular_input: {:?}", e))?
                    }
                }
                Owner::Byron(b) => tb.add_bootstrap_input(&crate::gen::byron_cached(*b as usize), &inp, &val),
                Owner::Native(n) => tb.add_native_script_input(&w.native[*n], &inp, &val),
                Owner::Plutus(p) => tb.add_plutus_script_input(&plutus_witness(w, *p, st.m.inputs.iter().find(|x| x.0 == *i).map(|x| x.1).unwrap_or(0), RedeemerTag::new_spend(), 100 + *i as u64, Some(*i % 3)), &inp, &val),
            }
        }
    } else {
        tb.set_inputs(&st.ib);
    }
    tb.set_collateral(&st.cb);
    for j in &st.m.outputs {
        tb.add_output(&w.outputs[*j]).map_err(|e| format!("add_output#{}: {:?}", j, e))?;
    }
    if !st.m.certs.is_empty() {
        if legacy && st.m.certs.iter().all(|k| w.certs[*k].script.is_none()) {
            tb.set_certs(&st.certs.build()).map_err(|e| format!("set_certs: {:?}", e))?;
        } else {
            tb.set_certs_builder(&st.certs);
        }
    }
    if !st.m.wds.is_empty() {
        if legacy && st.m.wds.iter().all(|i| matches!(i, 0 | 2 | 4)) {
            tb.set_withdrawals(&st.wds.build()).map_err(|e| format!("set_withdrawals: {:?}", e))?;
        } else {
            tb.set_withdrawals_builder(&st.wds);
        }
    }
    if !st.m.mint.is_empty() {
        if legacy && st.m.mint.keys().all(|k| k.0 == 0) {
            let mut ns = NativeScripts::new();
            ns.add(&w.native[0]);
            let mint = st.mint.build().map_err(|e| format!("mint build: {:?}", e))?;
            tb.set_mint(&mint, &ns).map_err(|e| format!("set_mint: {:?}", e))?;
        } else {
            tb.set_mint_builder(&st.mint);
        }
    }
    if !st.m.votes.is_empty() {
        tb.set_voting_builder(&st.votes);
    }
    if !st.m.proposals.is_empty() {
        tb.set_voting_proposal_builder(&st.props);
    }
    if let Some(d) = st.m.donation {
        tb.set_donation(&bn(d));
    }
    if let Some(r) = st.m.fee_req {
        match fee_request_value(r) {
            (true, v) => tb.set_fee(&bn(v)),
            (false, v) => tb.set_min_fee(&bn(v)),
        }
    }
    for k in &st.m.req_signers {
        tb.add_required_signer(&kh(*k));
    }
    for r in &st.m.ref_inputs {
        match r {
            0 => tb.add_reference_input(&op_outpoint(22)),
            1 => tb.add_script_reference_input(&op_outpoint(23), 30_000),
            // the caller knows that UTxO 1 carries a 20 000-byte reference script and declares it
            3 => tb.add_script_reference_input(&op_outpoint(1), 20_000),
            _ => tb.add_reference_input(&op_outpoint(0)),
        }
    }
    match st.m.meta_empty {
        Some(0) => tb.set_metadata(&GeneralTransactionMetadata::new()),
        Some(_) => tb.set_auxiliary_data(&AuxiliaryData::new()),
        None => {}
    }
    if st.m.meta {
        let mut md = GeneralTransactionMetadata::new();
        md.insert(&bn(674), &TransactionMetadatum::new_text("hello".into()).unwrap());
        tb.set_metadata(&md);
    }
    if st.m.meta_json {
        tb.add_json_metadatum(&bn(1), "{\"k\": [1, \"two\"]}".to_string()).map_err(|e| format!("add_json_metadatum: {:?}", e))?;
    }
    if st.m.ttl {
        tb.set_ttl_bignum(&bn(1 << 33));
        tb.set_validity_start_interval(7);
    }
    if st.m.treasury {
        tb.set_current_treasury_value(&bn(1_000_000_000_000)).map_err(|e| format!("set_current_treasury_value: {:?}", e))?;
    }
    if st.m.mint_and_output {
        let ob = TransactionOutputBuilder::new().with_address(&enterprise_addr(2)).next().map_err(|e| format!("output builder: {:?}", e))?;
        tb.add_mint_asset_and_output_min_required_coin(&w.native[0], &w.names[2], &Int::new_i32(7), &ob).map_err(|e| format!("add_mint_asset_and_output_min_required_coin: {:?}", e))?;
    }
    for d in &st.m.extra_datums {
        tb.add_extra_witness_datum(&w.datums[*d]);
    }
    Ok(tb)
}

pub fn fee_request_value(i: usize) -> (bool, u64) {
    match i {
        0 => (true, 200_000),
        1 => (true, 2_000_000),
        2 => (false, 100),
        3 => (false, 900_000),
        // 4, 5: requests on the scale of the scaled-down parameter sets of the leftover sweep
        4 => (true, 400),
        _ => (false, 330),
    }
}

pub fn has_plutus(w: &World, st: &St) -> bool {
    st.m.inputs.iter().any(|(i, _)| matches!(w.utxos[*i].0.owner, Owner::Plutus(_)))
        || st.m.mint.keys().any(|k| k.0 == 1 || k.0 == 3)
        || st.m.wds.contains(&3)
        || st.m.wds.contains(&5)
        || st.m.wds.contains(&7)
        || st.m.votes.contains(&7)
        || st.m.votes.contains(&4)
        || st.m.votes.contains(&5)
        || st.m.votes.contains(&6)
        || st.m.proposals.iter().any(|i| *i >= 3)
        || st.m.certs.iter().any(|k| w.certs[*k].script == Some(2))
}

/// The finish procedure: script data hash, balancing, script data hash again, build.
pub fn finish(w: &World, st: &St, params: &Params, method: Method, ctx: &mut Ctx, rng_free: bool) -> Finish {
    let mut out = Finish { tb: TransactionBuilder::new(&params.config()), setup_err: None, balance: None, tx: None, offered: vec![] };
    let tb = match guard(|| setup(w, st, params)) {
        Ok(Ok(tb)) => tb,
        Ok(Err(e)) => {
            out.setup_err = Some(e);
            return out;
        }
        Err(p) => {
            out.setup_err = Some(format!("PANIC {}:{} {}", p.file, p.line, p.msg));
            return out;
        }
    };
    out.tb = tb;
    let plutus = has_plutus(w, st) || !st.m.extra_datums.is_empty();
    if plutus {
        if let Err(e) = out.tb.calc_script_data_hash(&w.cost_models) {
            out.setup_err = Some(format!("calc_script_data_hash: {:?}", e));
            return out;
        }
    }
    // offered pool for selection: key-owned UTxOs not already inputs or collateral
    let mut pool = TransactionUnspentOutputs::new();
    for (i, (spec, u)) in w.utxos.iter().enumerate() {
        if matches!(spec.owner, Owner::Key(_)) && !st.m.inputs.iter().any(|x| x.0 == i) && !st.m.collateral.contains(&i) {
            pool.add(u);
            out.offered.push(i);
        }
    }
    let change = match params.change_kind {
        0 => w.change.clone(),
        // a Daedalus-style Byron address (derivation-path attribute): 76 bytes, longer than any Shelley address
        1 => {
            let r = crate::props::c11::RefByron { root: vec![0x3c; 28], payload: Some([vec![0x58, 0x1e], vec![0x77; 30]].concat()), magic: None, typ: 0 };
            ByronAddress::from_bytes(crate::props::c11::byron_bytes(&r)).expect("harness Byron address").to_address()
        }
        _ => enterprise_addr(3),
    };
    let cc = ChangeConfig::new(&change);
    let tbm = &mut out.tb;
    let res: Result<Result<bool, JsError>, crate::engine::PanicRec> = match method {
        Method::Change => guard(|| tbm.add_change_if_needed(&change)),
        Method::ChangeWithDatum => guard(|| tbm.add_change_if_needed_with_datum(&change, &OutputDatum::new_data_hash(&DataHash::from_bytes(hash32(0xcd)).unwrap()))),
        Method::SelectThenChange(s) => {
            let r = with_rng(ctx, rng_free, || guard(|| tbm.add_inputs_from(&pool, strategy(s))));
            match r {
                Ok(Ok(())) => {
                    if plutus {
                        let _ = tbm.calc_script_data_hash(&w.cost_models);
                    }
                    guard(|| tbm.add_change_if_needed(&change))
                }
                Ok(Err(e)) => Ok(Err(e)),
                Err(p) => Err(p),
            }
        }
        Method::SelectAndChange(s) => with_rng(ctx, rng_free, || guard(|| tbm.add_inputs_from_and_change(&pool, strategy(s), &cc))),
        Method::ChangeRetry => match guard(|| tbm.add_change_if_needed(&change)) {
            Ok(Err(_)) => {
                ctx.hit("retry:first-attempt-failed");
                let r = with_rng(ctx, rng_free, || guard(|| tbm.add_inputs_from(&pool, strategy(0))));
                match r {
                    Ok(Ok(())) => {
                        if plutus {
                            let _ = tbm.calc_script_data_hash(&w.cost_models);
                        }
                        let r2 = guard(|| tbm.add_change_if_needed(&change));
                        if let Ok(Ok(_)) = &r2 {
                            ctx.hit("retry:second-attempt-succeeded");
                        }
                        r2
                    }
                    Ok(Err(e)) => Ok(Err(e)),
                    Err(p) => Err(p),
                }
            }
            other => other,
        },
        Method::SelectAndChangeWithCollateralReturn(s) => with_rng(ctx, rng_free, || guard(|| tbm.add_inputs_from_and_change_with_collateral_return(&pool, strategy(s), &cc, &bn(150)).map(|_| true))),
    };
    match res {
        Err(p) => {
            out.balance = Some(Err(format!("PANIC {}:{} {}", p.file, p.line, p.msg)));
            return out;
        }
        Ok(Err(e)) => {
            out.balance = Some(Err(format!("{:?}", e)));
            return out;
        }
        Ok(Ok(b)) => out.balance = Some(Ok(b)),
    }
    if plutus {
        // inputs may have been added by the selection: recompute (precondition of C09)
        let _ = out.tb.calc_script_data_hash(&w.cost_models);
    }
    let tbr = &out.tb;
    out.tx = Some(match guard(|| tbr.build_tx()) {
        Ok(Ok(tx)) => Ok(tx),
        Ok(Err(e)) => Err(format!("{:?}", e)),
        Err(p) => Err(format!("PANIC {}:{} {}", p.file, p.line, p.msg)),
    });
    out
}

// ---------------------------------------------------------------------------------------------
// what the ledger needs signed (witsVKeyNeeded) for a parsed transaction of this world

pub struct Needed {
    pub keys: BTreeSet<Vec<u8>>,
    pub byron: BTreeSet<Vec<u8>>,
}

pub fn needed_signers(w: &World, st: &St, t: &PTx) -> Result<Needed, String> {
    let mut n = Needed { keys: BTreeSet::new(), byron: BTreeSet::new() };
    let mut native_in_use: Vec<usize> = vec![];
    for op in t.inputs.iter().chain(t.collateral.iter()) {
        let i = w.lookup(op).ok_or(format!("outpoint {}#{} not in the table", hx(&op.0[..4]), op.1))?;
        match &w.utxos[i].0.owner {
            Owner::Key(k) => {
                n.keys.insert(kh_bytes(*k));
            }
            Owner::Byron(_) => {
                n.byron.insert(w.utxos[i].1.output().address().to_bytes());
            }
            Owner::Native(s) => native_in_use.push(*s),
            Owner::Plutus(_) => {}
        }
    }
    for (ra, _) in &t.withdrawals {
        if ra[0] & 0x10 == 0 {
            n.keys.insert(ra[1..].to_vec());
        }
    }
    for c in &t.certs {
        for k in ledger::cert_signers(c) {
            n.keys.insert(k);
        }
    }
    for (kind, h) in &t.voters {
        if matches!(kind, 0 | 2 | 4) {
            n.keys.insert(h.clone());
        }
    }
    for k in &t.required_signers {
        n.keys.insert(k.clone());
    }
    // native scripts in use: those in the witness set, and those used by reference
    for s in &t.native_scripts {
        for k in ledger::native_script_keys(s) {
            n.keys.insert(k);
        }
    }
    for (i, variant) in &st.m.inputs {
        if let Owner::Native(s) = &w.utxos[*i].0.owner {
            // by reference: the signers are what the caller declared for that input
            if *variant >= 1 {
                for k in declared_native_signers(w, *s, *variant) {
                    n.keys.insert(k);
                }
            }
        }
    }
    if st.m.ref_native_uses > 0 {
        // a native script used by reference outside the inputs: its declared signers (all keys it names)
        for k in declared_native_signers(w, 0, 1) {
            n.keys.insert(k);
        }
    }
    let _ = native_in_use;
    Ok(n)
}

/// total size of reference scripts the ledger charges for: distinct outpoints among inputs and
/// reference inputs that hold a script (sizes as declared by the scenario's table)
pub fn ref_script_total(t: &PTx, st: &St) -> u64 {
    let mut seen: BTreeSet<(Vec<u8>, u64)> = BTreeSet::new();
    let mut total = 0u64;
    for op in t.inputs.iter().chain(t.reference_inputs.iter()) {
        if !seen.insert(op.clone()) {
            continue;
        }
        if *op == op_outpoint_key(REF_SCRIPT_OUTPOINT) {
            total += REF_SCRIPT_SIZE as u64;
        } else if *op == op_outpoint_key(REF_SCRIPT_OUTPOINT + 1) {
            total += 40;
        } else if *op == op_outpoint_key(23) {
            total += 30_000;
        } else if *op == utxo_outpoint_key(SPENT_REF_SCRIPT_UTXO) {
            total += SPENT_REF_SCRIPT_SIZE as u64;
        } else if *op == op_outpoint_key(1) && st.m.ref_inputs.contains(&3) {
            total += 20_000;
        }
    }
    total
}

pub fn fee_params(p: &Params) -> FeeParams {
    FeeParams { a: p.fee_a, b: p.fee_b, price_mem: p.ex_prices.map(|x| x.0).unwrap_or((0, 1)), price_steps: p.ex_prices.map(|x| x.1).unwrap_or((0, 1)), ref_price: p.ref_script_price.unwrap_or((0, 1)) }
}

// ---------------------------------------------------------------------------------------------
// per-property op alphabets

pub fn ops_for(prop: &str) -> Vec<Op> {
    match prop {
        "C05" | "C06" | "C07" | "C03" => vec![
            Op::In(0, 0), Op::In(1, 0), Op::In(2, 0), Op::In(3, 0), Op::In(4, 0), Op::In(5, 0), Op::In(6, 0), Op::In(9, 0),
            Op::Out(0), Op::Out(1), Op::Out(2), Op::Out(3), Op::Out(4),
            Op::Cert(0), Op::Cert(1), Op::Cert(2), Op::Cert(3), Op::Cert(7), Op::Cert(8), Op::Cert(13), Op::Cert(15), Op::Cert(20),
            Op::Wd(0), Op::Wd(2), Op::Mint(0), Op::Mint(1), Op::Mint(3), Op::Proposal(0), Op::Donate,
            Op::Fee(0), Op::Fee(1), Op::Fee(2), Op::Fee(3), Op::Coll(1), Op::Meta, Op::RefIn(1), Op::RefIn(3),
            Op::WdAgain(0), Op::WdAgain(2), Op::Wd(4), Op::InAgain(0), Op::In(7, 0), Op::In(7, 1), Op::In(8, 0), Op::In(17, 0),
            Op::Ttl, Op::Treasury, Op::MintAndOutput, Op::MetaJson, Op::ExtraDatum(1), Op::ExtraDatum(0), Op::ExtraDatum(4), Op::MetaEmpty(0), Op::MetaEmpty(1),
            Op::In(18, 0), Op::Mint(6), Op::Mint(5), Op::In(19, 0), Op::Wd(6), Op::In(20, 0), Op::Again, Op::Coll(3), Op::Coll(4), Op::Wd(7), Op::Wd(8), Op::Cert(4),
        ],
        // C16 looks at ordering and repetition in the built transaction: items that bring scripts,
        // datums, reference inputs, signers - one or two per source
        "C16" => vec![
            Op::In(0, 0), Op::In(6, 0), Op::In(6, 1), Op::In(10, 0), Op::In(16, 1), Op::In(7, 0), Op::In(7, 1), Op::In(14, 0), Op::In(8, 2), Op::In(11, 0),
            Op::Out(0), Op::Out(1), Op::Coll(1), Op::Cert(5), Op::Cert(25), Op::Wd(1), Op::Wd(3), Op::Vote(3), Op::Vote(4),
            Op::Mint(0), Op::Mint(2), Op::ReqSigner(3), Op::RefIn(0), Op::RefIn(1), Op::RefIn(2), Op::ExtraDatum(0), Op::ExtraDatum(1), Op::ExtraDatum(3),
        ],
        "C18" => vec![
            Op::In(0, 0), Op::In(2, 0), Op::In(1, 0), Op::In(5, 0), Op::In(13, 0), Op::In(12, 0), Op::In(6, 0), Op::In(6, 1), Op::In(10, 0), Op::In(10, 2), Op::In(16, 3), Op::In(16, 1), Op::In(7, 0), Op::In(7, 1), Op::In(7, 4), Op::In(11, 0), Op::In(8, 0), Op::In(8, 2), Op::In(14, 0), Op::In(14, 4), Op::In(17, 0), Op::In(17, 1),
            Op::Out(0), Op::Coll(1), Op::Coll(0), Op::Cert(5), Op::Cert(7), Op::Cert(8), Op::Cert(6), Op::Cert(13), Op::Cert(25), Op::Cert(27),
            Op::Wd(0), Op::Wd(1), Op::Wd(3), Op::Wd(4), Op::Wd(6), Op::Wd(7), Op::Wd(8), Op::Cert(4), Op::Vote(0), Op::Vote(1), Op::Vote(2), Op::Vote(3), Op::Vote(4), Op::Vote(7), Op::Vote(8),
            Op::Mint(0), Op::Mint(2), Op::Mint(7), Op::ReqSigner(3), Op::ReqSigner(0), Op::RefIn(0), Op::RefIn(1), Op::RefIn(2), Op::ExtraDatum(0), Op::ExtraDatum(1), Op::ExtraDatum(3), Op::Meta,
        ],
        "C09" | "C10" => vec![
            Op::In(0, 0), Op::In(7, 0), Op::In(7, 1), Op::In(8, 0), Op::In(11, 0), Op::In(6, 0), Op::In(2, 0), Op::In(14, 0), Op::In(14, 2), Op::In(14, 4), Op::In(15, 0), Op::In(15, 1), Op::In(8, 3),
            Op::Mint(0), Op::Mint(5), Op::Mint(2), Op::Mint(4), Op::Cert(25), Op::Cert(5), Op::Cert(26), Op::Cert(16), Op::Cert(27), Op::Wd(0), Op::Wd(1), Op::Wd(3), Op::Wd(5), Op::Wd(7), Op::Mint(7), Op::Vote(7), Op::Vote(1), Op::Vote(3), Op::Vote(4), Op::Vote(5), Op::Vote(6),
            Op::Proposal(0), Op::Proposal(3), Op::Proposal(4), Op::MetaEmpty(0), Op::MetaEmpty(1),
            Op::ExtraDatum(0), Op::ExtraDatum(1), Op::ExtraDatum(3), Op::Meta, Op::Out(0),
        ],
        _ => vec![],
    }
}

/// the alphabet of the depth-4 pass of the thorough tier (C05 group): one representative per
/// mechanism; the full alphabet is explored to depth 3
pub fn core_ops_for(prop: &str) -> Vec<Op> {
    match prop {
        "C05" | "C06" | "C07" | "C03" => vec![
            Op::In(0, 0), Op::In(1, 0), Op::In(2, 0), Op::In(3, 0), Op::In(4, 0), Op::In(5, 0), Op::In(6, 0), Op::In(9, 0), Op::In(7, 0),
            Op::Out(0), Op::Out(1), Op::Out(2), Op::Out(3), Op::Out(4),
            Op::Cert(0), Op::Cert(3), Op::Cert(7), Op::Cert(13), Op::Cert(20),
            Op::Wd(0), Op::Wd(2), Op::WdAgain(0), Op::Wd(4), Op::Mint(0), Op::Mint(1), Op::Mint(3), Op::Proposal(0), Op::Donate,
            Op::Fee(0), Op::Fee(2), Op::Coll(1), Op::RefIn(3), Op::MintAndOutput, Op::ExtraDatum(1), Op::ExtraDatum(4), Op::In(18, 0), Op::Mint(6), Op::In(19, 0), Op::Again, Op::Coll(3),
        ],
        "C18" => vec![
            Op::In(0, 0), Op::In(2, 0), Op::In(5, 0), Op::In(13, 0), Op::In(12, 0), Op::In(6, 0), Op::In(6, 1), Op::In(10, 2), Op::In(16, 3), Op::In(7, 0), Op::In(7, 1), Op::In(7, 4), Op::In(11, 0), Op::In(8, 2), Op::In(14, 0), Op::In(17, 0),
            Op::Coll(1), Op::Coll(0), Op::Cert(5), Op::Cert(7), Op::Cert(25), Op::Cert(27), Op::Wd(0), Op::Wd(1), Op::Wd(3), Op::Wd(4), Op::Wd(6), Op::Vote(2), Op::Vote(3), Op::Vote(4),
            Op::Mint(0), Op::Mint(2), Op::ReqSigner(3), Op::ReqSigner(0), Op::RefIn(1), Op::RefIn(2), Op::ExtraDatum(0), Op::ExtraDatum(1),
        ],
        "C09" | "C10" => vec![
            Op::In(0, 0), Op::In(7, 0), Op::In(7, 1), Op::In(14, 0), Op::In(14, 2), Op::In(8, 0), Op::In(11, 0),
            Op::Mint(0), Op::Mint(5), Op::Mint(2), Op::Mint(4), Op::Cert(25), Op::Cert(16), Op::Wd(1), Op::Wd(3), Op::Wd(5), Op::Wd(7), Op::Mint(7), Op::Vote(7), Op::Vote(4), Op::Vote(5), Op::Vote(6),
            Op::Proposal(3), Op::Proposal(4), Op::ExtraDatum(0), Op::ExtraDatum(3),
        ],
        _ => ops_for(prop),
    }
}

/// every operation of every property's alphabet: an item that one property's alphabet holds and a
/// sibling's does not (a zero withdrawal, a cancelling mint, a second script voter) is exactly where a
/// change slips through, so each builder property also explores the union to a small depth
pub fn union_ops() -> Vec<Op> {
    let mut v: Vec<Op> = Vec::new();
    for p in ["C05", "C16", "C18", "C09"] {
        for op in ops_for(p) {
            if !v.contains(&op) {
                v.push(op);
            }
        }
    }
    v
}

pub fn union_ops_for(prop: &str) -> Vec<Op> {
    let mut v = union_ops();
    if prop == "C03" {
        // datum 3 is decoded from a non-minimal encoding and kept verbatim by design (C04): it is not a
        // value of the typed API, and the shortest-form rule of C03 does not apply to it
        v.retain(|op| *op != Op::ExtraDatum(3));
    }
    v
}

pub fn methods_for(prop: &str, tier: Tier) -> Vec<Method> {
    match prop {
        "C05" | "C06" | "C07" | "C03" => {
            let mut v = vec![Method::Change, Method::SelectThenChange(0), Method::SelectAndChange(1), Method::SelectAndChange(2), Method::SelectAndChangeWithCollateralReturn(0), Method::ChangeRetry];
            if tier.thorough() {
                v.extend([Method::ChangeWithDatum, Method::SelectAndChange(0), Method::SelectAndChange(3), Method::SelectThenChange(3)]);
            }
            v
        }
        _ => vec![Method::Change, Method::SelectAndChange(0)],
    }
}

pub fn configs_for(prop: &str, tier: Tier) -> Vec<usize> {
    match prop {
        "C05" | "C06" | "C07" | "C03" => {
            if tier.thorough() {
                vec![0, 1, 2, 3, 4, 5, 6, 7, 8, 9, 10, 11]
            } else {
                vec![0, 1, 2, 3, 5, 6, 8, 9, 10, 11]
            }
        }
        "C18" => vec![0, 5, 8],
        "C16" => vec![0, 5],
        _ => vec![0],
    }
}

pub fn depth_for(prop: &str, tier: Tier) -> usize {
    match (prop, tier.thorough()) {
        // quick: the full alphabet to depth 2 plus the deep pass (depth 3, core alphabet)
        ("C05", false) | ("C06", false) | ("C07", false) | ("C03", false) => 2,
        // thorough: the full alphabet to depth 3 under all methods and configurations, plus the deep pass (depth 4, core alphabet)
        ("C05", true) | ("C06", true) | ("C07", true) | ("C03", true) => 3,
        // C18: the full alphabet to depth 3 (thorough 4) plus the deep pass over a 36-operation core alphabet
        ("C18", false) => 3,
        ("C18", true) => 4,
        ("C16", false) => 4,
        ("C16", true) => 5,
        // C09 / C10: plus the deep pass (one level deeper over a 22-operation core alphabet)
        (_, false) => 4,
        (_, true) => 5,
    }
}

// ---------------------------------------------------------------------------------------------
// the scenario

pub fn replay_history(w: &World, ctx: &mut Ctx, ops: &[Op], base: &[Op]) -> Option<(St, Vec<Op>)> {
    let mut st = St::new();
    let mut hist = Vec::new();
    for op in base {
        if !apply(w, &mut st, *op) {
            crate::engine::machinery("base operation not applicable");
        }
    }
    while let Some(i) = ctx.next_op(ops.len()) {
        let op = ops[i];
        let ok = guard(|| apply(w, &mut st, op));
        match ok {
            Ok(true) => hist.push(op),
            Ok(false) => {
                ctx.prune();
                return None;
            }
            Err(p) => {
                ctx.violation(panic_sig("C05", &format!("builder op {:?}", op), &p), p.msg.clone());
                ctx.prune();
                return None;
            }
        }
    }
    Some((st, hist))
}

/// Debug rendering without the `dedup: {..}` hash sets (membership indexes of the set types:
/// std HashSets whose iteration order is random and which carry no information of their own)
fn strip_dedup(s: &str) -> String {
    let mut out = String::with_capacity(s.len());
    let b = s.as_bytes();
    let mut i = 0;
    let pat = b"dedup: {";
    while i < b.len() {
        if b[i..].starts_with(pat) {
            let mut depth = 1;
            let mut j = i + pat.len();
            while j < b.len() && depth > 0 {
                match b[j] {
                    b'{' => depth += 1,
                    b'}' => depth -= 1,
                    _ => {}
                }
                j += 1;
            }
            out.push_str("dedup: _");
            i = j;
        } else {
            out.push(b[i] as char);
            i += 1;
        }
    }
    out
}

pub fn state_key(st: &St) -> u128 {
    let s = format!("{:?}|{:?}|{:?}|{:?}|{:?}|{:?}|{:?}|{:?}", st.ib, st.cb, st.certs, st.wds, st.mint, st.votes, st.props, st.m);
    key128(strip_dedup(&s).as_bytes())
}

pub fn builder_scenario(prop: &'static str, tier: Tier, deep: bool) -> BoxedScenario {
    builder_scenario_over(prop, tier, deep, if deep { core_ops_for(prop) } else { ops_for(prop) })
}

pub fn builder_scenario_over(prop: &'static str, tier: Tier, deep: bool, ops: Vec<Op>) -> BoxedScenario {
    // deep pass: core alphabet with the quick tier's finishing methods and configurations
    let methods = methods_for(prop, if deep { Tier::Quick } else { tier });
    let configs = configs_for(prop, if deep { Tier::Quick } else { tier });
    Box::new(move |ctx: &mut Ctx| {
        WORLD.with(|w| {
            // Plutus items only build with collateral: for the pointer / hash properties it is
            // part of the initial state rather than an operation
            let base: &[Op] = if prop == "C09" || prop == "C10" { &[Op::Coll(1)] } else { &[] };
            let (st, hist) = match replay_history(w, ctx, &ops, base) {
                Some(x) => x,
                None => return,
            };
            if ctx.state_key(state_key(&st)) {
                return;
            }
            let mi = ctx.choose_free(methods.len());
            let ci = ctx.choose_free(configs.len());
            let method = methods[mi];
            let (cname, params) = config(configs[ci]);
            ctx.set_sample(|| format!("history {:?} ; finish {:?} under {}", hist, method, cname));
            ctx.observe(&(format!("{:?}", hist), mi, ci));
            let fin = finish(w, &st, &params, method, ctx, false);
            crate::props::builder_oracles::judge(prop, ctx, w, &st, &hist, &params, cname, method, &fin);
        })
    })
}

// ---------------------------------------------------------------------------------------------
// the leftover sweep: one shape, the input coin swept across every threshold of the change logic

thread_local! {
    static SWEEP_WORLD: std::cell::RefCell<World> = std::cell::RefCell::new(World::new());
}

/// parameter sets of the sweep: mainnet scale (thresholds hundreds of thousands of lovelace apart,
/// swept in steps) and a scaled-down set (1 lovelace per byte for fee and min-ADA, no constant:
/// every threshold lies within a few hundred lovelace, swept in steps of ONE)
pub fn sweep_config(i: usize) -> (&'static str, Params, bool) {
    let mut p = Params::mainnet();
    let tiny = i >= 3;
    if tiny {
        p.fee_a = 1;
        p.fee_b = 0;
        p.coins_per_byte = 1;
    }
    let name = match i % 3 {
        0 => {
            if tiny { "scaled-down" } else { "mainnet" }
        }
        1 => {
            p.prefer_pure_change = true;
            if tiny { "scaled-down,prefer_pure_change" } else { "mainnet,prefer_pure_change" }
        }
        _ => {
            p.do_not_burn = true;
            if tiny { "scaled-down,do_not_burn_extra_change" } else { "mainnet,do_not_burn_extra_change" }
        }
    };
    (name, p, tiny)
}

pub const SWEEP_TINY_RANGE: usize = 1600;
pub const SWEEP_MAIN_RANGE: u64 = 2_700_000;

pub fn leftover_sweep_scenario(prop: &'static str, tier: Tier) -> BoxedScenario {
    let step: u64 = if tier.thorough() { 29 } else { 389 };
    let methods: Vec<Method> = if tier.thorough() { vec![Method::Change, Method::ChangeWithDatum] } else { vec![Method::Change] };
    Box::new(move |ctx: &mut Ctx| {
        // the swept input: pure ADA at a base address / ADA + one asset / ADA + a three-policy bundle
        let k = [0usize, 3, 4][ctx.choose_free(3)];
        // requested output: 1 ADA / 1.5 ADA + 3 units of an asset both asset inputs hold
        let oi = ctx.choose_free(2);
        if oi == 1 && k == 0 {
            return;
        }
        let ci = ctx.choose_free(6);
        let (cname, params, tiny) = sweep_config(ci);
        // fee request: none / exact / lower bound below / lower bound above the computed fee (on the scale of the set)
        let fi = ctx.choose_free(4);
        let fee_op = match (fi, tiny) {
            (0, _) => None,
            (1, false) => Some(Op::Fee(0)),
            (2, false) => Some(Op::Fee(2)),
            (3, false) => Some(Op::Fee(3)),
            (1, true) => Some(Op::Fee(4)),
            (2, true) => Some(Op::Fee(2)),
            _ => Some(Op::Fee(5)),
        };
        let mi = ctx.choose_free(methods.len());
        let method = methods[mi];
        let n = if tiny { SWEEP_TINY_RANGE } else { (SWEEP_MAIN_RANGE / step) as usize + 1 };
        let idx = ctx.choose_free(n) as u64;
        let leftover = if tiny { idx } else { idx * step };
        let out_coin: u64 = if oi == 0 { 1_000_000 } else { 1_500_000 };
        let coin = out_coin + leftover;
        SWEEP_WORLD.with(|cell| {
            let mut wm = cell.borrow_mut();
            wm.set_utxo_coin(k, coin);
            let w: &World = &wm;
            let mut st = St::new();
            let mut hist = vec![Op::In(k, 0), Op::Out(oi)];
            if let Some(f) = fee_op {
                hist.push(f);
            }
            for op in &hist {
                match guard(|| apply(w, &mut st, *op)) {
                    Ok(true) => {}
                    _ => return,
                }
            }
            ctx.set_sample(|| format!("swept input {} with coin {} (leftover {} over the requested {}) ; history {:?} ; finish {:?} under {}", k, coin, leftover, out_coin, hist, method, cname));
            ctx.observe(&(k, oi, ci, fi, mi, coin));
            let fin = finish(w, &st, &params, method, ctx, false);
            if tiny {
                ctx.hit("sweep:scaled-down-parameters");
            }
            crate::props::builder_oracles::judge(prop, ctx, w, &st, &hist, &params, cname, method, &fin);
        })
    })
}

pub fn scenario_for(prop: &str, name: &str, tier: Tier) -> Option<BoxedScenario> {
    let stat: &'static str = match prop {
        "C03" => "C03",
        "C05" => "C05",
        "C06" => "C06",
        "C07" => "C07",
        "C09" => "C09",
        "C10" => "C10",
        "C16" => "C16",
        "C18" => "C18",
        _ => return None,
    };
    match name {
        "builder" => Some(builder_scenario(stat, tier, false)),
        "builder_deep" => Some(builder_scenario(stat, tier, true)),
        "builder_union" => Some(builder_scenario_over(stat, tier, true, union_ops_for(stat))),
        "leftover_sweep" if matches!(stat, "C05" | "C06" | "C07") => Some(leftover_sweep_scenario(stat, tier)),
        _ => None,
    }
}

pub fn explore_for(prop: &str, tier: Tier, seed: u64, rep: &mut Report) {
    let f = match scenario_for(prop, "builder", tier) {
        Some(f) => f,
        None => return,
    };
    let ops = ops_for(prop);
    let depth = depth_for(prop, tier);
    // RNG answers: at most one deviation from the default answer per finish (C08 explores them all)
    let opts = Opts::new(seed).bound(1);
    let st = bfs("builder", &*f, ops.len(), depth, &opts);
    rep.bound("builder_ops", serde_json::json!(ops.iter().map(op_name).collect::<Vec<_>>()));
    rep.bound("builder_history_depth", serde_json::json!(depth));
    rep.bound("builder_methods", serde_json::json!(methods_for(prop, tier).iter().map(|m| format!("{:?}", m)).collect::<Vec<_>>()));
    rep.bound("builder_configs", serde_json::json!(configs_for(prop, tier).iter().map(|c| config(*c).0).collect::<Vec<_>>()));
    rep.add("builder (BFS over operation histories)", &format!("all histories to depth {} with canonical-state dedup; every (method x config) in every state; RNG <= 1 deviation", depth), st);
    {
        let f = scenario_for(prop, "builder_union", tier).unwrap();
        let uni = union_ops_for(prop);
        let d = if tier.thorough() && !matches!(prop, "C05" | "C06" | "C07" | "C03") { 3 } else { 2 };
        let st = bfs("builder_union", &*f, uni.len(), d, &opts);
        rep.bound("builder_union_ops", serde_json::json!(uni.len()));
        rep.bound("builder_union_history_depth", serde_json::json!(d));
        rep.add("builder_union (BFS over the union of all builder alphabets)", &format!("all histories to depth {} over the {} operations of all builder properties together; quick tier's methods and configurations", d, uni.len()), st);
    }
    if matches!(prop, "C05" | "C06" | "C07") {
        let f = scenario_for(prop, "leftover_sweep", tier).unwrap();
        let st = crate::engine::explore("leftover_sweep", &*f, &Opts::new(seed));
        rep.bound("leftover_sweep", serde_json::json!({"inputs": ["pure ADA", "ADA + 1 asset", "ADA + 3-policy bundle"], "outputs": ["1 ADA", "1.5 ADA + asset"], "parameter_sets": (0..6).map(|i| sweep_config(i).0).collect::<Vec<_>>(), "fee_requests": ["none", "exact", "lower bound below", "lower bound above"], "mainnet_scale": format!("leftover 0..={} in steps of {}", SWEEP_MAIN_RANGE, if tier.thorough() { 29 } else { 389 }), "scaled_down": format!("leftover 0..{} in steps of 1", SWEEP_TINY_RANGE)}));
        rep.add("leftover_sweep (one shape, input coin swept across every change / burn / min-ADA threshold)", "full product", st);
    }
    if matches!(prop, "C05" | "C06" | "C07" | "C03" | "C09" | "C10" | "C18") {
        let f = scenario_for(prop, "builder_deep", tier).unwrap();
        let core = core_ops_for(prop);
        let st = bfs("builder_deep", &*f, core.len(), depth + 1, &opts);
        rep.bound("builder_deep_ops", serde_json::json!(core.iter().map(op_name).collect::<Vec<_>>()));
        rep.bound("builder_deep_history_depth", serde_json::json!(depth + 1));
        rep.add("builder_deep (BFS over the core alphabet)", &format!("all histories to depth {} over the core alphabet; quick tier's methods and configurations", depth + 1), st);
    }
}
