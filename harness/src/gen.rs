//! Chooser-driven generators for the public CBOR/JSON types (C01, C02 seeds, C03, C17).
//!
//! Every generator asks `ctx.choose` for variant, presence of each optional field, width class
//! of each integer and collection size; choice 0 is always the simplest alternative. Whenever a
//! value of a codec type has been generated it is handed to `visit`, which applies the oracle of
//! the property currently running (selected through a thread-local mode) - so every nested type
//! is also exercised through its own from_bytes/to_bytes entry points.

use crate::alphabet::W;
use crate::engine::Ctx;
use crate::fx::*;
use crate::util::*;
use cardano_serialization_lib as csl;
use csl::*;
use std::cell::{Cell, RefCell};

pub trait Codec: Sized + Clone + std::fmt::Debug {
    fn same(&self, o: &Self) -> bool;
    const NAME: &'static str;
    const HAS_JSON: bool;
    fn enc(&self) -> Vec<u8>;
    fn dec(b: Vec<u8>) -> Result<Self, String>;
    fn enc_hex(&self) -> String;
    fn dec_hex(s: &str) -> Result<Self, String>;
    fn to_json_(&self) -> Result<String, String> {
        Err("no json".into())
    }
    fn from_json_(_s: &str) -> Result<Self, String> {
        Err("no json".into())
    }
}

macro_rules! codec {
    ($($t:ident),* $(,)?) => { $(
        impl Codec for $t {
            const NAME: &'static str = stringify!($t);
            const HAS_JSON: bool = true;
            fn same(&self, o: &Self) -> bool { self == o }
            fn enc(&self) -> Vec<u8> { self.to_bytes() }
            fn dec(b: Vec<u8>) -> Result<Self, String> { $t::from_bytes(b).map_err(|e| format!("{:?}", e)) }
            fn enc_hex(&self) -> String { self.to_hex() }
            fn dec_hex(s: &str) -> Result<Self, String> { $t::from_hex(s).map_err(|e| format!("{:?}", e)) }
            fn to_json_(&self) -> Result<String, String> { self.to_json().map_err(|e| format!("{:?}", e)) }
            fn from_json_(s: &str) -> Result<Self, String> { $t::from_json(s).map_err(|e| format!("{:?}", e)) }
        }
    )* };
}
macro_rules! codec_nj {
    ($($t:ident),* $(,)?) => { $(
        impl Codec for $t {
            const NAME: &'static str = stringify!($t);
            const HAS_JSON: bool = false;
            fn same(&self, o: &Self) -> bool { self == o }
            fn enc(&self) -> Vec<u8> { self.to_bytes() }
            fn dec(b: Vec<u8>) -> Result<Self, String> { $t::from_bytes(b).map_err(|e| format!("{:?}", e)) }
            fn enc_hex(&self) -> String { self.to_hex() }
            fn dec_hex(s: &str) -> Result<Self, String> { $t::from_hex(s).map_err(|e| format!("{:?}", e)) }
        }
    )* };
}

codec!(
    UnitInterval, Transaction, TransactionOutputs, TransactionOutput, Ipv4, Ipv6, URL, DNSRecordAorAAAA, DNSRecordSRV, SingleHostAddr, SingleHostName,
    MultiHostName, Relay, PoolMetadata, RewardAddresses, Withdrawals, Update, GenesisHashes, ScriptHashes, ProposedProtocolParameterUpdates, ProtocolVersion,
    AssetName, AssetNames, Assets, MultiAsset, Mint, NetworkId, Block, Header, HeaderBody, OperationalCert, TransactionBodies, VersionedBlock, Certificate,
    Certificates, CommitteeColdResign, CommitteeHotAuth, DRepDeregistration, DRepRegistration, DRepUpdate, GenesisKeyDelegation, MoveInstantaneousRewardsCert,
    MIRToStakeCredentials, MoveInstantaneousReward, PoolRegistration, Relays, PoolParams, PoolRetirement, StakeAndVoteDelegation, StakeDelegation,
    StakeDeregistration, StakeRegistration, StakeRegistrationAndDelegation, StakeVoteRegistrationAndDelegation, VoteDelegation, VoteRegistrationAndDelegation,
    Credential, Credentials, Nonce, Vkey, VRFCert, Ed25519KeyHashes, Anchor, DRep, GovernanceActionId, Committee, Constitution, GovernanceAction,
    HardForkInitiationAction, NewConstitutionAction, NoConfidenceAction, ParameterChangeAction, TreasuryWithdrawalsAction, UpdateCommitteeAction, VotingProposal,
    VotingProposals, Voter, VotingProcedure, VotingProcedures, GeneralTransactionMetadata, AuxiliaryData, NativeScript, ScriptPubkey, ScriptAll, ScriptAny,
    ScriptNOfK, TimelockStart, TimelockExpiry, NativeScripts, BigInt, BigNum, Int, CostModel, Costmdls, ExUnitPrices, ExUnits, Language, Redeemer,
    RedeemerTag, Redeemers, PoolVotingThresholds, DRepVotingThresholds, ProtocolParamUpdate, ScriptRef, TransactionBody, TransactionInput, TransactionInputs,
    BootstrapWitness, BootstrapWitnesses, TransactionWitnessSet, TransactionWitnessSets, Vkeywitness, Vkeywitnesses, Value,
);
codec_nj!(Ed25519KeyHash, ScriptHash, TransactionHash, DataHash, AuxiliaryDataHash, MetadataMap, MetadataList, TransactionMetadatum, TransactionMetadatumLabels, ConstrPlutusData, PlutusMap, PlutusData, PlutusList);

// The wire form of a stand-alone Plutus script (list) is the bare script bytes: the language is
// carried by the context (witness-set key, script_ref tag), so stand-alone decoding is compared on
// the bytes and the enclosing types check the language.
impl Codec for PlutusScript {
    const NAME: &'static str = "PlutusScript";
    const HAS_JSON: bool = false;
    fn same(&self, o: &Self) -> bool {
        self.bytes() == o.bytes()
    }
    fn enc(&self) -> Vec<u8> {
        self.to_bytes()
    }
    fn dec(b: Vec<u8>) -> Result<Self, String> {
        PlutusScript::from_bytes(b).map_err(|e| format!("{:?}", e))
    }
    fn enc_hex(&self) -> String {
        self.to_hex()
    }
    fn dec_hex(s: &str) -> Result<Self, String> {
        PlutusScript::from_hex(s).map_err(|e| format!("{:?}", e))
    }
}
impl Codec for PlutusScripts {
    const NAME: &'static str = "PlutusScripts";
    const HAS_JSON: bool = true;
    fn same(&self, o: &Self) -> bool {
        self.len() == o.len() && (0..self.len()).all(|i| self.get(i).bytes() == o.get(i).bytes())
    }
    fn enc(&self) -> Vec<u8> {
        self.to_bytes()
    }
    fn dec(b: Vec<u8>) -> Result<Self, String> {
        PlutusScripts::from_bytes(b).map_err(|e| format!("{:?}", e))
    }
    fn enc_hex(&self) -> String {
        self.to_hex()
    }
    fn dec_hex(s: &str) -> Result<Self, String> {
        PlutusScripts::from_hex(s).map_err(|e| format!("{:?}", e))
    }
    fn to_json_(&self) -> Result<String, String> {
        self.to_json().map_err(|e| format!("{:?}", e))
    }
    fn from_json_(s: &str) -> Result<Self, String> {
        PlutusScripts::from_json(s).map_err(|e| format!("{:?}", e))
    }
}

impl Codec for TransactionUnspentOutput {
    const NAME: &'static str = "TransactionUnspentOutput";
    const HAS_JSON: bool = true;
    fn same(&self, o: &Self) -> bool {
        self.input() == o.input() && self.output() == o.output()
    }
    fn enc(&self) -> Vec<u8> {
        self.to_bytes()
    }
    fn dec(b: Vec<u8>) -> Result<Self, String> {
        TransactionUnspentOutput::from_bytes(b).map_err(|e| format!("{:?}", e))
    }
    fn enc_hex(&self) -> String {
        self.to_hex()
    }
    fn dec_hex(s: &str) -> Result<Self, String> {
        TransactionUnspentOutput::from_hex(s).map_err(|e| format!("{:?}", e))
    }
    fn to_json_(&self) -> Result<String, String> {
        self.to_json().map_err(|e| format!("{:?}", e))
    }
    fn from_json_(s: &str) -> Result<Self, String> {
        TransactionUnspentOutput::from_json(s).map_err(|e| format!("{:?}", e))
    }
}

impl Codec for Address {
    const NAME: &'static str = "Address";
    const HAS_JSON: bool = true;
    fn same(&self, o: &Self) -> bool {
        self == o
    }
    fn enc(&self) -> Vec<u8> {
        self.to_bytes()
    }
    fn dec(b: Vec<u8>) -> Result<Self, String> {
        Address::from_bytes(b).map_err(|e| format!("{:?}", e))
    }
    fn enc_hex(&self) -> String {
        self.to_hex()
    }
    fn dec_hex(s: &str) -> Result<Self, String> {
        Address::from_hex(s).map_err(|e| format!("{:?}", e))
    }
    fn to_json_(&self) -> Result<String, String> {
        self.to_json().map_err(|e| format!("{:?}", e))
    }
    fn from_json_(s: &str) -> Result<Self, String> {
        Address::from_json(s).map_err(|e| format!("{:?}", e))
    }
}

#[derive(Clone, Copy, PartialEq, Eq, Debug)]
pub enum Mode {
    Off,
    C01,
    C03,
    C17,
    Seeds,
}

thread_local! {
    pub static MODE: Cell<Mode> = Cell::new(Mode::Off);
    /// set by a generator when it produced an optional collection that is present but empty
    pub static EMPTY_OPTIONAL: Cell<bool> = Cell::new(false);
    /// set when a map-typed part was not filled in ascending key order (JSON cannot keep it)
    pub static UNSORTED_MAP: Cell<bool> = Cell::new(false);
    /// set when the value uses a pre-Conway-only shape (flagged `legacy` for C03)
    pub static LEGACY: Cell<bool> = Cell::new(false);
    pub static SEEDS: RefCell<Vec<(&'static str, Vec<u8>)>> = RefCell::new(Vec::new());
    static VISIT_DEPTH: Cell<u32> = Cell::new(0);
}

pub fn mode() -> Mode {
    MODE.with(|m| m.get())
}

pub fn reset_flags() {
    EMPTY_OPTIONAL.with(|c| c.set(false));
    UNSORTED_MAP.with(|c| c.set(false));
    LEGACY.with(|c| c.set(false));
}
fn mark_empty() {
    EMPTY_OPTIONAL.with(|c| c.set(true));
}
fn mark_legacy() {
    LEGACY.with(|c| c.set(true));
}

/// Hand a freshly generated value to the oracle of the running property.
pub fn visit<T: Codec>(ctx: &mut Ctx, v: &T) {
    match MODE.with(|m| m.get()) {
        Mode::Off => {}
        Mode::C01 => crate::props::c01::check(ctx, v),
        Mode::C03 => crate::props::c03::check(ctx, v),
        Mode::C17 => crate::props::c17::check_typed(ctx, v),
        Mode::Seeds => {
            if let Ok(b) = crate::engine::guard(|| v.enc()) {
                SEEDS.with(|s| s.borrow_mut().push((T::NAME, b)));
            }
        }
    }
}

fn v<T: Codec>(ctx: &mut Ctx, x: T) -> T {
    visit(ctx, &x);
    x
}

// ---------------------------------------------------------------------------------------------
// scalars

pub fn g_u64(ctx: &mut Ctx) -> u64 {
    *ctx.pick(&W)
}
pub fn g_coin(ctx: &mut Ctx) -> BigNum {
    bn(g_u64(ctx))
}
/// positive coin (the CDDL demands positive_coin in some places)
pub fn g_pos_coin(ctx: &mut Ctx) -> BigNum {
    bn(*ctx.pick(&[1u64, 23, 24, 255, 256, 65535, 65536, 0xffff_ffff, 0x1_0000_0000, 0x7fff_ffff_ffff_ffff, 0x8000_0000_0000_0000, u64::MAX]))
}
pub fn g_u32(ctx: &mut Ctx) -> u32 {
    *ctx.pick(&[0u32, 23, 24, 255, 256, 65535, 65536, u32::MAX])
}
pub fn g_u16(ctx: &mut Ctx) -> u16 {
    *ctx.pick(&[0u16, 23, 24, 255, 256, 65535])
}
pub fn g_ix16(ctx: &mut Ctx) -> u32 {
    g_u16(ctx) as u32
}
/// collection size: 0, 1, 2, (large)
pub fn g_n(ctx: &mut Ctx) -> usize {
    *ctx.pick(&[0usize, 1, 2, 25])
}
pub fn g_n1(ctx: &mut Ctx) -> usize {
    *ctx.pick(&[1usize, 2, 25])
}
pub fn g_int(ctx: &mut Ctx) -> Int {
    let neg = ctx.flag();
    let m = g_u64(ctx);
    if neg {
        Int::new_negative(&bn(m.max(1)))
    } else {
        Int::new(&bn(m))
    }
}
pub fn g_unit_interval(ctx: &mut Ctx) -> UnitInterval {
    let n = g_u64(ctx);
    let d = *ctx.pick(&[1u64, 3, 10_000_000, u64::MAX]);
    v(ctx, UnitInterval::new(&bn(n), &bn(d)))
}
/// a unit interval that is in [0,1] (used where the generator feeds validating consumers)
pub fn ui_small(k: u64) -> UnitInterval {
    UnitInterval::new(&bn(k), &bn(100))
}

fn h28(i: usize) -> Vec<u8> {
    let mut b = vec![0x30 + (i as u8 % 0xc0); 28];
    b[0] = (i as u8).wrapping_mul(0x9d);
    b
}
fn h32(i: usize) -> Vec<u8> {
    let mut b = vec![0x50 + (i as u8 % 0xa0); 32];
    b[0] = (i as u8).wrapping_mul(0x6b);
    b
}
pub fn g_keyhash(ctx: &mut Ctx) -> Ed25519KeyHash {
    let i = ctx.choose(3);
    v(ctx, Ed25519KeyHash::from_bytes(h28(i)).unwrap())
}
pub fn g_scripthash(ctx: &mut Ctx) -> ScriptHash {
    let i = ctx.choose(3);
    v(ctx, ScriptHash::from_bytes(h28(100 + i)).unwrap())
}
pub fn g_txhash(ctx: &mut Ctx) -> TransactionHash {
    let i = ctx.choose(3);
    v(ctx, TransactionHash::from_bytes(h32(i)).unwrap())
}
pub fn g_credential(ctx: &mut Ctx) -> Credential {
    let c = if ctx.flag() { Credential::from_scripthash(&g_scripthash(ctx)) } else { Credential::from_keyhash(&g_keyhash(ctx)) };
    v(ctx, c)
}
fn cred_i(i: usize) -> Credential {
    if i % 2 == 0 {
        Credential::from_keyhash(&Ed25519KeyHash::from_bytes(h28(i)).unwrap())
    } else {
        Credential::from_scripthash(&ScriptHash::from_bytes(h28(i)).unwrap())
    }
}
pub fn g_reward_address(ctx: &mut Ctx) -> RewardAddress {
    let net = *ctx.pick(&[1u8, 0, 15]);
    RewardAddress::new(net, &g_credential(ctx))
}
fn reward_i(i: usize) -> RewardAddress {
    RewardAddress::new(1, &cred_i(i))
}

pub fn g_address(ctx: &mut Ctx) -> Address {
    let kinds = if mode() == Mode::C17 { 5 } else { 7 };
    let a = match ctx.choose(kinds) {
        0 => EnterpriseAddress::new(1, &g_credential(ctx)).to_address(),
        1 => BaseAddress::new(*ctx.pick(&[1u8, 0, 15]), &g_credential(ctx), &g_credential(ctx)).to_address(),
        2 => PointerAddress::new(1, &g_credential(ctx), &Pointer::new_pointer(&g_coin(ctx), &g_coin(ctx), &g_coin(ctx))).to_address(),
        3 => g_reward_address(ctx).to_address(),
        4 => byron_cached(0).to_address(),
        5 => {
            let r = crate::props::c11::RefByron { root: vec![0x5a; 28], payload: Some((0..50u8).collect()), magic: Some(u32::MAX), typ: 2 };
            ByronAddress::from_bytes(crate::props::c11::byron_bytes(&r)).unwrap().to_address()
        }
        _ => {
            // malformed carrier: only obtainable by decoding a structure that embeds it; the strict
            // stand-alone parser rejects it by design (C11), so it is not visited on its own
            let ob = crate::refcbor::emit(&crate::refcbor::Node::arr(vec![crate::refcbor::Node::bytes(&[0x9f, 1, 2]), crate::refcbor::Node::uint(0)]));
            return TransactionOutput::from_bytes(ob).unwrap().address();
        }
    };
    v(ctx, a)
}

thread_local! {
    static BYRON: Vec<ByronAddress> = (0..2).map(|i| byron_addr(i)).collect();
}
pub fn byron_cached(i: usize) -> ByronAddress {
    BYRON.with(|b| b[i % 2].clone())
}

pub fn g_url(ctx: &mut Ctx) -> URL {
    let n = *ctx.pick(&[14usize, 0, 1, 23, 24, 128]);
    v(ctx, URL::new("u".repeat(n)).unwrap())
}
pub fn g_anchor(ctx: &mut Ctx) -> Anchor {
    let a = Anchor::new(&g_url(ctx), &AnchorDataHash::from_bytes(h32(9)).unwrap());
    v(ctx, a)
}
pub fn g_opt<T>(ctx: &mut Ctx, f: impl FnOnce(&mut Ctx) -> T) -> Option<T> {
    if ctx.flag() {
        Some(f(ctx))
    } else {
        None
    }
}

// ---------------------------------------------------------------------------------------------
// values, assets, mint

pub fn g_asset_name(ctx: &mut Ctx) -> AssetName {
    let n = *ctx.pick(&[0usize, 1, 23, 24, 32]);
    v(ctx, AssetName::new(vec![0x61; n]).unwrap())
}
fn asset_name_i(i: usize) -> AssetName {
    // ascending in canonical (length-first) order with i
    AssetName::new(vec![0x62 + (i as u8 % 20); 1 + (i % 32)]).unwrap()
}
pub fn g_assets(ctx: &mut Ctx) -> Assets {
    let n = g_n(ctx);
    let mut a = Assets::new();
    for i in 0..n {
        if i == 0 {
            let name = g_asset_name(ctx);
            let q = g_coin(ctx);
            a.insert(&name, &q);
        } else {
            a.insert(&asset_name_i(i), &bn(1 + i as u64));
        }
    }
    v(ctx, a)
}
pub fn g_multiasset(ctx: &mut Ctx) -> MultiAsset {
    let n = g_n(ctx);
    let mut m = MultiAsset::new();
    for i in 0..n {
        let pol = ScriptHash::from_bytes(h28(100 + i)).unwrap();
        if i == 0 {
            let a = g_assets(ctx);
            m.insert(&pol, &a);
        } else {
            let mut a = Assets::new();
            a.insert(&asset_name_i(i), &bn(1000 + i as u64));
            m.insert(&pol, &a);
        }
    }
    v(ctx, m)
}
pub fn g_value(ctx: &mut Ctx) -> Value {
    let coin = g_coin(ctx);
    let val = match ctx.choose(3) {
        0 => Value::new(&coin),
        1 => {
            let ma = g_multiasset(ctx);
            let mut x = Value::new(&coin);
            x.set_multiasset(&ma);
            if ma.len() == 0 || (0..ma.keys().len()).all(|i| ma.get(&ma.keys().get(i)).map(|a| a.len() == 0).unwrap_or(true)) {
                mark_empty();
            }
            x
        }
        _ => {
            let mut ma = MultiAsset::new();
            ma.set_asset(&ScriptHash::from_bytes(h28(100)).unwrap(), &AssetName::new(vec![]).unwrap(), &bn(1));
            Value::new_with_assets(&coin, &ma)
        }
    };
    v(ctx, val)
}
pub fn g_mint(ctx: &mut Ctx) -> Mint {
    let n = g_n1(ctx);
    let mut m = Mint::new();
    for i in 0..n {
        let pol = ScriptHash::from_bytes(h28(100 + i)).unwrap();
        let mut ma = MintAssets::new();
        if i == 0 {
            let k = g_n1(ctx);
            for j in 0..k {
                if j == 0 {
                    let name = g_asset_name(ctx);
                    let mut q = g_int(ctx);
                    if q.to_str() == "0" {
                        q = Int::new_i32(1);
                    }
                    ma.insert(&name, &q).unwrap();
                } else {
                    ma.insert(&asset_name_i(j), &Int::new_i32(-(j as i32))).unwrap();
                }
            }
        } else {
            ma.insert(&asset_name_i(i), &Int::new_i32(5)).unwrap();
        }
        m.insert(&pol, &ma);
    }
    // Mint is a list of (policy, assets) entries in memory and `insert` appends: the same policy may
    // be entered again with other assets (one entry per script use); that too is a value of the type
    if ctx.flag() {
        let mut ma = MintAssets::new();
        ma.insert(&asset_name_i(7), &Int::new_i32(-4)).unwrap();
        m.insert(&ScriptHash::from_bytes(h28(100)).unwrap(), &ma);
        ctx.hit("Mint: one policy in two entries");
    }
    v(ctx, m)
}

// ---------------------------------------------------------------------------------------------
// scripts, Plutus data, metadata

pub fn g_native_script(ctx: &mut Ctx, depth: u32) -> NativeScript {
    let kinds = if depth == 0 { 3 } else { 6 };
    let s = match ctx.choose(kinds) {
        0 => NativeScript::new_script_pubkey(&v(ctx, ScriptPubkey::new(&Ed25519KeyHash::from_bytes(h28(1)).unwrap()))),
        1 => {
            let slot = g_coin(ctx);
            NativeScript::new_timelock_start(&v(ctx, TimelockStart::new_timelockstart(&slot)))
        }
        2 => {
            let slot = g_coin(ctx);
            NativeScript::new_timelock_expiry(&v(ctx, TimelockExpiry::new_timelockexpiry(&slot)))
        }
        3 => {
            let subs = g_native_scripts(ctx, depth - 1);
            NativeScript::new_script_all(&v(ctx, ScriptAll::new(&subs)))
        }
        4 => {
            let subs = g_native_scripts(ctx, depth - 1);
            NativeScript::new_script_any(&v(ctx, ScriptAny::new(&subs)))
        }
        _ => {
            let n = g_u32(ctx);
            let subs = g_native_scripts(ctx, depth - 1);
            NativeScript::new_script_n_of_k(&v(ctx, ScriptNOfK::new(n, &subs)))
        }
    };
    v(ctx, s)
}
pub fn g_native_scripts(ctx: &mut Ctx, depth: u32) -> NativeScripts {
    let n = g_n(ctx);
    let mut ns = NativeScripts::new();
    for i in 0..n {
        if i == 0 {
            let s = g_native_script(ctx, depth);
            ns.add(&s);
        } else {
            ns.add(&NativeScript::new_script_pubkey(&ScriptPubkey::new(&Ed25519KeyHash::from_bytes(h28(10 + i)).unwrap())));
        }
    }
    v(ctx, ns)
}
pub fn g_plutus_script(ctx: &mut Ctx) -> PlutusScript {
    let len = *ctx.pick(&[3usize, 0, 23, 24, 64, 65, 300]);
    let body: Vec<u8> = (0..len).map(|i| (i * 7) as u8).collect();
    // the JSON form of a Plutus script does not carry its language (known finding, exercised by
    // c17::sc_json_gaps): typed JSON sweeps use V1 only
    let langs = if mode() == Mode::C17 { 1 } else { 3 };
    let s = match ctx.choose(langs) {
        0 => PlutusScript::new(body),
        1 => PlutusScript::new_v2(body),
        _ => PlutusScript::new_v3(body),
    };
    v(ctx, s)
}
pub fn g_plutus_scripts(ctx: &mut Ctx) -> PlutusScripts {
    let n = g_n(ctx);
    let mut list: Vec<PlutusScript> = Vec::new();
    for i in 0..n {
        if i == 0 {
            let s = g_plutus_script(ctx);
            list.push(s);
        } else {
            list.push(PlutusScript::new_with_version(vec![i as u8; 2 + i], &[Language::new_plutus_v1(), Language::new_plutus_v2(), Language::new_plutus_v3()][if mode() == Mode::C17 { 0 } else { i % 3 }]));
        }
    }
    // the wire format groups scripts by language (witness-set keys 3, 6, 7): fill the list in that
    // order, as the JSON/wire forms cannot record any other
    list.sort_by_key(|s| s.language_version().to_bytes());
    let mut ps = PlutusScripts::new();
    for s in &list {
        ps.add(s);
    }
    v(ctx, ps)
}
pub fn g_bigint(ctx: &mut Ctx) -> BigInt {
    let s: &str = *ctx.pick(&[
        "0",
        "23",
        "24",
        "-1",
        "-24",
        "-25",
        "18446744073709551615",
        "18446744073709551616",
        "-18446744073709551616",
        "-18446744073709551617",
        "13407807929942597099574024998205846127479365820592393377723561443721764030073546976801874298166903427690031858186486050853753882811946569946433649006084095",
        "13407807929942597099574024998205846127479365820592393377723561443721764030073546976801874298166903427690031858186486050853753882811946569946433649006084096",
        "-13407807929942597099574024998205846127479365820592393377723561443721764030073546976801874298166903427690031858186486050853753882811946569946433649006084097",
    ]);
    v(ctx, BigInt::from_str(s).unwrap())
}
pub fn g_plutus_data(ctx: &mut Ctx, depth: u32) -> PlutusData {
    let kinds = if depth == 0 { 2 } else { 5 };
    let d = match ctx.choose(kinds) {
        0 => PlutusData::new_integer(&g_bigint(ctx)),
        1 => {
            let n = *ctx.pick(&[0usize, 1, 23, 24, 64, 65, 128, 129]);
            PlutusData::new_bytes((0..n).map(|i| i as u8).collect())
        }
        2 => PlutusData::new_list(&g_plutus_list(ctx, depth - 1)),
        3 => {
            let alt = *ctx.pick(&[0u64, 6, 7, 127, 128, 65536, u64::MAX]);
            let fields = g_plutus_list(ctx, depth - 1);
            PlutusData::new_constr_plutus_data(&v(ctx, ConstrPlutusData::new(&bn(alt), &fields)))
        }
        _ => {
            let n = g_n(ctx);
            let mut m = PlutusMap::new();
            for i in 0..n {
                let key = if i == 0 { g_plutus_data(ctx, depth - 1) } else { PlutusData::new_integer(&BigInt::from(1000u64 + i as u64)) };
                let mut vals = PlutusMapValues::new();
                let val = if i == 0 { g_plutus_data(ctx, depth - 1) } else { PlutusData::new_bytes(vec![i as u8]) };
                vals.add(&val);
                match if i == 0 { ctx.choose(3) } else { 0 } {
                    // repeated key: two values under one key
                    1 => vals.add(&PlutusData::new_integer(&BigInt::from(7u64))),
                    // the same (key, value) pair twice with another value in between: a Plutus map is an
                    // association list, the repeat is part of the datum
                    2 => {
                        vals.add(&PlutusData::new_integer(&BigInt::from(7u64)));
                        vals.add(&val);
                    }
                    _ => {}
                }
                m.insert(&key, &vals);
            }
            PlutusData::new_map(&v(ctx, m))
        }
    };
    v(ctx, d)
}
pub fn g_plutus_list(ctx: &mut Ctx, depth: u32) -> PlutusList {
    let n = g_n(ctx);
    let mut l = PlutusList::new();
    for i in 0..n {
        if i == 0 {
            let d = g_plutus_data(ctx, depth);
            l.add(&d);
        } else {
            l.add(&PlutusData::new_integer(&BigInt::from(i as u64)));
        }
    }
    v(ctx, l)
}
pub fn g_metadatum(ctx: &mut Ctx, depth: u32) -> TransactionMetadatum {
    let kinds = if depth == 0 { 3 } else { 5 };
    let m = match ctx.choose(kinds) {
        0 => TransactionMetadatum::new_int(&g_int(ctx)),
        1 => {
            let n = *ctx.pick(&[0usize, 1, 23, 24, 64]);
            TransactionMetadatum::new_bytes(vec![0xab; n]).unwrap()
        }
        2 => {
            let s: String = (*ctx.pick(&["", "a", "0x6162", "12", "héllo", "ssssssssssssssssssssssssssssssssssssssssssssssssssssssssssssssss"])).to_string();
            TransactionMetadatum::new_text(s).unwrap()
        }
        3 => {
            let n = g_n(ctx);
            let mut l = MetadataList::new();
            for i in 0..n {
                if i == 0 {
                    let e = g_metadatum(ctx, depth - 1);
                    l.add(&e);
                } else {
                    l.add(&TransactionMetadatum::new_int(&Int::new_i32(i as i32)));
                }
            }
            TransactionMetadatum::new_list(&v(ctx, l))
        }
        _ => {
            let n = g_n(ctx);
            let mut mm = MetadataMap::new();
            for i in 0..n {
                if i == 0 {
                    let k = g_metadatum(ctx, depth - 1);
                    let val = g_metadatum(ctx, depth - 1);
                    mm.insert(&k, &val);
                } else {
                    mm.insert(&TransactionMetadatum::new_text(format!("k{:02}", i)).unwrap(), &TransactionMetadatum::new_int(&Int::new_i32(i as i32)));
                }
            }
            TransactionMetadatum::new_map(&v(ctx, mm))
        }
    };
    v(ctx, m)
}
pub fn g_general_metadata(ctx: &mut Ctx) -> GeneralTransactionMetadata {
    let n = g_n(ctx);
    let mut pairs: Vec<(BigNum, TransactionMetadatum)> = Vec::new();
    for i in 0..n {
        if i == 0 {
            let label = g_coin(ctx);
            let m = g_metadatum(ctx, 2);
            pairs.push((label, m));
        } else {
            pairs.push((bn(u64::MAX - 30 + i as u64), TransactionMetadatum::new_int(&Int::new_i32(i as i32))));
        }
    }
    // insertion-ordered map: fill in ascending key order (JSON does not record insertion order)
    pairs.sort_by(|a, b| a.0.cmp(&b.0));
    pairs.dedup_by(|a, b| a.0 == b.0);
    let mut g = GeneralTransactionMetadata::new();
    for (k, m) in &pairs {
        g.insert(k, m);
    }
    v(ctx, g)
}
pub fn g_auxiliary_data(ctx: &mut Ctx) -> AuxiliaryData {
    let mut a = AuxiliaryData::new();
    let shape = ctx.choose(4);
    // 0: metadata only (Shelley form) ; 1: metadata + native scripts (Shelley-MA array form unless
    // alonzo preferred) ; 2: + plutus scripts (Alonzo tagged map) ; 3: everything, prefer alonzo
    if shape != 2 || ctx.flag() {
        let m = g_general_metadata(ctx);
        if m.len() == 0 {
            mark_empty();
        }
        a.set_metadata(&m);
    }
    if shape >= 1 {
        let ns = g_native_scripts(ctx, 1);
        if ns.len() == 0 {
            mark_empty();
        }
        a.set_native_scripts(&ns);
    }
    if shape >= 2 {
        let ps = g_plutus_scripts(ctx);
        if ps.len() == 0 {
            mark_empty();
        }
        a.set_plutus_scripts(&ps);
    }
    if shape == 3 || ctx.flag() {
        a.set_prefer_alonzo_format(true);
    }
    v(ctx, a)
}

// ---------------------------------------------------------------------------------------------
// inputs / outputs

pub fn g_input(ctx: &mut Ctx) -> TransactionInput {
    let h = g_txhash(ctx);
    let ix = g_ix16(ctx);
    v(ctx, TransactionInput::new(&h, ix))
}
pub fn g_inputs(ctx: &mut Ctx) -> TransactionInputs {
    let n = g_n(ctx);
    let mut ins = TransactionInputs::new();
    for i in 0..n {
        if i == 0 {
            let x = g_input(ctx);
            ins.add(&x);
        } else {
            ins.add(&TransactionInput::new(&TransactionHash::from_bytes(h32(40 + i)).unwrap(), i as u32));
        }
    }
    v(ctx, ins)
}
pub fn g_script_ref(ctx: &mut Ctx) -> ScriptRef {
    let s = if ctx.flag() { ScriptRef::new_plutus_script(&g_plutus_script(ctx)) } else { ScriptRef::new_native_script(&g_native_script(ctx, 1)) };
    v(ctx, s)
}
pub fn g_output(ctx: &mut Ctx) -> TransactionOutput {
    let addr = g_address(ctx);
    let val = g_value(ctx);
    let mut o = TransactionOutput::new(&addr, &val);
    match ctx.choose(3) {
        0 => {}
        1 => o.set_data_hash(&v(ctx, DataHash::from_bytes(h32(3)).unwrap())),
        _ => {
            let d = g_plutus_data(ctx, 1);
            o.set_plutus_data(&d);
        }
    }
    if ctx.flag() {
        let s = g_script_ref(ctx);
        o.set_script_ref(&s);
    }
    v(ctx, o)
}
pub fn g_outputs(ctx: &mut Ctx) -> TransactionOutputs {
    let n = g_n(ctx);
    let mut os = TransactionOutputs::new();
    for i in 0..n {
        if i == 0 {
            let o = g_output(ctx);
            os.add(&o);
        } else {
            os.add(&TransactionOutput::new(&EnterpriseAddress::new(1, &cred_i(i)).to_address(), &Value::new(&bn(1_000_000 + i as u64))));
        }
    }
    v(ctx, os)
}
pub fn g_utxo(ctx: &mut Ctx) -> TransactionUnspentOutput {
    let i = g_input(ctx);
    let o = g_output(ctx);
    v(ctx, TransactionUnspentOutput::new(&i, &o))
}

// ---------------------------------------------------------------------------------------------
// pool / relays

pub fn g_relay(ctx: &mut Ctx) -> Relay {
    let r = match ctx.choose(3) {
        0 => {
            let port = g_opt(ctx, g_u16);
            let v4 = g_opt(ctx, |c| v(c, Ipv4::new(vec![192, 168, 0, 1]).unwrap()));
            let v6 = g_opt(ctx, |c| v(c, Ipv6::new((0..16u8).collect()).unwrap()));
            Relay::new_single_host_addr(&v(ctx, SingleHostAddr::new(port, v4, v6)))
        }
        1 => {
            let port = g_opt(ctx, g_u16);
            let n = *ctx.pick(&[9usize, 0, 128]);
            let dns = v(ctx, DNSRecordAorAAAA::new("d".repeat(n)).unwrap());
            Relay::new_single_host_name(&v(ctx, SingleHostName::new(port, &dns)))
        }
        _ => {
            let n = *ctx.pick(&[9usize, 0, 128]);
            let dns = v(ctx, DNSRecordSRV::new("s".repeat(n)).unwrap());
            Relay::new_multi_host_name(&v(ctx, MultiHostName::new(&dns)))
        }
    };
    v(ctx, r)
}
pub fn g_relays(ctx: &mut Ctx) -> Relays {
    let n = g_n(ctx);
    let mut rs = Relays::new();
    for i in 0..n {
        if i == 0 {
            let r = g_relay(ctx);
            rs.add(&r);
        } else {
            rs.add(&Relay::new_multi_host_name(&MultiHostName::new(&DNSRecordSRV::new(format!("r{}.io", i)).unwrap())));
        }
    }
    v(ctx, rs)
}
pub fn g_keyhashes(ctx: &mut Ctx) -> Ed25519KeyHashes {
    let n = g_n(ctx);
    let mut ks = Ed25519KeyHashes::new();
    for i in 0..n {
        ks.add(&Ed25519KeyHash::from_bytes(h28(20 + i)).unwrap());
    }
    v(ctx, ks)
}
pub fn g_pool_params(ctx: &mut Ctx) -> PoolParams {
    let op = g_keyhash(ctx);
    let pledge = g_coin(ctx);
    let cost = g_coin(ctx);
    let margin = g_unit_interval(ctx);
    let ra = g_reward_address(ctx);
    let owners = g_keyhashes(ctx);
    let relays = g_relays(ctx);
    let md = g_opt(ctx, |c| {
        let u = g_url(c);
        v(c, PoolMetadata::new(&u, &PoolMetadataHash::from_bytes(h32(5)).unwrap()))
    });
    v(ctx, PoolParams::new(&op, &VRFKeyHash::from_bytes(h32(6)).unwrap(), &pledge, &cost, &margin, &ra, &owners, &relays, md))
}

// ---------------------------------------------------------------------------------------------
// governance

pub fn g_drep(ctx: &mut Ctx) -> DRep {
    let d = match ctx.choose(4) {
        0 => DRep::new_key_hash(&g_keyhash(ctx)),
        1 => DRep::new_script_hash(&g_scripthash(ctx)),
        2 => DRep::new_always_abstain(),
        _ => DRep::new_always_no_confidence(),
    };
    v(ctx, d)
}
pub fn g_action_id(ctx: &mut Ctx) -> GovernanceActionId {
    let h = g_txhash(ctx);
    let ix = g_ix16(ctx);
    v(ctx, GovernanceActionId::new(&h, ix))
}
pub fn g_protocol_version(ctx: &mut Ctx) -> ProtocolVersion {
    let maj = *ctx.pick(&[10u32, 0, 23, 24]);
    let min = g_u32(ctx);
    v(ctx, ProtocolVersion::new(maj, min))
}
pub fn g_ex_units(ctx: &mut Ctx) -> ExUnits {
    let m = g_coin(ctx);
    let s = g_coin(ctx);
    v(ctx, ExUnits::new(&m, &s))
}
pub fn g_ex_unit_prices(ctx: &mut Ctx) -> ExUnitPrices {
    let a = g_unit_interval(ctx);
    let b = g_unit_interval(ctx);
    v(ctx, ExUnitPrices::new(&a, &b))
}
pub fn g_language(ctx: &mut Ctx) -> Language {
    let l = match ctx.choose(3) {
        0 => Language::new_plutus_v1(),
        1 => Language::new_plutus_v2(),
        _ => Language::new_plutus_v3(),
    };
    v(ctx, l)
}
pub fn g_cost_model(ctx: &mut Ctx) -> CostModel {
    let n = *ctx.pick(&[3usize, 0, 1, 166, 300]);
    let mut cm = CostModel::new();
    for i in 0..n {
        let c = if i == 0 { g_int(ctx) } else { Int::new_i32((i as i32) * if i % 5 == 0 { -1 } else { 1 }) };
        cm.set(i, &c).unwrap();
    }
    v(ctx, cm)
}
pub fn g_costmdls(ctx: &mut Ctx) -> Costmdls {
    let mut c = Costmdls::new();
    let which = ctx.choose(5);
    let langs: Vec<Language> = match which {
        0 => vec![Language::new_plutus_v1()],
        1 => vec![],
        2 => vec![Language::new_plutus_v2()],
        3 => vec![Language::new_plutus_v1(), Language::new_plutus_v2()],
        _ => vec![Language::new_plutus_v1(), Language::new_plutus_v2(), Language::new_plutus_v3()],
    };
    for (i, l) in langs.iter().enumerate() {
        let cm = if i == 0 { g_cost_model(ctx) } else { let mut m = CostModel::new(); m.set(0, &Int::new_i32(i as i32)).unwrap(); m };
        c.insert(l, &cm);
    }
    v(ctx, c)
}
pub fn g_pool_voting_thresholds(ctx: &mut Ctx) -> PoolVotingThresholds {
    let a = g_unit_interval(ctx);
    v(ctx, PoolVotingThresholds::new(&a, &ui_small(2), &ui_small(3), &ui_small(4), &ui_small(5)))
}
pub fn g_drep_voting_thresholds(ctx: &mut Ctx) -> DRepVotingThresholds {
    let a = g_unit_interval(ctx);
    v(ctx, DRepVotingThresholds::new(&a, &ui_small(2), &ui_small(3), &ui_small(4), &ui_small(5), &ui_small(6), &ui_small(7), &ui_small(8), &ui_small(9), &ui_small(10)))
}

pub const PPU_FIELDS: usize = 31;
/// Conway-valid protocol parameter update: every field individually present/absent.
pub fn g_ppu(ctx: &mut Ctx) -> ProtocolParamUpdate {
    let mut p = ProtocolParamUpdate::new();
    for f in 0..PPU_FIELDS {
        if !ctx.flag() {
            continue;
        }
        set_ppu_field(ctx, &mut p, f, true);
    }
    v(ctx, p)
}
pub fn set_ppu_field(ctx: &mut Ctx, p: &mut ProtocolParamUpdate, f: usize, vary: bool) {
    let c = |ctx: &mut Ctx| if vary { g_coin(ctx) } else { bn(44) };
    let u = |ctx: &mut Ctx| if vary { g_u32(ctx) } else { 65536 };
    match f {
        0 => p.set_minfee_a(&c(ctx)),
        1 => p.set_minfee_b(&c(ctx)),
        2 => p.set_max_block_body_size(u(ctx)),
        3 => p.set_max_tx_size(u(ctx)),
        4 => p.set_max_block_header_size(u(ctx).min(65535)),
        5 => p.set_key_deposit(&c(ctx)),
        6 => p.set_pool_deposit(&c(ctx)),
        7 => p.set_max_epoch(u(ctx)),
        8 => p.set_n_opt(u(ctx).min(65535)),
        9 => p.set_pool_pledge_influence(&if vary { g_unit_interval(ctx) } else { ui_small(3) }),
        10 => p.set_expansion_rate(&ui_small(1)),
        11 => p.set_treasury_growth_rate(&ui_small(20)),
        12 => p.set_min_pool_cost(&c(ctx)),
        13 => p.set_ada_per_utxo_byte(&c(ctx)),
        14 => p.set_cost_models(&if vary { g_costmdls(ctx) } else { let mut m = Costmdls::new(); let mut cm = CostModel::new(); cm.set(0, &Int::new_i32(1)).unwrap(); m.insert(&Language::new_plutus_v1(), &cm); m }),
        15 => p.set_execution_costs(&if vary { g_ex_unit_prices(ctx) } else { ExUnitPrices::new(&ui_small(5), &ui_small(6)) }),
        16 => p.set_max_tx_ex_units(&if vary { g_ex_units(ctx) } else { ExUnits::new(&bn(1), &bn(2)) }),
        17 => p.set_max_block_ex_units(&ExUnits::new(&bn(3), &bn(4))),
        18 => p.set_max_value_size(u(ctx)),
        19 => p.set_collateral_percentage(u(ctx).min(65535)),
        20 => p.set_max_collateral_inputs(u(ctx).min(65535)),
        21 => p.set_pool_voting_thresholds(&if vary { g_pool_voting_thresholds(ctx) } else { PoolVotingThresholds::new(&ui_small(1), &ui_small(2), &ui_small(3), &ui_small(4), &ui_small(5)) }),
        22 => p.set_drep_voting_thresholds(&if vary { g_drep_voting_thresholds(ctx) } else { DRepVotingThresholds::new(&ui_small(1), &ui_small(2), &ui_small(3), &ui_small(4), &ui_small(5), &ui_small(6), &ui_small(7), &ui_small(8), &ui_small(9), &ui_small(10)) }),
        23 => p.set_min_committee_size(u(ctx).min(65535)),
        24 => p.set_committee_term_limit(u(ctx)),
        25 => p.set_governance_action_validity_period(u(ctx)),
        26 => p.set_governance_action_deposit(&c(ctx)),
        27 => p.set_drep_deposit(&c(ctx)),
        28 => p.set_drep_inactivity_period(u(ctx)),
        29 => p.set_ref_script_coins_per_byte(&if vary { g_unit_interval(ctx) } else { ui_small(15) }),
        _ => {
            // pre-Conway only: protocol version inside an update (key 14)
            mark_legacy();
            p.set_protocol_version(&if vary { g_protocol_version(ctx) } else { ProtocolVersion::new(9, 0) });
        }
    }
}

pub fn g_constitution(ctx: &mut Ctx) -> Constitution {
    let a = g_anchor(ctx);
    let c = if ctx.flag() { Constitution::new_with_script_hash(&a, &g_scripthash(ctx)) } else { Constitution::new(&a) };
    v(ctx, c)
}
pub fn g_committee(ctx: &mut Ctx) -> Committee {
    let q = g_unit_interval(ctx);
    let mut c = Committee::new(&q);
    let n = g_n(ctx);
    for i in 0..n {
        if i == 0 {
            let cr = g_credential(ctx);
            let e = g_u32(ctx);
            c.add_member(&cr, e);
        } else {
            c.add_member(&cred_i(30 + i), 100 + i as u32);
        }
    }
    v(ctx, c)
}
pub fn g_credentials(ctx: &mut Ctx) -> Credentials {
    let n = g_n(ctx);
    let mut cs = Credentials::new();
    for i in 0..n {
        if i == 0 {
            let c = g_credential(ctx);
            cs.add(&c);
        } else {
            cs.add(&cred_i(50 + i));
        }
    }
    v(ctx, cs)
}
pub fn g_treasury_withdrawals(ctx: &mut Ctx) -> TreasuryWithdrawals {
    let n = g_n(ctx);
    let mut t = TreasuryWithdrawals::new();
    for i in 0..n {
        if i == 0 {
            let ra = g_reward_address(ctx);
            let c = g_coin(ctx);
            t.insert(&ra, &c);
        } else {
            t.insert(&reward_i(60 + i), &bn(i as u64));
        }
    }
    t
}
pub fn g_governance_action(ctx: &mut Ctx) -> GovernanceAction {
    let a = match ctx.choose(7) {
        0 => GovernanceAction::new_info_action(&InfoAction::new()),
        1 => {
            let x = if ctx.flag() { NoConfidenceAction::new_with_action_id(&g_action_id(ctx)) } else { NoConfidenceAction::new() };
            GovernanceAction::new_no_confidence_action(&v(ctx, x))
        }
        2 => {
            let pv = g_protocol_version(ctx);
            let x = if ctx.flag() { HardForkInitiationAction::new_with_action_id(&g_action_id(ctx), &pv) } else { HardForkInitiationAction::new(&pv) };
            GovernanceAction::new_hard_fork_initiation_action(&v(ctx, x))
        }
        3 => {
            let w = g_treasury_withdrawals(ctx);
            let x = if ctx.flag() { TreasuryWithdrawalsAction::new_with_policy_hash(&w, &g_scripthash(ctx)) } else { TreasuryWithdrawalsAction::new(&w) };
            GovernanceAction::new_treasury_withdrawals_action(&v(ctx, x))
        }
        4 => {
            let c = g_constitution(ctx);
            let x = if ctx.flag() { NewConstitutionAction::new_with_action_id(&g_action_id(ctx), &c) } else { NewConstitutionAction::new(&c) };
            GovernanceAction::new_new_constitution_action(&v(ctx, x))
        }
        5 => {
            let c = g_committee(ctx);
            let rm = g_credentials(ctx);
            let x = if ctx.flag() { UpdateCommitteeAction::new_with_action_id(&g_action_id(ctx), &c, &rm) } else { UpdateCommitteeAction::new(&c, &rm) };
            GovernanceAction::new_new_committee_action(&v(ctx, x))
        }
        _ => {
            let mut ppu = ProtocolParamUpdate::new();
            let f = ctx.choose(30);
            set_ppu_field(ctx, &mut ppu, f, false);
            let x = match ctx.choose(4) {
                0 => ParameterChangeAction::new(&ppu),
                1 => ParameterChangeAction::new_with_action_id(&g_action_id(ctx), &ppu),
                2 => ParameterChangeAction::new_with_policy_hash(&ppu, &g_scripthash(ctx)),
                _ => ParameterChangeAction::new_with_policy_hash_and_action_id(&g_action_id(ctx), &ppu, &g_scripthash(ctx)),
            };
            GovernanceAction::new_parameter_change_action(&v(ctx, x))
        }
    };
    v(ctx, a)
}
pub fn g_voting_proposal(ctx: &mut Ctx) -> VotingProposal {
    let a = g_governance_action(ctx);
    let an = g_anchor(ctx);
    let ra = g_reward_address(ctx);
    let dep = g_coin(ctx);
    v(ctx, VotingProposal::new(&a, &an, &ra, &dep))
}
pub fn g_voting_proposals(ctx: &mut Ctx) -> VotingProposals {
    let n = g_n1(ctx);
    let mut ps = VotingProposals::new();
    for i in 0..n {
        if i == 0 {
            let p = g_voting_proposal(ctx);
            ps.add(&p);
        } else {
            ps.add(&VotingProposal::new(&GovernanceAction::new_info_action(&InfoAction::new()), &anchor(), &reward_i(70 + i), &bn(i as u64)));
        }
    }
    v(ctx, ps)
}
pub fn g_voter(ctx: &mut Ctx) -> Voter {
    let x = match ctx.choose(3) {
        0 => Voter::new_drep_credential(&g_credential(ctx)),
        1 => Voter::new_constitutional_committee_hot_credential(&g_credential(ctx)),
        _ => Voter::new_stake_pool_key_hash(&g_keyhash(ctx)),
    };
    v(ctx, x)
}
pub fn g_voting_procedure(ctx: &mut Ctx) -> VotingProcedure {
    let k = match ctx.choose(3) {
        0 => VoteKind::Yes,
        1 => VoteKind::No,
        _ => VoteKind::Abstain,
    };
    let p = if ctx.flag() { VotingProcedure::new_with_anchor(k, &g_anchor(ctx)) } else { VotingProcedure::new(k) };
    v(ctx, p)
}
pub fn g_voting_procedures(ctx: &mut Ctx) -> VotingProcedures {
    let n = g_n1(ctx);
    let mut vp = VotingProcedures::new();
    for i in 0..n {
        if i == 0 {
            let voter = g_voter(ctx);
            let aid = g_action_id(ctx);
            let pr = g_voting_procedure(ctx);
            vp.insert(&voter, &aid, &pr);
            if ctx.flag() {
                vp.insert(&voter, &GovernanceActionId::new(&TransactionHash::from_bytes(h32(77)).unwrap(), 3), &VotingProcedure::new(VoteKind::No));
            }
        } else {
            vp.insert(&Voter::new_stake_pool_key_hash(&Ed25519KeyHash::from_bytes(h28(80 + i)).unwrap()), &GovernanceActionId::new(&TransactionHash::from_bytes(h32(78)).unwrap(), i as u32), &VotingProcedure::new(VoteKind::Yes));
        }
    }
    v(ctx, vp)
}

// ---------------------------------------------------------------------------------------------
// certificates

pub const N_CERT_KINDS: usize = 19;
pub fn g_certificate(ctx: &mut Ctx) -> Certificate {
    let k = ctx.choose(N_CERT_KINDS);
    g_certificate_kind(ctx, k)
}
pub fn g_certificate_kind(ctx: &mut Ctx, k: usize) -> Certificate {
    let c = match k {
        0 => {
            mark_legacy();
            let c = g_credential(ctx);
            Certificate::new_stake_registration(&v(ctx, StakeRegistration::new(&c)))
        }
        1 => {
            mark_legacy();
            let c = g_credential(ctx);
            Certificate::new_stake_deregistration(&v(ctx, StakeDeregistration::new(&c)))
        }
        2 => {
            let c = g_credential(ctx);
            let p = g_keyhash(ctx);
            Certificate::new_stake_delegation(&v(ctx, StakeDelegation::new(&c, &p)))
        }
        3 => {
            let pp = g_pool_params(ctx);
            Certificate::new_pool_registration(&v(ctx, PoolRegistration::new(&pp)))
        }
        4 => {
            let p = g_keyhash(ctx);
            let e = g_u32(ctx);
            Certificate::new_pool_retirement(&v(ctx, PoolRetirement::new(&p, e)))
        }
        5 => {
            mark_legacy();
            let x = GenesisKeyDelegation::new(&GenesisHash::from_bytes(h28(7)).unwrap(), &GenesisDelegateHash::from_bytes(h28(8)).unwrap(), &VRFKeyHash::from_bytes(h32(9)).unwrap());
            Certificate::new_genesis_key_delegation(&v(ctx, x))
        }
        6 => {
            mark_legacy();
            let pot = if ctx.flag() { MIRPot::Treasury } else { MIRPot::Reserves };
            let mir = if ctx.flag() {
                let n = g_n(ctx);
                let mut pairs: Vec<(Credential, Int)> = Vec::new();
                for i in 0..n {
                    if i == 0 {
                        let c = g_credential(ctx);
                        let d = g_int(ctx);
                        pairs.push((c, d));
                    } else {
                        pairs.push((cred_i(90 + i), Int::new_i32(-(i as i32))));
                    }
                }
                pairs.sort_by(|a, b| a.0.cmp(&b.0));
                let mut m = MIRToStakeCredentials::new();
                for (c, d) in &pairs {
                    m.insert(c, d);
                }
                let m = v(ctx, m);
                MoveInstantaneousReward::new_to_stake_creds(pot, &m)
            } else {
                MoveInstantaneousReward::new_to_other_pot(pot, &g_coin(ctx))
            };
            let mir = v(ctx, mir);
            Certificate::new_move_instantaneous_rewards_cert(&v(ctx, MoveInstantaneousRewardsCert::new(&mir)))
        }
        7 => {
            let c = g_credential(ctx);
            let d = g_pos_coin(ctx);
            Certificate::new_reg_cert(&v(ctx, StakeRegistration::new_with_explicit_deposit(&c, &d))).unwrap()
        }
        8 => {
            let c = g_credential(ctx);
            let d = g_pos_coin(ctx);
            Certificate::new_unreg_cert(&v(ctx, StakeDeregistration::new_with_explicit_refund(&c, &d))).unwrap()
        }
        9 => {
            let c = g_credential(ctx);
            let d = g_drep(ctx);
            Certificate::new_vote_delegation(&v(ctx, VoteDelegation::new(&c, &d)))
        }
        10 => {
            let c = g_credential(ctx);
            let p = g_keyhash(ctx);
            let d = g_drep(ctx);
            Certificate::new_stake_and_vote_delegation(&v(ctx, StakeAndVoteDelegation::new(&c, &p, &d)))
        }
        11 => {
            let c = g_credential(ctx);
            let p = g_keyhash(ctx);
            let d = g_coin(ctx);
            Certificate::new_stake_registration_and_delegation(&v(ctx, StakeRegistrationAndDelegation::new(&c, &p, &d)))
        }
        12 => {
            let c = g_credential(ctx);
            let dr = g_drep(ctx);
            let d = g_coin(ctx);
            Certificate::new_vote_registration_and_delegation(&v(ctx, VoteRegistrationAndDelegation::new(&c, &dr, &d)))
        }
        13 => {
            let c = g_credential(ctx);
            let p = g_keyhash(ctx);
            let dr = g_drep(ctx);
            let d = g_coin(ctx);
            Certificate::new_stake_vote_registration_and_delegation(&v(ctx, StakeVoteRegistrationAndDelegation::new(&c, &p, &dr, &d)))
        }
        14 => {
            let a = g_credential(ctx);
            let b = g_credential(ctx);
            Certificate::new_committee_hot_auth(&v(ctx, CommitteeHotAuth::new(&a, &b)))
        }
        15 => {
            let a = g_credential(ctx);
            let x = if ctx.flag() { CommitteeColdResign::new_with_anchor(&a, &g_anchor(ctx)) } else { CommitteeColdResign::new(&a) };
            Certificate::new_committee_cold_resign(&v(ctx, x))
        }
        16 => {
            let a = g_credential(ctx);
            let d = g_coin(ctx);
            let x = if ctx.flag() { DRepRegistration::new_with_anchor(&a, &d, &g_anchor(ctx)) } else { DRepRegistration::new(&a, &d) };
            Certificate::new_drep_registration(&v(ctx, x))
        }
        17 => {
            let a = g_credential(ctx);
            let d = g_coin(ctx);
            Certificate::new_drep_deregistration(&v(ctx, DRepDeregistration::new(&a, &d)))
        }
        _ => {
            let a = g_credential(ctx);
            let x = if ctx.flag() { DRepUpdate::new_with_anchor(&a, &g_anchor(ctx)) } else { DRepUpdate::new(&a) };
            Certificate::new_drep_update(&v(ctx, x))
        }
    };
    v(ctx, c)
}
pub fn g_certificates(ctx: &mut Ctx) -> Certificates {
    let n = g_n1(ctx);
    let mut cs = Certificates::new();
    for i in 0..n {
        if i == 0 {
            let c = g_certificate(ctx);
            cs.add(&c);
        } else {
            cs.add(&Certificate::new_stake_delegation(&StakeDelegation::new(&cred_i(110 + i), &Ed25519KeyHash::from_bytes(h28(2)).unwrap())));
        }
    }
    v(ctx, cs)
}
pub fn g_withdrawals(ctx: &mut Ctx) -> Withdrawals {
    let n = g_n1(ctx);
    let mut pairs: Vec<(RewardAddress, BigNum)> = Vec::new();
    for i in 0..n {
        if i == 0 {
            let ra = g_reward_address(ctx);
            let c = g_coin(ctx);
            pairs.push((ra, c));
        } else {
            pairs.push((reward_i(120 + i), bn(i as u64)));
        }
    }
    pairs.sort_by(|a, b| a.0.cmp(&b.0));
    let mut w = Withdrawals::new();
    for (k, c) in &pairs {
        w.insert(k, c);
    }
    v(ctx, w)
}
pub fn g_update(ctx: &mut Ctx) -> Update {
    mark_legacy();
    let mut pp = ProposedProtocolParameterUpdates::new();
    let n = g_n1(ctx);
    let mut pairs: Vec<(GenesisHash, ProtocolParamUpdate)> = Vec::new();
    for i in 0..n {
        let mut ppu = ProtocolParamUpdate::new();
        if i == 0 {
            let f = ctx.choose(PPU_FIELDS);
            set_ppu_field(ctx, &mut ppu, f, false);
        } else {
            ppu.set_n_opt(i as u32);
        }
        pairs.push((GenesisHash::from_bytes(h28(130 + i)).unwrap(), ppu));
    }
    pairs.sort_by(|a, b| a.0.cmp(&b.0));
    for (k, u) in &pairs {
        pp.insert(k, u);
    }
    let pp = v(ctx, pp);
    let e = g_u32(ctx);
    v(ctx, Update::new(&pp, e))
}

// ---------------------------------------------------------------------------------------------
// body, witnesses, transaction, block

pub const BODY_OPT_FIELDS: usize = 18;
pub fn set_body_field(ctx: &mut Ctx, b: &mut TransactionBody, f: usize, vary: bool) {
    match f {
        0 => b.set_ttl(&if vary { g_coin(ctx) } else { bn(1000) }),
        1 => b.set_certs(&if vary { g_certificates(ctx) } else { let mut c = Certificates::new(); c.add(&Certificate::new_stake_delegation(&StakeDelegation::new(&cred_i(0), &Ed25519KeyHash::from_bytes(h28(2)).unwrap()))); c }),
        2 => b.set_withdrawals(&if vary { g_withdrawals(ctx) } else { let mut w = Withdrawals::new(); w.insert(&reward_i(0), &bn(5)); w }),
        3 => b.set_update(&if vary { g_update(ctx) } else { mark_legacy(); let mut pp = ProposedProtocolParameterUpdates::new(); let mut u = ProtocolParamUpdate::new(); u.set_n_opt(5); pp.insert(&GenesisHash::from_bytes(h28(130)).unwrap(), &u); Update::new(&pp, 7) }),
        4 => b.set_auxiliary_data_hash(&AuxiliaryDataHash::from_bytes(h32(11)).unwrap()),
        5 => b.set_validity_start_interval_bignum(&if vary { g_coin(ctx) } else { bn(500) }),
        6 => b.set_mint(&if vary { g_mint(ctx) } else { let mut m = Mint::new(); let mut ma = MintAssets::new(); ma.insert(&asset_name_i(1), &Int::new_i32(1)).unwrap(); m.insert(&ScriptHash::from_bytes(h28(100)).unwrap(), &ma); m }),
        7 => b.set_script_data_hash(&ScriptDataHash::from_bytes(h32(12)).unwrap()),
        8 => {
            let x = if vary { g_inputs(ctx) } else { let mut i = TransactionInputs::new(); i.add(&TransactionInput::new(&TransactionHash::from_bytes(h32(13)).unwrap(), 1)); i };
            if x.len() == 0 {
                mark_empty();
            }
            b.set_collateral(&x)
        }
        9 => {
            let x = if vary { g_keyhashes(ctx) } else { let mut k = Ed25519KeyHashes::new(); k.add(&Ed25519KeyHash::from_bytes(h28(14)).unwrap()); k };
            if x.len() == 0 {
                mark_empty();
            }
            b.set_required_signers(&x)
        }
        10 => b.set_network_id(&if vary && ctx.flag() { NetworkId::testnet() } else { NetworkId::mainnet() }),
        11 => b.set_collateral_return(&if vary { g_output(ctx) } else { TransactionOutput::new(&EnterpriseAddress::new(1, &cred_i(0)).to_address(), &Value::new(&bn(3_000_000))) }),
        12 => b.set_total_collateral(&if vary { g_coin(ctx) } else { bn(2_000_000) }),
        13 => {
            let x = if vary { g_inputs(ctx) } else { let mut i = TransactionInputs::new(); i.add(&TransactionInput::new(&TransactionHash::from_bytes(h32(15)).unwrap(), 2)); i };
            if x.len() == 0 {
                mark_empty();
            }
            b.set_reference_inputs(&x)
        }
        14 => b.set_voting_procedures(&if vary { g_voting_procedures(ctx) } else { let mut vp = VotingProcedures::new(); vp.insert(&Voter::new_stake_pool_key_hash(&Ed25519KeyHash::from_bytes(h28(16)).unwrap()), &GovernanceActionId::new(&TransactionHash::from_bytes(h32(17)).unwrap(), 0), &VotingProcedure::new(VoteKind::Yes)); vp }),
        15 => b.set_voting_proposals(&if vary { g_voting_proposals(ctx) } else { let mut ps = VotingProposals::new(); ps.add(&VotingProposal::new(&GovernanceAction::new_info_action(&InfoAction::new()), &anchor(), &reward_i(0), &bn(9))); ps }),
        16 => b.set_donation(&if vary { g_pos_coin(ctx) } else { bn(7) }),
        _ => b.set_current_treasury_value(&if vary { g_coin(ctx) } else { bn(8) }),
    }
}
pub fn g_body(ctx: &mut Ctx) -> TransactionBody {
    let ins = g_inputs(ctx);
    let outs = g_outputs(ctx);
    let fee = g_coin(ctx);
    let mut b = TransactionBody::new_tx_body(&ins, &outs, &fee);
    for f in 0..BODY_OPT_FIELDS {
        if ctx.flag() {
            set_body_field(ctx, &mut b, f, true);
        }
    }
    v(ctx, b)
}

thread_local! {
    static KEYS: Vec<(PublicKey, Ed25519Signature)> = (0..4u8).map(|i| {
        let sk = PrivateKey::from_normal_bytes(&[i + 1; 32]).unwrap();
        (sk.to_public(), sk.sign(&[i; 32]))
    }).collect();
}
pub fn vkeywitness_i(i: usize) -> Vkeywitness {
    KEYS.with(|k| Vkeywitness::new(&Vkey::new(&k[i % 4].0), &k[i % 4].1))
}
pub fn bootstrap_witness_i(i: usize) -> BootstrapWitness {
    KEYS.with(|k| BootstrapWitness::new(&Vkey::new(&k[i % 4].0), &k[i % 4].1, vec![i as u8; 32], if i % 2 == 0 { vec![0xa0] } else { vec![0xa1, 0x01, 0x41, 0x42] }))
}
pub fn g_vkeywitnesses(ctx: &mut Ctx) -> Vkeywitnesses {
    let n = *ctx.pick(&[1usize, 0, 2, 4]);
    let mut w = Vkeywitnesses::new();
    for i in 0..n {
        let x = vkeywitness_i(i);
        if i == 0 {
            visit(ctx, &x);
        }
        w.add(&x);
    }
    v(ctx, w)
}
pub fn g_bootstrap_witnesses(ctx: &mut Ctx) -> BootstrapWitnesses {
    let n = *ctx.pick(&[1usize, 0, 2, 4]);
    let mut w = BootstrapWitnesses::new();
    for i in 0..n {
        let x = bootstrap_witness_i(i);
        if i == 0 {
            visit(ctx, &x);
        }
        w.add(&x);
    }
    v(ctx, w)
}
pub fn g_redeemer_tag(ctx: &mut Ctx) -> RedeemerTag {
    let t = match ctx.choose(6) {
        0 => RedeemerTag::new_spend(),
        1 => RedeemerTag::new_mint(),
        2 => RedeemerTag::new_cert(),
        3 => RedeemerTag::new_reward(),
        4 => RedeemerTag::new_vote(),
        _ => RedeemerTag::new_voting_proposal(),
    };
    v(ctx, t)
}
pub fn g_redeemer(ctx: &mut Ctx) -> Redeemer {
    let t = g_redeemer_tag(ctx);
    let ix = bn(g_u32(ctx) as u64);
    let d = g_plutus_data(ctx, 1);
    let e = g_ex_units(ctx);
    v(ctx, Redeemer::new(&t, &ix, &d, &e))
}
pub fn g_redeemers(ctx: &mut Ctx) -> Redeemers {
    let n = g_n(ctx);
    let mut r = Redeemers::new();
    for i in 0..n {
        if i == 0 {
            let x = g_redeemer(ctx);
            r.add(&x);
        } else {
            r.add(&Redeemer::new(&RedeemerTag::new_mint(), &bn(1000 + i as u64), &PlutusData::new_integer(&BigInt::from(i as u64)), &ExUnits::new(&bn(1), &bn(2))));
        }
    }
    v(ctx, r)
}
pub const WITS_FIELDS: usize = 6;
pub fn g_witness_set(ctx: &mut Ctx) -> TransactionWitnessSet {
    let mut w = TransactionWitnessSet::new();
    for f in 0..WITS_FIELDS {
        if !ctx.flag() {
            continue;
        }
        match f {
            0 => {
                let x = g_vkeywitnesses(ctx);
                if x.len() == 0 {
                    mark_empty();
                }
                w.set_vkeys(&x)
            }
            1 => {
                let x = g_native_scripts(ctx, 2);
                if x.len() == 0 {
                    mark_empty();
                }
                w.set_native_scripts(&x)
            }
            2 => {
                let x = g_bootstrap_witnesses(ctx);
                if x.len() == 0 {
                    mark_empty();
                }
                w.set_bootstraps(&x)
            }
            3 => {
                let x = g_plutus_scripts(ctx);
                if x.len() == 0 {
                    mark_empty();
                }
                w.set_plutus_scripts(&x)
            }
            4 => {
                let x = g_plutus_list(ctx, 1);
                if x.len() == 0 {
                    mark_empty();
                }
                w.set_plutus_data(&x)
            }
            _ => {
                let x = g_redeemers(ctx);
                if x.len() == 0 {
                    mark_empty();
                }
                w.set_redeemers(&x)
            }
        }
    }
    v(ctx, w)
}
pub fn g_transaction(ctx: &mut Ctx) -> Transaction {
    let b = g_body(ctx);
    let w = g_witness_set(ctx);
    let a = g_opt(ctx, g_auxiliary_data);
    let mut t = Transaction::new(&b, &w, a);
    if ctx.flag() {
        t.set_is_valid(false);
    }
    v(ctx, t)
}

pub fn g_operational_cert(ctx: &mut Ctx) -> OperationalCert {
    let seq = g_u32(ctx);
    let per = g_u32(ctx);
    let sig = KEYS.with(|k| k[0].1.clone());
    v(ctx, OperationalCert::new(&KESVKey::from_bytes(h32(21)).unwrap(), seq, per, &sig))
}
pub fn g_vrf_cert(ctx: &mut Ctx) -> VRFCert {
    let n = *ctx.pick(&[32usize, 0, 64]);
    v(ctx, VRFCert::new(vec![0x11; n], vec![0x22; 80]).unwrap())
}
pub fn g_header_body(ctx: &mut Ctx) -> HeaderBody {
    let bn_ = g_u32(ctx);
    let slot = g_coin(ctx);
    let prev = g_opt(ctx, |_| BlockHash::from_bytes(h32(22)).unwrap());
    let vrf = g_vrf_cert(ctx);
    let size = g_u32(ctx);
    let oc = g_operational_cert(ctx);
    let pv = g_protocol_version(ctx);
    let vk = KEYS.with(|k| Vkey::new(&k[1].0));
    let vk = v(ctx, vk);
    v(ctx, HeaderBody::new_headerbody(bn_, &slot, prev, &vk, &VRFVKey::from_bytes(h32(23)).unwrap(), &vrf, size, &BlockHash::from_bytes(h32(24)).unwrap(), &oc, &pv))
}
pub fn g_header(ctx: &mut Ctx) -> Header {
    let hb = g_header_body(ctx);
    let sig = KESSignature::from_bytes(vec![0x77; 448]).unwrap();
    v(ctx, Header::new(&hb, &sig))
}
pub fn g_block(ctx: &mut Ctx) -> Block {
    let h = g_header(ctx);
    let n = *ctx.pick(&[1usize, 0, 2]);
    let mut bodies = TransactionBodies::new();
    let mut wits = TransactionWitnessSets::new();
    let mut aux = AuxiliaryDataSet::new();
    for i in 0..n {
        if i == 0 {
            let b = g_body(ctx);
            let w = g_witness_set(ctx);
            bodies.add(&b);
            wits.add(&w);
            if ctx.flag() {
                let a = g_auxiliary_data(ctx);
                aux.insert(0, &a);
            }
        } else {
            let mut ins = TransactionInputs::new();
            ins.add(&TransactionInput::new(&TransactionHash::from_bytes(h32(31)).unwrap(), i as u32));
            bodies.add(&TransactionBody::new_tx_body(&ins, &TransactionOutputs::new(), &bn(i as u64)));
            wits.add(&TransactionWitnessSet::new());
        }
    }
    let bodies = v(ctx, bodies);
    let wits = v(ctx, wits);
    let invalid: Vec<u32> = match ctx.choose(3) {
        0 => vec![],
        1 => vec![0],
        _ => vec![0, 65535],
    };
    v(ctx, Block::new(&h, &bodies, &wits, &aux, invalid))
}
pub fn g_versioned_block(ctx: &mut Ctx) -> VersionedBlock {
    let b = g_block(ctx);
    let era = *ctx.pick(&[7u32, 2, 3, 4, 5, 6]);
    v(ctx, VersionedBlock::new(b, era))
}

// ---------------------------------------------------------------------------------------------
// registry of root types

pub type Root = (&'static str, fn(&mut Ctx));

macro_rules! root {
    ($name:expr, $f:expr) => {
        ($name, {
            fn run(ctx: &mut Ctx) {
                let _ = $f(ctx);
            }
            run as fn(&mut Ctx)
        })
    };
}

pub fn roots() -> Vec<Root> {
    vec![
        root!("UnitInterval", g_unit_interval),
        root!("Address", g_address),
        root!("Credential", g_credential),
        root!("AssetName", g_asset_name),
        root!("Assets", g_assets),
        root!("MultiAsset", g_multiasset),
        root!("Value", g_value),
        root!("Mint", g_mint),
        root!("NativeScript", |c: &mut Ctx| g_native_script(c, 3)),
        root!("NativeScripts", |c: &mut Ctx| g_native_scripts(c, 2)),
        root!("PlutusScript", g_plutus_script),
        root!("PlutusScripts", g_plutus_scripts),
        root!("BigInt", g_bigint),
        root!("Int", g_int),
        root!("PlutusData", |c: &mut Ctx| g_plutus_data(c, 3)),
        root!("PlutusList", |c: &mut Ctx| g_plutus_list(c, 2)),
        root!("TransactionMetadatum", |c: &mut Ctx| g_metadatum(c, 3)),
        root!("GeneralTransactionMetadata", g_general_metadata),
        root!("AuxiliaryData", g_auxiliary_data),
        root!("TransactionInput", g_input),
        root!("TransactionInputs", g_inputs),
        root!("ScriptRef", g_script_ref),
        root!("TransactionOutput", g_output),
        root!("TransactionOutputs", g_outputs),
        root!("TransactionUnspentOutput", g_utxo),
        root!("Relay", g_relay),
        root!("Relays", g_relays),
        root!("PoolParams", g_pool_params),
        root!("DRep", g_drep),
        root!("GovernanceActionId", g_action_id),
        root!("ProtocolVersion", g_protocol_version),
        root!("ExUnits", g_ex_units),
        root!("ExUnitPrices", g_ex_unit_prices),
        root!("Language", g_language),
        root!("CostModel", g_cost_model),
        root!("Costmdls", g_costmdls),
        root!("PoolVotingThresholds", g_pool_voting_thresholds),
        root!("DRepVotingThresholds", g_drep_voting_thresholds),
        root!("ProtocolParamUpdate", g_ppu),
        root!("Constitution", g_constitution),
        root!("Committee", g_committee),
        root!("Credentials", g_credentials),
        root!("GovernanceAction", g_governance_action),
        root!("VotingProposal", g_voting_proposal),
        root!("VotingProposals", g_voting_proposals),
        root!("Voter", g_voter),
        root!("VotingProcedure", g_voting_procedure),
        root!("VotingProcedures", g_voting_procedures),
        root!("Certificate", g_certificate),
        root!("Certificates", g_certificates),
        root!("Withdrawals", g_withdrawals),
        root!("Update", g_update),
        root!("TransactionBody", g_body),
        root!("Vkeywitnesses", g_vkeywitnesses),
        root!("BootstrapWitnesses", g_bootstrap_witnesses),
        root!("Redeemer", g_redeemer),
        root!("Redeemers", g_redeemers),
        root!("TransactionWitnessSet", g_witness_set),
        root!("Transaction", g_transaction),
        root!("OperationalCert", g_operational_cert),
        root!("VRFCert", g_vrf_cert),
        root!("HeaderBody", g_header_body),
        root!("Header", g_header),
        root!("Block", g_block),
        root!("VersionedBlock", g_versioned_block),
        root!("Ed25519KeyHashes", g_keyhashes),
        root!("Anchor", g_anchor),
        root!("URL", g_url),
    ]
}

pub fn root_by_name(name: &str) -> Option<fn(&mut Ctx)> {
    roots().into_iter().find(|r| r.0 == name).map(|r| r.1)
}
