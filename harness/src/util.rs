//! Small helpers shared by the property modules.

use cardano_serialization_lib as csl;
use csl::*;

pub fn bn(x: u64) -> BigNum {
    BigNum::from(x)
}

pub fn u(x: &BigNum) -> u64 {
    u64::from(*x)
}

pub fn blake2b(bytes: &[u8], out_len: usize) -> Vec<u8> {
    use cryptoxide::blake2b::Blake2b;
    use cryptoxide::digest::Digest;
    let mut h = Blake2b::new(out_len);
    h.input(bytes);
    let mut out = vec![0u8; out_len];
    h.result(&mut out);
    out
}

pub fn blake2b256(bytes: &[u8]) -> Vec<u8> {
    blake2b(bytes, 32)
}

pub fn blake2b224(bytes: &[u8]) -> Vec<u8> {
    blake2b(bytes, 28)
}

pub fn hx(b: &[u8]) -> String {
    hex::encode(b)
}

pub fn short(s: &str, n: usize) -> String {
    if s.len() <= n {
        s.to_string()
    } else {
        let mut end = n;
        while !s.is_char_boundary(end) {
            end -= 1;
        }
        format!("{}…", &s[..end])
    }
}
