//! Conway-era CDDL validator over refcbor trees (transcription of notes/conway.cddl).
//! Shares no code with the library or cbor_event. Besides the shapes it demands, per C03:
//!   * every head is the shortest definite form, except non-empty Plutus lists (indefinite) and
//!     byte strings > 64 bytes inside Plutus data / big integers (64-byte chunks under 5f);
//!   * set-typed fields carry tag 258 and hold no two byte-equal elements.

use crate::refcbor::{min_width, Kind, Node};

pub struct V<'a> {
    pub src: &'a [u8],
    /// builder-output mode: no zero-quantity asset, no empty policy bundle
    pub builder_mode: bool,
    pub errs: Vec<(String, String)>,
    pub legacy_seen: bool,
    path: Vec<String>,
    /// set while the outer (policy) map of a mint field is read
    mint_outer: bool,
}

type R = ();

impl<'a> V<'a> {
    pub fn new(src: &'a [u8], builder_mode: bool) -> V<'a> {
        V { src, builder_mode, errs: vec![], legacy_seen: false, path: vec![], mint_outer: false }
    }
    fn err(&mut self, kind: &str, msg: String) {
        let p = self.path.join(".");
        self.errs.push((format!("{}@{}", kind, p), msg));
    }
    fn at<T>(&mut self, seg: &str, f: impl FnOnce(&mut Self) -> T) -> T {
        self.path.push(seg.to_string());
        let r = f(self);
        self.path.pop();
        r
    }
    fn span(&self, n: &Node) -> &'a [u8] {
        &self.src[n.start..n.end]
    }

    // ------------------------------------------------------------------ head discipline
    fn head(&mut self, n: &Node, arg: u64) {
        if n.indefinite {
            self.err("indefinite-length", format!("{} uses an indefinite length", n.type_name()));
        } else if n.width != min_width(arg) {
            self.err("non-shortest-head", format!("{} argument {} encoded with {} following bytes (shortest is {})", n.type_name(), arg, n.width, min_width(arg)));
        }
    }
    fn uint(&mut self, n: &Node) -> Option<u64> {
        match n.kind {
            Kind::UInt(v) => {
                self.head(n, v);
                Some(v)
            }
            _ => {
                self.err("shape", format!("expected uint, found {}", n.type_name()));
                None
            }
        }
    }
    fn uint_max(&mut self, n: &Node, max: u64, what: &str) -> Option<u64> {
        let v = self.uint(n)?;
        if v > max {
            self.err("range", format!("{} = {} exceeds {}", what, v, max));
        }
        Some(v)
    }
    fn int(&mut self, n: &Node) -> Option<i128> {
        match n.kind {
            Kind::UInt(v) => {
                self.head(n, v);
                Some(v as i128)
            }
            Kind::NInt(v) => {
                self.head(n, v);
                Some(-1 - v as i128)
            }
            _ => {
                self.err("shape", format!("expected int, found {}", n.type_name()));
                None
            }
        }
    }
    fn bytes(&mut self, n: &Node) -> Option<&'a [u8]> {
        match &n.kind {
            Kind::Bytes(b) => {
                self.head(n, b.len() as u64);
                if n.indefinite {
                    return None;
                }
                // definite string: payload is the tail of the span
                let s = self.span(n);
                Some(&s[s.len() - b.len()..])
            }
            _ => {
                self.err("shape", format!("expected bytes, found {}", n.type_name()));
                None
            }
        }
    }
    fn bytes_n(&mut self, n: &Node, len: usize, what: &str) {
        if let Some(b) = self.bytes(n) {
            if b.len() != len {
                self.err("size", format!("{}: {} bytes, expected {}", what, b.len(), len));
            }
        }
    }
    fn bytes_max(&mut self, n: &Node, max: usize, what: &str) {
        if let Some(b) = self.bytes(n) {
            if b.len() > max {
                self.err("size", format!("{}: {} bytes, at most {}", what, b.len(), max));
            }
        }
    }
    fn text_max(&mut self, n: &Node, max: usize, what: &str) {
        match &n.kind {
            Kind::Text(b) => {
                self.head(n, b.len() as u64);
                if b.len() > max {
                    self.err("size", format!("{}: {} bytes of text, at most {}", what, b.len(), max));
                }
            }
            _ => self.err("shape", format!("{}: expected text, found {}", what, n.type_name())),
        }
    }
    fn arr<'n>(&mut self, n: &'n Node) -> Option<&'n Vec<Node>> {
        match &n.kind {
            Kind::Array(a) => {
                self.head(n, a.len() as u64);
                Some(a)
            }
            _ => {
                self.err("shape", format!("expected array, found {}", n.type_name()));
                None
            }
        }
    }
    fn arr_n<'n>(&mut self, n: &'n Node, len: usize, what: &str) -> Option<&'n Vec<Node>> {
        let a = self.arr(n)?;
        if a.len() != len {
            self.err("arity", format!("{}: array of {} items, expected {}", what, a.len(), len));
            return None;
        }
        Some(a)
    }
    fn map<'n>(&mut self, n: &'n Node) -> Option<&'n Vec<(Node, Node)>> {
        match &n.kind {
            Kind::Map(m) => {
                self.head(n, m.len() as u64);
                // no two byte-equal keys
                for i in 0..m.len() {
                    for j in 0..i {
                        if self.span(&m[i].0) == self.span(&m[j].0) {
                            // a typed Mint holding one policy in two entries (Mint::insert appends) is named as
                            // such; the builder never produces one, so in builder mode it stays the generic kind
                            let kind = if self.mint_outer && !self.builder_mode { "typed-mint-holds-a-policy-in-two-entries" } else { "duplicate-map-key" };
                            self.err(kind, format!("key {} occurs twice", crate::refcbor::diag(&m[i].0)));
                        }
                    }
                }
                Some(m)
            }
            _ => {
                self.err("shape", format!("expected map, found {}", n.type_name()));
                None
            }
        }
    }
    fn tag<'n>(&mut self, n: &'n Node, want: u64) -> Option<&'n Node> {
        match &n.kind {
            Kind::Tag(t, inner) => {
                self.head(n, *t);
                if *t != want {
                    self.err("tag", format!("tag {} where {} is required", t, want));
                    return None;
                }
                Some(inner)
            }
            _ => {
                self.err("shape", format!("expected tag {}, found {}", want, n.type_name()));
                None
            }
        }
    }
    fn nil_or(&mut self, n: &Node, f: impl FnOnce(&mut Self, &Node)) {
        if !n.is_null() {
            f(self, n)
        }
    }
    fn boolean(&mut self, n: &Node) {
        if !matches!(n.kind, Kind::Simple(20) | Kind::Simple(21)) {
            self.err("shape", format!("expected bool, found {}", crate::refcbor::diag(n)));
        }
    }

    /// set<a> / nonempty_set<a>: tag 258, no two byte-equal elements
    fn set(&mut self, n: &Node, nonempty: bool, what: &str, mut elem: impl FnMut(&mut Self, &Node)) {
        let inner = match &n.kind {
            Kind::Tag(258, inner) => {
                self.head(n, 258);
                &**inner
            }
            Kind::Array(_) => {
                self.err("missing-set-tag", format!("{} is a set-typed field but carries no tag 258", what));
                n
            }
            _ => {
                self.err("shape", format!("{}: expected #6.258([..]), found {}", what, n.type_name()));
                return;
            }
        };
        if let Some(a) = self.arr(inner) {
            if nonempty && a.is_empty() {
                self.err("empty-nonempty-set", format!("{} is empty", what));
            }
            for i in 0..a.len() {
                for j in 0..i {
                    if self.span(&a[i]) == self.span(&a[j]) {
                        self.err("duplicate-in-set", format!("{}: element {} equals element {}", what, i, j));
                    }
                }
            }
            for (i, x) in a.iter().enumerate() {
                self.at(&format!("[{}]", i.min(3)), |s| elem(s, x));
            }
        }
    }

    // ------------------------------------------------------------------ leaves
    pub fn hash28(&mut self, n: &Node) {
        self.bytes_n(n, 28, "hash28")
    }
    pub fn hash32(&mut self, n: &Node) {
        self.bytes_n(n, 32, "hash32")
    }
    pub fn coin(&mut self, n: &Node) {
        self.uint(n);
    }
    pub fn positive_coin(&mut self, n: &Node) {
        if let Some(0) = self.uint(n) {
            self.err("range", "positive_coin is 0".into());
        }
    }
    pub fn unit_interval(&mut self, n: &Node) {
        if let Some(inner) = self.tag(n, 30) {
            if let Some(a) = self.arr_n(inner, 2, "unit_interval") {
                self.uint(&a[0]);
                self.uint(&a[1]);
            }
        }
    }
    pub fn address(&mut self, n: &Node) {
        self.bytes(n);
    }
    pub fn reward_account(&mut self, n: &Node) {
        if let Some(b) = self.bytes(n) {
            if b.len() != 29 || (b[0] & 0xe0) != 0xe0 {
                self.err("shape", format!("reward_account: {} bytes, header {:02x}", b.len(), b.first().copied().unwrap_or(0)));
            }
        }
    }
    pub fn credential(&mut self, n: &Node) {
        if let Some(a) = self.arr_n(n, 2, "credential") {
            self.uint_max(&a[0], 1, "credential kind");
            self.hash28(&a[1]);
        }
    }
    pub fn anchor(&mut self, n: &Node) {
        if let Some(a) = self.arr_n(n, 2, "anchor") {
            self.text_max(&a[0], 128, "url");
            self.hash32(&a[1]);
        }
    }
    pub fn drep(&mut self, n: &Node) {
        if let Some(a) = self.arr(n) {
            match a.first().and_then(|k| k.as_uint()) {
                Some(0) | Some(1) if a.len() == 2 => {
                    self.uint(&a[0]);
                    self.hash28(&a[1]);
                }
                Some(2) | Some(3) if a.len() == 1 => {
                    self.uint(&a[0]);
                }
                _ => self.err("shape", format!("drep: {}", crate::refcbor::diag(n))),
            }
        }
    }
    pub fn gov_action_id(&mut self, n: &Node) {
        if let Some(a) = self.arr_n(n, 2, "gov_action_id") {
            self.hash32(&a[0]);
            self.uint_max(&a[1], 65535, "gov_action_index");
        }
    }
    pub fn protocol_version(&mut self, n: &Node) {
        if let Some(a) = self.arr_n(n, 2, "protocol_version") {
            self.uint(&a[0]);
            self.uint(&a[1]);
        }
    }
    pub fn ex_units(&mut self, n: &Node) {
        if let Some(a) = self.arr_n(n, 2, "ex_units") {
            self.uint(&a[0]);
            self.uint(&a[1]);
        }
    }
    pub fn ex_unit_prices(&mut self, n: &Node) {
        if let Some(a) = self.arr_n(n, 2, "ex_unit_prices") {
            self.unit_interval(&a[0]);
            self.unit_interval(&a[1]);
        }
    }
    pub fn transaction_input(&mut self, n: &Node) {
        if let Some(a) = self.arr_n(n, 2, "transaction_input") {
            self.hash32(&a[0]);
            self.uint_max(&a[1], 65535, "transaction input index");
        }
    }
    pub fn inputs_set(&mut self, n: &Node, nonempty: bool, what: &str) {
        self.set(n, nonempty, what, |s, x| s.transaction_input(x));
    }
    pub fn keyhash_set(&mut self, n: &Node, nonempty: bool, what: &str) {
        self.set(n, nonempty, what, |s, x| s.hash28(x));
    }

    // ------------------------------------------------------------------ values
    pub fn asset_name(&mut self, n: &Node) {
        self.bytes_max(n, 32, "asset_name")
    }
    pub fn multiasset(&mut self, n: &Node, mint: bool) {
        self.mint_outer = mint;
        let outer = self.map(n);
        self.mint_outer = false;
        if let Some(m) = outer {
            if m.is_empty() && (self.builder_mode || mint) {
                self.err("empty-multiasset", "multiasset map is empty".into());
            }
            self.sorted_keys(m, "policy ids");
            for (k, v) in m {
                self.hash28(k);
                if let Some(assets) = self.map(v) {
                    if assets.is_empty() && self.builder_mode {
                        self.err("empty-policy-bundle", "a policy with no assets".into());
                    }
                    self.sorted_keys(assets, "asset names");
                    for (an, q) in assets {
                        self.asset_name(an);
                        if mint {
                            match self.int(q) {
                                Some(0) => self.err("range", "mint quantity 0".into()),
                                Some(x) if x < i64::MIN as i128 || x > i64::MAX as i128 => {
                                    // Conway: nonZeroInt64. CSL's Int is wider; typed-API mode tolerates it
                                    if self.builder_mode {
                                        self.err("range", format!("mint quantity {} outside int64", x));
                                    }
                                }
                                _ => {}
                            }
                        } else if let Some(0) = self.uint(q) {
                            if self.builder_mode {
                                self.err("zero-quantity-asset", "an asset with quantity 0".into());
                            }
                        }
                    }
                }
            }
        }
    }
    /// canonical CBOR map-key order (length first, then bytewise) is what C16 checks; here only
    /// recorded as a hit so that C03 does not demand more than the CDDL does
    fn sorted_keys(&mut self, _m: &Vec<(Node, Node)>, _what: &str) {}

    pub fn value(&mut self, n: &Node) {
        match &n.kind {
            Kind::UInt(_) => {
                self.uint(n);
            }
            Kind::Array(_) => {
                if let Some(a) = self.arr_n(n, 2, "value") {
                    self.coin(&a[0]);
                    self.at("multiasset", |s| s.multiasset(&a[1], false));
                }
            }
            _ => self.err("shape", format!("value: {}", n.type_name())),
        }
    }
    pub fn mint(&mut self, n: &Node) {
        self.multiasset(n, true)
    }

    // ------------------------------------------------------------------ scripts & data
    pub fn native_script(&mut self, n: &Node) {
        if let Some(a) = self.arr(n) {
            let k = a.first().and_then(|k| k.as_uint());
            match (k, a.len()) {
                (Some(0), 2) => {
                    self.uint(&a[0]);
                    self.hash28(&a[1]);
                }
                (Some(1), 2) | (Some(2), 2) => {
                    self.uint(&a[0]);
                    if let Some(subs) = self.arr(&a[1]) {
                        for s in subs {
                            self.native_script(s);
                        }
                    }
                }
                (Some(3), 3) => {
                    self.uint(&a[0]);
                    self.int(&a[1]);
                    if let Some(subs) = self.arr(&a[2]) {
                        for s in subs {
                            self.native_script(s);
                        }
                    }
                }
                (Some(4), 2) | (Some(5), 2) => {
                    self.uint(&a[0]);
                    self.uint(&a[1]);
                }
                _ => self.err("shape", format!("native_script: {}", crate::refcbor::diag(n).chars().take(80).collect::<String>())),
            }
        }
    }
    /// bounded_bytes: <= 64 bytes definite, longer only as 5f (58 40 x64)* last ff
    fn bounded_bytes(&mut self, n: &Node) {
        match &n.kind {
            Kind::Bytes(b) => {
                if !n.indefinite {
                    self.head(n, b.len() as u64);
                    if b.len() > 64 {
                        self.err("bounded-bytes", format!("definite byte string of {} bytes inside plutus data", b.len()));
                    }
                } else {
                    if b.len() <= 64 {
                        self.err("indefinite-length", format!("byte string of {} bytes written in chunks", b.len()));
                    }
                    for (i, (len, w)) in n.chunks.iter().enumerate() {
                        let last = i + 1 == n.chunks.len();
                        if *len > 64 || (!last && *len != 64) || *len == 0 {
                            self.err("bounded-bytes", format!("chunk {} has {} bytes", i, len));
                        }
                        if *w != min_width(*len as u64) {
                            self.err("non-shortest-head", format!("chunk {} head", i));
                        }
                    }
                }
            }
            _ => self.err("shape", format!("expected bounded bytes, found {}", n.type_name())),
        }
    }
    fn plutus_list(&mut self, n: &Node) {
        match &n.kind {
            Kind::Array(a) => {
                if a.is_empty() {
                    if n.indefinite {
                        self.err("indefinite-length", "empty plutus list written as 9fff".into());
                    }
                } else if !n.indefinite {
                    // the sanctioned form for non-empty lists is indefinite; a definite one is still
                    // valid CDDL, it is only recorded (the property sanctions, it does not require)
                    self.head(n, a.len() as u64);
                }
                for x in a {
                    self.plutus_data(x);
                }
            }
            _ => self.err("shape", format!("expected plutus list, found {}", n.type_name())),
        }
    }
    pub fn plutus_data(&mut self, n: &Node) {
        match &n.kind {
            Kind::UInt(v) | Kind::NInt(v) => self.head(n, *v),
            Kind::Bytes(_) => self.bounded_bytes(n),
            Kind::Array(_) => self.plutus_list(n),
            Kind::Map(m) => {
                if n.indefinite {
                    self.err("indefinite-length", "plutus map".into());
                } else if n.width != min_width(m.len() as u64) {
                    self.err("non-shortest-head", "plutus map".into());
                }
                for (k, v) in m {
                    self.plutus_data(k);
                    self.plutus_data(v);
                }
            }
            Kind::Tag(t, inner) => {
                self.head(n, *t);
                match *t {
                    2 | 3 => self.bounded_bytes(inner),
                    121..=127 | 1280..=1400 => self.plutus_list(inner),
                    102 => {
                        if let Some(a) = self.arr_n(inner, 2, "constr 102") {
                            self.uint(&a[0]);
                            self.plutus_list(&a[1]);
                        }
                    }
                    _ => self.err("tag", format!("tag {} inside plutus data", t)),
                }
            }
            _ => self.err("shape", format!("plutus_data: {}", n.type_name())),
        }
    }
    pub fn metadatum(&mut self, n: &Node) {
        match &n.kind {
            Kind::UInt(v) | Kind::NInt(v) => self.head(n, *v),
            Kind::Bytes(_) => self.bytes_max(n, 64, "metadatum bytes"),
            Kind::Text(_) => self.text_max(n, 64, "metadatum text"),
            Kind::Array(_) => {
                if let Some(a) = self.arr(n) {
                    for x in a {
                        self.metadatum(x);
                    }
                }
            }
            Kind::Map(_) => {
                if let Some(m) = self.map(n) {
                    for (k, v) in m {
                        self.metadatum(k);
                        self.metadatum(v);
                    }
                }
            }
            _ => self.err("shape", format!("transaction_metadatum: {}", n.type_name())),
        }
    }
    pub fn metadata(&mut self, n: &Node) {
        if let Some(m) = self.map(n) {
            for (k, v) in m {
                self.uint(k);
                self.at("metadatum", |s| s.metadatum(v));
            }
        }
    }
    pub fn auxiliary_data(&mut self, n: &Node) {
        match &n.kind {
            Kind::Map(_) => self.metadata(n),
            Kind::Array(_) => {
                if let Some(a) = self.arr_n(n, 2, "auxiliary_data (shelley-ma)") {
                    self.metadata(&a[0]);
                    if let Some(s) = self.arr(&a[1]) {
                        for x in s {
                            self.native_script(x);
                        }
                    }
                }
            }
            Kind::Tag(259, inner) => {
                self.head(n, 259);
                if let Some(m) = self.map(inner) {
                    for (k, v) in m {
                        match self.uint(k) {
                            Some(0) => self.metadata(v),
                            Some(1) => {
                                if let Some(s) = self.arr(v) {
                                    for x in s {
                                        self.native_script(x);
                                    }
                                }
                            }
                            Some(2) | Some(3) | Some(4) => {
                                if let Some(s) = self.arr(v) {
                                    for x in s {
                                        self.bytes(x);
                                    }
                                }
                            }
                            Some(x) => self.err("unknown-key", format!("auxiliary_data key {}", x)),
                            None => {}
                        }
                    }
                }
            }
            _ => self.err("shape", format!("auxiliary_data: {}", n.type_name())),
        }
    }
    pub fn script_ref(&mut self, n: &Node) {
        if let Some(inner) = self.tag(n, 24) {
            if let Some(b) = self.bytes(inner) {
                match crate::refcbor::parse(b) {
                    Ok(s) => {
                        let mut sub = V::new(b, self.builder_mode);
                        if let Some(a) = sub.arr_n(&s, 2, "script") {
                            match sub.uint_max(&a[0], 3, "script kind") {
                                Some(0) => sub.native_script(&a[1]),
                                Some(_) => {
                                    sub.bytes(&a[1]);
                                }
                                None => {}
                            }
                        }
                        for (k, m) in sub.errs {
                            self.errs.push((format!("{}/script_ref", k), m));
                        }
                    }
                    Err(e) => self.err("cbor-in-cbor", format!("script_ref payload is not CBOR: {:?}", e)),
                }
            }
        }
    }
    pub fn datum_option(&mut self, n: &Node) {
        if let Some(a) = self.arr_n(n, 2, "datum_option") {
            match self.uint_max(&a[0], 1, "datum_option kind") {
                Some(0) => self.hash32(&a[1]),
                Some(1) => {
                    if let Some(inner) = self.tag(&a[1], 24) {
                        if let Some(b) = self.bytes(inner) {
                            match crate::refcbor::parse(b) {
                                Ok(d) => {
                                    let mut sub = V::new(b, self.builder_mode);
                                    sub.plutus_data(&d);
                                    for (k, m) in sub.errs {
                                        self.errs.push((format!("{}/inline-datum", k), m));
                                    }
                                }
                                Err(e) => self.err("cbor-in-cbor", format!("inline datum is not CBOR: {:?}", e)),
                            }
                        }
                    }
                }
                _ => {}
            }
        }
    }
    pub fn transaction_output(&mut self, n: &Node) {
        match &n.kind {
            Kind::Array(_) => {
                if let Some(a) = self.arr(n) {
                    if a.len() < 2 || a.len() > 3 {
                        self.err("arity", format!("legacy output with {} items", a.len()));
                        return;
                    }
                    self.address(&a[0]);
                    self.at("value", |s| s.value(&a[1]));
                    if a.len() == 3 {
                        self.hash32(&a[2]);
                    }
                }
            }
            Kind::Map(_) => {
                if let Some(m) = self.map(n) {
                    let mut seen = [false; 4];
                    for (k, v) in m {
                        match self.uint(k) {
                            Some(0) => self.address(v),
                            Some(1) => self.at("value", |s| s.value(v)),
                            Some(2) => self.datum_option(v),
                            Some(3) => self.script_ref(v),
                            Some(x) => self.err("unknown-key", format!("output key {}", x)),
                            None => {}
                        }
                        if let Some(x) = k.as_uint() {
                            if x < 4 {
                                seen[x as usize] = true;
                            }
                        }
                    }
                    if !seen[0] || !seen[1] {
                        self.err("missing-key", "output without address or value".into());
                    }
                }
            }
            _ => self.err("shape", format!("transaction_output: {}", n.type_name())),
        }
    }

    // ------------------------------------------------------------------ pool, relays
    pub fn relay(&mut self, n: &Node) {
        if let Some(a) = self.arr(n) {
            match (a.first().and_then(|k| k.as_uint()), a.len()) {
                (Some(0), 4) => {
                    self.uint(&a[0]);
                    self.nil_or(&a[1], |s, x| {
                        s.uint_max(x, 65535, "port");
                    });
                    self.nil_or(&a[2], |s, x| s.bytes_n(x, 4, "ipv4"));
                    self.nil_or(&a[3], |s, x| s.bytes_n(x, 16, "ipv6"));
                }
                (Some(1), 3) => {
                    self.uint(&a[0]);
                    self.nil_or(&a[1], |s, x| {
                        s.uint_max(x, 65535, "port");
                    });
                    self.text_max(&a[2], 128, "dns_name");
                }
                (Some(2), 2) => {
                    self.uint(&a[0]);
                    self.text_max(&a[1], 128, "dns_name");
                }
                _ => self.err("shape", format!("relay: {}", crate::refcbor::diag(n).chars().take(60).collect::<String>())),
            }
        }
    }
    /// the nine pool-parameter items starting at a[off]
    fn pool_params_group(&mut self, a: &[Node]) {
        if a.len() != 9 {
            self.err("arity", format!("pool_params with {} items", a.len()));
            return;
        }
        self.hash28(&a[0]);
        self.hash32(&a[1]);
        self.coin(&a[2]);
        self.coin(&a[3]);
        self.unit_interval(&a[4]);
        self.reward_account(&a[5]);
        self.keyhash_set(&a[6], false, "pool_owners");
        if let Some(rs) = self.arr(&a[7]) {
            for r in rs {
                self.relay(r);
            }
        }
        self.nil_or(&a[8], |s, x| {
            if let Some(pm) = s.arr_n(x, 2, "pool_metadata") {
                s.text_max(&pm[0], 128, "url");
                s.hash32(&pm[1]);
            }
        });
    }

    // ------------------------------------------------------------------ certificates
    pub fn certificate(&mut self, n: &Node) {
        let a = match self.arr(n) {
            Some(a) => a,
            None => return,
        };
        let k = match a.first().and_then(|k| k.as_uint()) {
            Some(k) => k,
            None => {
                self.err("shape", "certificate without a kind".into());
                return;
            }
        };
        self.uint(&a[0]);
        let arity = |s: &mut Self, want: usize| -> bool {
            if a.len() != want {
                s.err("arity", format!("certificate kind {}: {} items, expected {}", k, a.len(), want));
                false
            } else {
                true
            }
        };
        match k {
            0 | 1 => {
                self.legacy_seen = true;
                if arity(self, 2) {
                    self.credential(&a[1]);
                }
            }
            2 => {
                if arity(self, 3) {
                    self.credential(&a[1]);
                    self.hash28(&a[2]);
                }
            }
            3 => {
                if a.len() == 10 {
                    self.pool_params_group(&a[1..]);
                } else {
                    self.err("arity", format!("pool_registration with {} items", a.len()));
                }
            }
            4 => {
                if arity(self, 3) {
                    self.hash28(&a[1]);
                    self.uint(&a[2]);
                }
            }
            5 => {
                self.legacy_seen = true;
                if arity(self, 4) {
                    self.hash28(&a[1]);
                    self.hash28(&a[2]);
                    self.hash32(&a[3]);
                }
            }
            6 => {
                self.legacy_seen = true;
                if arity(self, 2) {
                    if let Some(m) = self.arr_n(&a[1], 2, "move_instantaneous_reward") {
                        self.uint_max(&m[0], 1, "MIR pot");
                        match &m[1].kind {
                            Kind::Map(_) => {
                                if let Some(mm) = self.map(&m[1]) {
                                    for (c, d) in mm {
                                        self.credential(c);
                                        self.int(d);
                                    }
                                }
                            }
                            _ => self.coin(&m[1]),
                        }
                    }
                }
            }
            7 | 8 => {
                if arity(self, 3) {
                    self.credential(&a[1]);
                    self.coin(&a[2]);
                }
            }
            9 => {
                if arity(self, 3) {
                    self.credential(&a[1]);
                    self.drep(&a[2]);
                }
            }
            10 => {
                if arity(self, 4) {
                    self.credential(&a[1]);
                    self.hash28(&a[2]);
                    self.drep(&a[3]);
                }
            }
            11 => {
                if arity(self, 4) {
                    self.credential(&a[1]);
                    self.hash28(&a[2]);
                    self.coin(&a[3]);
                }
            }
            12 => {
                if arity(self, 4) {
                    self.credential(&a[1]);
                    self.drep(&a[2]);
                    self.coin(&a[3]);
                }
            }
            13 => {
                if arity(self, 5) {
                    self.credential(&a[1]);
                    self.hash28(&a[2]);
                    self.drep(&a[3]);
                    self.coin(&a[4]);
                }
            }
            14 => {
                if arity(self, 3) {
                    self.credential(&a[1]);
                    self.credential(&a[2]);
                }
            }
            15 => {
                if arity(self, 3) {
                    self.credential(&a[1]);
                    self.nil_or(&a[2], |s, x| s.anchor(x));
                }
            }
            16 => {
                if arity(self, 4) {
                    self.credential(&a[1]);
                    self.coin(&a[2]);
                    self.nil_or(&a[3], |s, x| s.anchor(x));
                }
            }
            17 => {
                if arity(self, 3) {
                    self.credential(&a[1]);
                    self.coin(&a[2]);
                }
            }
            18 => {
                if arity(self, 3) {
                    self.credential(&a[1]);
                    self.nil_or(&a[2], |s, x| s.anchor(x));
                }
            }
            _ => self.err("unknown-variant", format!("certificate kind {}", k)),
        }
    }

    // ------------------------------------------------------------------ governance
    pub fn costmdls(&mut self, n: &Node) {
        if let Some(m) = self.map(n) {
            for (k, v) in m {
                self.uint_max(k, 255, "language");
                if let Some(a) = self.arr(v) {
                    for x in a {
                        self.int(x);
                    }
                }
            }
        }
    }
    pub fn protocol_param_update(&mut self, n: &Node) {
        if let Some(m) = self.map(n) {
            for (k, v) in m {
                let key = match self.uint(k) {
                    Some(x) => x,
                    None => continue,
                };
                self.at(&format!("{}", key), |s| match key {
                    0 | 1 | 5 | 6 | 16 | 17 | 30 | 31 => s.coin(v),
                    2 | 3 | 7 | 22 | 28 | 29 | 32 => {
                        s.uint_max(v, u32::MAX as u64, "u32 parameter");
                    }
                    4 | 8 | 23 | 24 | 27 => {
                        s.uint_max(v, u32::MAX as u64, "parameter");
                    }
                    9 | 10 | 11 | 33 => s.unit_interval(v),
                    12 => {
                        s.legacy_seen = true;
                        s.unit_interval(v)
                    }
                    13 => {
                        s.legacy_seen = true;
                        if let Some(a) = s.arr(v) {
                            match a.first().and_then(|x| x.as_uint()) {
                                Some(0) if a.len() == 1 => {}
                                Some(1) if a.len() == 2 => s.bytes_n(&a[1], 32, "nonce"),
                                _ => s.err("shape", "nonce".into()),
                            }
                        }
                    }
                    14 => {
                        s.legacy_seen = true;
                        s.protocol_version(v)
                    }
                    15 => {
                        s.legacy_seen = true;
                        s.coin(v)
                    }
                    18 => s.costmdls(v),
                    19 => s.ex_unit_prices(v),
                    20 | 21 => s.ex_units(v),
                    25 => {
                        if let Some(a) = s.arr_n(v, 5, "pool_voting_thresholds") {
                            for x in a {
                                s.unit_interval(x);
                            }
                        }
                    }
                    26 => {
                        if let Some(a) = s.arr_n(v, 10, "drep_voting_thresholds") {
                            for x in a {
                                s.unit_interval(x);
                            }
                        }
                    }
                    x => s.err("unknown-key", format!("protocol_param_update key {}", x)),
                });
            }
        }
    }
    pub fn gov_action(&mut self, n: &Node) {
        let a = match self.arr(n) {
            Some(a) => a,
            None => return,
        };
        let k = match a.first().and_then(|k| k.as_uint()) {
            Some(k) => k,
            None => {
                self.err("shape", "gov_action without a kind".into());
                return;
            }
        };
        self.uint(&a[0]);
        let want = [4usize, 3, 3, 2, 5, 3, 1];
        if k > 6 {
            self.err("unknown-variant", format!("gov_action kind {}", k));
            return;
        }
        if a.len() != want[k as usize] {
            self.err("arity", format!("gov_action kind {}: {} items, expected {}", k, a.len(), want[k as usize]));
            return;
        }
        match k {
            0 => {
                self.nil_or(&a[1], |s, x| s.gov_action_id(x));
                self.at("ppu", |s| s.protocol_param_update(&a[2]));
                self.nil_or(&a[3], |s, x| s.hash28(x));
            }
            1 => {
                self.nil_or(&a[1], |s, x| s.gov_action_id(x));
                self.protocol_version(&a[2]);
            }
            2 => {
                if let Some(m) = self.map(&a[1]) {
                    for (ra, c) in m {
                        self.reward_account(ra);
                        self.coin(c);
                    }
                }
                self.nil_or(&a[2], |s, x| s.hash28(x));
            }
            3 => self.nil_or(&a[1], |s, x| s.gov_action_id(x)),
            4 => {
                self.nil_or(&a[1], |s, x| s.gov_action_id(x));
                self.set(&a[2], false, "members_to_remove", |s, x| s.credential(x));
                if let Some(m) = self.map(&a[3]) {
                    for (c, e) in m {
                        self.credential(c);
                        self.uint(e);
                    }
                }
                self.unit_interval(&a[4]);
            }
            5 => {
                self.nil_or(&a[1], |s, x| s.gov_action_id(x));
                self.constitution(&a[2]);
            }
            _ => {}
        }
    }
    pub fn constitution(&mut self, n: &Node) {
        if let Some(c) = self.arr_n(n, 2, "constitution") {
            self.anchor(&c[0]);
            self.nil_or(&c[1], |s, x| s.hash28(x));
        }
    }
    pub fn proposal_procedure(&mut self, n: &Node) {
        if let Some(a) = self.arr_n(n, 4, "proposal_procedure") {
            self.coin(&a[0]);
            self.reward_account(&a[1]);
            self.at("gov_action", |s| s.gov_action(&a[2]));
            self.anchor(&a[3]);
        }
    }
    pub fn voter(&mut self, n: &Node) {
        if let Some(a) = self.arr_n(n, 2, "voter") {
            self.uint_max(&a[0], 4, "voter kind");
            self.hash28(&a[1]);
        }
    }
    pub fn voting_procedure(&mut self, n: &Node) {
        if let Some(a) = self.arr_n(n, 2, "voting_procedure") {
            self.uint_max(&a[0], 2, "vote");
            self.nil_or(&a[1], |s, x| s.anchor(x));
        }
    }
    pub fn voting_procedures(&mut self, n: &Node) {
        if let Some(m) = self.map(n) {
            if m.is_empty() {
                self.err("empty-nonempty-map", "voting_procedures is empty".into());
            }
            for (voter, votes) in m {
                self.voter(voter);
                if let Some(vm) = self.map(votes) {
                    if vm.is_empty() {
                        self.err("empty-nonempty-map", "a voter without votes".into());
                    }
                    for (id, p) in vm {
                        self.gov_action_id(id);
                        self.voting_procedure(p);
                    }
                }
            }
        }
    }
    pub fn withdrawals(&mut self, n: &Node) {
        if let Some(m) = self.map(n) {
            for (ra, c) in m {
                self.reward_account(ra);
                self.coin(c);
            }
        }
    }
    pub fn update(&mut self, n: &Node) {
        self.legacy_seen = true;
        if let Some(a) = self.arr_n(n, 2, "update") {
            if let Some(m) = self.map(&a[0]) {
                for (g, p) in m {
                    self.hash28(g);
                    self.protocol_param_update(p);
                }
            }
            self.uint(&a[1]);
        }
    }

    // ------------------------------------------------------------------ witnesses
    pub fn vkeywitness(&mut self, n: &Node) {
        if let Some(a) = self.arr_n(n, 2, "vkeywitness") {
            self.bytes_n(&a[0], 32, "vkey");
            self.bytes_n(&a[1], 64, "signature");
        }
    }
    pub fn bootstrap_witness(&mut self, n: &Node) {
        if let Some(a) = self.arr_n(n, 4, "bootstrap_witness") {
            self.bytes_n(&a[0], 32, "vkey");
            self.bytes_n(&a[1], 64, "signature");
            self.bytes_n(&a[2], 32, "chain_code");
            self.bytes(&a[3]);
        }
    }
    pub fn redeemer_tag(&mut self, n: &Node) {
        self.uint_max(n, 5, "redeemer_tag");
    }
    pub fn redeemers(&mut self, n: &Node) {
        match &n.kind {
            Kind::Array(_) => {
                self.legacy_seen = true;
                if let Some(a) = self.arr(n) {
                    for r in a {
                        self.redeemer(r);
                    }
                }
            }
            Kind::Map(_) => {
                if let Some(m) = self.map(n) {
                    for (k, v) in m {
                        if let Some(ka) = self.arr_n(k, 2, "redeemer key") {
                            self.redeemer_tag(&ka[0]);
                            self.uint_max(&ka[1], u32::MAX as u64, "redeemer index");
                        }
                        if let Some(va) = self.arr_n(v, 2, "redeemer value") {
                            self.at("data", |s| s.plutus_data(&va[0]));
                            self.ex_units(&va[1]);
                        }
                    }
                }
            }
            _ => self.err("shape", format!("redeemers: {}", n.type_name())),
        }
    }
    pub fn redeemer(&mut self, n: &Node) {
        if let Some(a) = self.arr_n(n, 4, "redeemer") {
            self.redeemer_tag(&a[0]);
            self.uint_max(&a[1], u32::MAX as u64, "redeemer index");
            self.at("data", |s| s.plutus_data(&a[2]));
            self.ex_units(&a[3]);
        }
    }
    pub fn witness_set(&mut self, n: &Node) {
        if let Some(m) = self.map(n) {
            for (k, v) in m {
                let key = match self.uint(k) {
                    Some(x) => x,
                    None => continue,
                };
                self.at(&format!("{}", key), |s| match key {
                    0 => s.set(v, true, "vkeywitnesses", |s, x| s.vkeywitness(x)),
                    1 => s.set(v, true, "native_scripts", |s, x| s.native_script(x)),
                    2 => s.set(v, true, "bootstrap_witnesses", |s, x| s.bootstrap_witness(x)),
                    3 | 6 | 7 => s.set(v, true, "plutus_scripts", |s, x| {
                        s.bytes(x);
                    }),
                    4 => {
                        // the datum collection is a Plutus list: non-empty ones are written in the
                        // sanctioned indefinite form (inside the set tag)
                        let inner_indef = match &v.kind {
                            Kind::Tag(258, inner) => inner.indefinite && inner.as_array().map(|a| !a.is_empty()).unwrap_or(false),
                            _ => v.indefinite && v.as_array().map(|a| !a.is_empty()).unwrap_or(false),
                        };
                        if inner_indef {
                            let mut w = v.clone();
                            match &mut w.kind {
                                Kind::Tag(_, inner) => {
                                    inner.indefinite = false;
                                    let n = inner.as_array().map(|a| a.len()).unwrap_or(0);
                                    inner.width = min_width(n as u64);
                                }
                                _ => {
                                    w.indefinite = false;
                                    let n = w.as_array().map(|a| a.len()).unwrap_or(0);
                                    w.width = min_width(n as u64);
                                }
                            }
                            s.set(&w, true, "plutus_data", |s, x| s.plutus_data(x));
                        } else {
                            s.set(v, true, "plutus_data", |s, x| s.plutus_data(x));
                        }
                    }
                    5 => s.redeemers(v),
                    x => s.err("unknown-key", format!("witness set key {}", x)),
                });
            }
        }
    }

    // ------------------------------------------------------------------ body, transaction
    pub fn transaction_body(&mut self, n: &Node) {
        let m = match self.map(n) {
            Some(m) => m,
            None => return,
        };
        let mut seen: Vec<u64> = vec![];
        for (k, v) in m {
            let key = match self.uint(k) {
                Some(x) => x,
                None => continue,
            };
            seen.push(key);
            self.at(&format!("{}", key), |s| match key {
                0 => s.inputs_set(v, false, "inputs"),
                1 => {
                    if let Some(a) = s.arr(v) {
                        for (i, o) in a.iter().enumerate() {
                            s.at(&format!("[{}]", i.min(3)), |s| s.transaction_output(o));
                        }
                    }
                }
                2 | 17 | 21 => s.coin(v),
                3 | 8 => s.coin(v),
                4 => s.set(v, true, "certificates", |s, x| s.certificate(x)),
                5 => s.withdrawals(v),
                6 => s.update(v),
                7 | 11 => s.hash32(v),
                9 => s.mint(v),
                13 => s.inputs_set(v, true, "collateral"),
                14 => s.keyhash_set(v, true, "required_signers"),
                15 => {
                    s.uint_max(v, 1, "network_id");
                }
                16 => s.transaction_output(v),
                18 => s.inputs_set(v, true, "reference_inputs"),
                19 => s.voting_procedures(v),
                20 => s.set(v, true, "proposal_procedures", |s, x| s.proposal_procedure(x)),
                22 => s.positive_coin(v),
                x => s.err("unknown-key", format!("transaction body key {}", x)),
            });
        }
        for req in [0u64, 1, 2] {
            if !seen.contains(&req) {
                self.err("missing-key", format!("transaction body without key {}", req));
            }
        }
    }
    pub fn transaction(&mut self, n: &Node) {
        if let Some(a) = self.arr_n(n, 4, "transaction") {
            self.at("body", |s| s.transaction_body(&a[0]));
            self.at("wits", |s| s.witness_set(&a[1]));
            self.boolean(&a[2]);
            self.nil_or(&a[3], |s, x| s.at("aux", |s| s.auxiliary_data(x)));
        }
    }
}

/// Validate `bytes` as the encoding of the public type `name`. None = no rule for this type.
pub fn validate(name: &str, bytes: &[u8], builder_mode: bool) -> Option<(Vec<(String, String)>, bool)> {
    let n = match crate::refcbor::parse(bytes) {
        Ok(n) => n,
        Err(e) => return Some((vec![("not-wellformed@".into(), format!("{:?}", e))], false)),
    };
    let mut v = V::new(bytes, builder_mode);
    let arr_of = |v: &mut V, n: &Node, f: &mut dyn FnMut(&mut V, &Node)| {
        if let Some(a) = v.arr(n) {
            for x in a {
                f(v, x);
            }
        }
    };
    match name {
        "Transaction" => v.transaction(&n),
        "TransactionBody" => v.transaction_body(&n),
        "TransactionWitnessSet" => v.witness_set(&n),
        "TransactionOutput" => v.transaction_output(&n),
        "TransactionOutputs" => arr_of(&mut v, &n, &mut |v, x| v.transaction_output(x)),
        "TransactionInput" => v.transaction_input(&n),
        "TransactionInputs" => v.inputs_set(&n, false, "inputs"),
        "TransactionUnspentOutput" => {
            if let Some(a) = v.arr_n(&n, 2, "utxo") {
                v.transaction_input(&a[0]);
                v.transaction_output(&a[1]);
            }
        }
        "Value" => v.value(&n),
        "MultiAsset" => v.multiasset(&n, false),
        "Mint" => v.mint(&n),
        "AssetName" => v.asset_name(&n),
        "Certificate" | "StakeRegistration" | "StakeDeregistration" | "StakeDelegation" | "PoolRegistration" | "PoolRetirement" | "GenesisKeyDelegation"
        | "MoveInstantaneousRewardsCert" | "VoteDelegation" | "StakeAndVoteDelegation" | "StakeRegistrationAndDelegation" | "VoteRegistrationAndDelegation"
        | "StakeVoteRegistrationAndDelegation" | "CommitteeHotAuth" | "CommitteeColdResign" | "DRepRegistration" | "DRepDeregistration" | "DRepUpdate" => v.certificate(&n),
        "Certificates" => v.set(&n, false, "certificates", |v, x| v.certificate(x)),
        "PoolParams" => {
            if let Some(a) = v.arr(&n) {
                v.pool_params_group(a);
            }
        }
        "Relay" | "SingleHostAddr" | "SingleHostName" | "MultiHostName" => v.relay(&n),
        "Relays" => arr_of(&mut v, &n, &mut |v, x| v.relay(x)),
        "Withdrawals" => v.withdrawals(&n),
        "Update" => v.update(&n),
        "ProtocolParamUpdate" => v.protocol_param_update(&n),
        "ProtocolVersion" => v.protocol_version(&n),
        "Costmdls" => v.costmdls(&n),
        "ExUnits" => v.ex_units(&n),
        "ExUnitPrices" => v.ex_unit_prices(&n),
        "UnitInterval" => v.unit_interval(&n),
        "GovernanceAction" | "ParameterChangeAction" | "HardForkInitiationAction" | "TreasuryWithdrawalsAction" | "NoConfidenceAction" | "UpdateCommitteeAction"
        | "NewConstitutionAction" => v.gov_action(&n),
        "GovernanceActionId" => v.gov_action_id(&n),
        "VotingProposal" => v.proposal_procedure(&n),
        "VotingProposals" => v.set(&n, false, "proposal_procedures", |v, x| v.proposal_procedure(x)),
        "Voter" => v.voter(&n),
        "VotingProcedure" => v.voting_procedure(&n),
        "VotingProcedures" => v.voting_procedures(&n),
        "DRep" => v.drep(&n),
        "Anchor" => v.anchor(&n),
        "Constitution" => v.constitution(&n),
        "Credential" => v.credential(&n),
        "Credentials" => v.set(&n, false, "credentials", |v, x| v.credential(x)),
        "Ed25519KeyHashes" => v.keyhash_set(&n, false, "key hashes"),
        "NativeScript" | "ScriptPubkey" | "ScriptAll" | "ScriptAny" | "ScriptNOfK" | "TimelockStart" | "TimelockExpiry" => v.native_script(&n),
        "PlutusData" | "ConstrPlutusData" | "PlutusMap" | "PlutusList" | "BigInt" => v.plutus_data(&n),
        "Redeemer" => v.redeemer(&n),
        "Redeemers" => v.redeemers(&n),
        "RedeemerTag" => v.redeemer_tag(&n),
        "TransactionMetadatum" | "MetadataMap" | "MetadataList" => v.metadatum(&n),
        "GeneralTransactionMetadata" => v.metadata(&n),
        "AuxiliaryData" => v.auxiliary_data(&n),
        "ScriptRef" => v.script_ref(&n),
        "Vkeywitness" => v.vkeywitness(&n),
        "Vkeywitnesses" => v.set(&n, false, "vkeywitnesses", |v, x| v.vkeywitness(x)),
        "BootstrapWitness" => v.bootstrap_witness(&n),
        "BootstrapWitnesses" => v.set(&n, false, "bootstrap_witnesses", |v, x| v.bootstrap_witness(x)),
        "URL" => v.text_max(&n, 128, "url"),
        "DNSRecordAorAAAA" | "DNSRecordSRV" => v.text_max(&n, 128, "dns_name"),
        "Ipv4" => v.bytes_n(&n, 4, "ipv4"),
        "Ipv6" => v.bytes_n(&n, 16, "ipv6"),
        "BigNum" => {
            v.uint(&n);
        }
        "Int" => {
            v.int(&n);
        }
        "Language" => {
            v.uint_max(&n, 2, "language");
        }
        "NetworkId" => {
            v.uint_max(&n, 1, "network_id");
        }
        _ => return None,
    }
    let legacy = v.legacy_seen;
    Some((v.errs, legacy))
}
