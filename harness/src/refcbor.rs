//! Independent CBOR reader / writer (RFC 8949). Shares no code with cbor_event or the library.
//!
//! The reader keeps, per node, everything about *how* it was encoded: head width, definite or
//! indefinite, chunking, and the exact byte span. The writer re-emits a tree honouring those
//! choices, so one semantic tree can be written in many byte forms (C04) and the canonical
//! (shortest definite) form can be demanded (C03).

#[derive(Clone, Debug, PartialEq)]
pub enum Kind {
    UInt(u64),
    /// the encoded argument n; the value is -1 - n
    NInt(u64),
    Bytes(Vec<u8>),
    Text(Vec<u8>),
    Array(Vec<Node>),
    Map(Vec<(Node, Node)>),
    Tag(u64, Box<Node>),
    /// major type 7 with a simple value (20 false, 21 true, 22 null, 23 undefined, ...)
    Simple(u8),
    /// raw bits of a half/single/double float; width 2, 4 or 8
    Float(u64),
}

#[derive(Clone, Debug, PartialEq)]
pub struct Node {
    pub kind: Kind,
    /// bytes following the initial byte in the head: 0 (immediate), 1, 2, 4 or 8
    pub width: u8,
    pub indefinite: bool,
    /// for indefinite strings: (chunk length, head width) per chunk
    pub chunks: Vec<(usize, u8)>,
    pub start: usize,
    pub end: usize,
}

#[derive(Clone, Debug, PartialEq)]
pub struct ParseError {
    pub pos: usize,
    pub msg: String,
}

pub fn min_width(n: u64) -> u8 {
    if n < 24 {
        0
    } else if n <= 0xff {
        1
    } else if n <= 0xffff {
        2
    } else if n <= 0xffff_ffff {
        4
    } else {
        8
    }
}

impl Node {
    pub fn new(kind: Kind) -> Node {
        let width = match &kind {
            Kind::UInt(n) | Kind::NInt(n) => min_width(*n),
            Kind::Bytes(b) | Kind::Text(b) => min_width(b.len() as u64),
            Kind::Array(a) => min_width(a.len() as u64),
            Kind::Map(m) => min_width(m.len() as u64),
            Kind::Tag(t, _) => min_width(*t),
            Kind::Simple(v) => {
                if *v < 24 {
                    0
                } else {
                    1
                }
            }
            Kind::Float(_) => 8,
        };
        Node { kind, width, indefinite: false, chunks: vec![], start: 0, end: 0 }
    }
    pub fn uint(n: u64) -> Node {
        Node::new(Kind::UInt(n))
    }
    pub fn nint_arg(n: u64) -> Node {
        Node::new(Kind::NInt(n))
    }
    /// signed integer in -2^64 ..= 2^64-1
    pub fn int(v: i128) -> Node {
        if v >= 0 {
            Node::uint(v as u64)
        } else {
            Node::nint_arg((-1 - v) as u64)
        }
    }
    pub fn bytes(b: &[u8]) -> Node {
        Node::new(Kind::Bytes(b.to_vec()))
    }
    pub fn text(s: &str) -> Node {
        Node::new(Kind::Text(s.as_bytes().to_vec()))
    }
    pub fn arr(v: Vec<Node>) -> Node {
        Node::new(Kind::Array(v))
    }
    pub fn map(v: Vec<(Node, Node)>) -> Node {
        Node::new(Kind::Map(v))
    }
    pub fn tag(t: u64, n: Node) -> Node {
        Node::new(Kind::Tag(t, Box::new(n)))
    }
    pub fn null() -> Node {
        Node::new(Kind::Simple(22))
    }
    pub fn boolean(b: bool) -> Node {
        Node::new(Kind::Simple(if b { 21 } else { 20 }))
    }
    /// indefinite-length version of an array / map / string (strings: chunks of `chunk` bytes)
    pub fn indef(mut self) -> Node {
        self.indefinite = true;
        self
    }
    pub fn chunked(mut self, chunk: usize) -> Node {
        let len = match &self.kind {
            Kind::Bytes(b) | Kind::Text(b) => b.len(),
            _ => return self,
        };
        self.indefinite = true;
        self.chunks.clear();
        let mut left = len;
        while left > 0 {
            let c = left.min(chunk.max(1));
            self.chunks.push((c, min_width(c as u64)));
            left -= c;
        }
        self
    }
    pub fn with_width(mut self, w: u8) -> Node {
        self.width = w;
        self
    }

    pub fn as_uint(&self) -> Option<u64> {
        match &self.kind {
            Kind::UInt(n) => Some(*n),
            _ => None,
        }
    }
    /// any CBOR integer as i128
    pub fn as_int(&self) -> Option<i128> {
        match &self.kind {
            Kind::UInt(n) => Some(*n as i128),
            Kind::NInt(n) => Some(-1 - (*n as i128)),
            _ => None,
        }
    }
    pub fn as_bytes(&self) -> Option<&[u8]> {
        match &self.kind {
            Kind::Bytes(b) => Some(b),
            _ => None,
        }
    }
    pub fn as_text(&self) -> Option<&[u8]> {
        match &self.kind {
            Kind::Text(b) => Some(b),
            _ => None,
        }
    }
    pub fn as_array(&self) -> Option<&Vec<Node>> {
        match &self.kind {
            Kind::Array(a) => Some(a),
            _ => None,
        }
    }
    pub fn as_map(&self) -> Option<&Vec<(Node, Node)>> {
        match &self.kind {
            Kind::Map(m) => Some(m),
            _ => None,
        }
    }
    pub fn as_tag(&self) -> Option<(u64, &Node)> {
        match &self.kind {
            Kind::Tag(t, n) => Some((*t, n)),
            _ => None,
        }
    }
    pub fn is_null(&self) -> bool {
        matches!(self.kind, Kind::Simple(22))
    }
    /// value under an unsigned-integer key of a map
    pub fn map_get(&self, key: u64) -> Option<&Node> {
        self.as_map()?.iter().find(|(k, _)| k.as_uint() == Some(key)).map(|(_, v)| v)
    }
    /// strip tag 258 if present, then expect an array
    pub fn set_items(&self) -> Option<&Vec<Node>> {
        match &self.kind {
            Kind::Tag(258, inner) => inner.as_array(),
            Kind::Array(a) => Some(a),
            _ => None,
        }
    }
    pub fn span<'a>(&self, src: &'a [u8]) -> &'a [u8] {
        &src[self.start..self.end]
    }
    pub fn type_name(&self) -> &'static str {
        match &self.kind {
            Kind::UInt(_) => "uint",
            Kind::NInt(_) => "nint",
            Kind::Bytes(_) => "bytes",
            Kind::Text(_) => "text",
            Kind::Array(_) => "array",
            Kind::Map(_) => "map",
            Kind::Tag(_, _) => "tag",
            Kind::Simple(_) => "simple",
            Kind::Float(_) => "float",
        }
    }

    /// visit every node (pre-order)
    pub fn walk<'a>(&'a self, f: &mut dyn FnMut(&'a Node)) {
        f(self);
        match &self.kind {
            Kind::Array(a) => {
                for x in a {
                    x.walk(f);
                }
            }
            Kind::Map(m) => {
                for (k, v) in m {
                    k.walk(f);
                    v.walk(f);
                }
            }
            Kind::Tag(_, n) => n.walk(f),
            _ => {}
        }
    }

    pub fn count_nodes(&self) -> usize {
        let mut n = 0;
        self.walk(&mut |_| n += 1);
        n
    }

    /// mutable access to the i-th node in pre-order
    pub fn nth_mut(&mut self, i: usize) -> Option<&mut Node> {
        fn go<'a>(n: &'a mut Node, i: &mut usize) -> Option<&'a mut Node> {
            if *i == 0 {
                return Some(n);
            }
            *i -= 1;
            match &mut n.kind {
                Kind::Array(a) => {
                    for x in a.iter_mut() {
                        if let Some(r) = go(x, i) {
                            return Some(r);
                        }
                    }
                    None
                }
                Kind::Map(m) => {
                    for (k, v) in m.iter_mut() {
                        if let Some(r) = go(k, i) {
                            return Some(r);
                        }
                        if let Some(r) = go(v, i) {
                            return Some(r);
                        }
                    }
                    None
                }
                Kind::Tag(_, inner) => go(inner, i),
                _ => None,
            }
        }
        let mut k = i;
        go(self, &mut k)
    }
}

struct Rd<'a> {
    b: &'a [u8],
    pos: usize,
    max_depth: usize,
}

impl<'a> Rd<'a> {
    fn err<T>(&self, msg: &str) -> Result<T, ParseError> {
        Err(ParseError { pos: self.pos, msg: msg.to_string() })
    }
    fn byte(&mut self) -> Result<u8, ParseError> {
        if self.pos >= self.b.len() {
            return self.err("unexpected end of input");
        }
        let x = self.b[self.pos];
        self.pos += 1;
        Ok(x)
    }
    fn take(&mut self, n: usize) -> Result<&'a [u8], ParseError> {
        if n > self.b.len() - self.pos {
            return self.err("declared length exceeds input");
        }
        let s = &self.b[self.pos..self.pos + n];
        self.pos += n;
        Ok(s)
    }
    /// returns (argument, width) ; width 255 = indefinite marker (ai 31)
    fn head(&mut self, ai: u8) -> Result<(u64, u8), ParseError> {
        match ai {
            0..=23 => Ok((ai as u64, 0)),
            24 => Ok((self.byte()? as u64, 1)),
            25 => {
                let s = self.take(2)?;
                Ok((u16::from_be_bytes([s[0], s[1]]) as u64, 2))
            }
            26 => {
                let s = self.take(4)?;
                Ok((u32::from_be_bytes([s[0], s[1], s[2], s[3]]) as u64, 4))
            }
            27 => {
                let s = self.take(8)?;
                let mut a = [0u8; 8];
                a.copy_from_slice(s);
                Ok((u64::from_be_bytes(a), 8))
            }
            31 => Ok((0, 255)),
            _ => self.err("reserved additional information 28..30"),
        }
    }
    fn item(&mut self, depth: usize) -> Result<Node, ParseError> {
        if depth > self.max_depth {
            return self.err("nesting too deep");
        }
        let start = self.pos;
        let ib = self.byte()?;
        let major = ib >> 5;
        let ai = ib & 0x1f;
        let (arg, width) = self.head(ai)?;
        let indefinite = width == 255;
        let mut node = Node { kind: Kind::UInt(0), width: if indefinite { 0 } else { width }, indefinite, chunks: vec![], start, end: 0 };
        match major {
            0 | 1 => {
                if indefinite {
                    return self.err("indefinite integer");
                }
                node.kind = if major == 0 { Kind::UInt(arg) } else { Kind::NInt(arg) };
            }
            2 | 3 => {
                let mut data = Vec::new();
                if indefinite {
                    loop {
                        if self.pos < self.b.len() && self.b[self.pos] == 0xff {
                            self.pos += 1;
                            break;
                        }
                        let cb = self.byte()?;
                        if cb >> 5 != major {
                            return self.err("chunk of wrong major type in indefinite string");
                        }
                        let (clen, cw) = self.head(cb & 0x1f)?;
                        if cw == 255 {
                            return self.err("nested indefinite chunk");
                        }
                        if clen > (self.b.len() - self.pos) as u64 {
                            return self.err("declared chunk length exceeds input");
                        }
                        let s = self.take(clen as usize)?;
                        data.extend_from_slice(s);
                        node.chunks.push((clen as usize, cw));
                    }
                } else {
                    if arg > (self.b.len() - self.pos) as u64 {
                        return self.err("declared string length exceeds input");
                    }
                    data.extend_from_slice(self.take(arg as usize)?);
                }
                if major == 3 && std::str::from_utf8(&data).is_err() {
                    return self.err("text string is not UTF-8");
                }
                node.kind = if major == 2 { Kind::Bytes(data) } else { Kind::Text(data) };
            }
            4 => {
                let mut items = Vec::new();
                if indefinite {
                    loop {
                        if self.pos < self.b.len() && self.b[self.pos] == 0xff {
                            self.pos += 1;
                            break;
                        }
                        items.push(self.item(depth + 1)?);
                    }
                } else {
                    if arg > (self.b.len() - self.pos) as u64 {
                        return self.err("declared array length exceeds input");
                    }
                    for _ in 0..arg {
                        items.push(self.item(depth + 1)?);
                    }
                }
                node.kind = Kind::Array(items);
            }
            5 => {
                let mut items = Vec::new();
                if indefinite {
                    loop {
                        if self.pos < self.b.len() && self.b[self.pos] == 0xff {
                            self.pos += 1;
                            break;
                        }
                        let k = self.item(depth + 1)?;
                        let v = self.item(depth + 1)?;
                        items.push((k, v));
                    }
                } else {
                    if arg > (self.b.len() - self.pos) as u64 {
                        return self.err("declared map length exceeds input");
                    }
                    for _ in 0..arg {
                        let k = self.item(depth + 1)?;
                        let v = self.item(depth + 1)?;
                        items.push((k, v));
                    }
                }
                node.kind = Kind::Map(items);
            }
            6 => {
                if indefinite {
                    return self.err("indefinite tag");
                }
                let inner = self.item(depth + 1)?;
                node.kind = Kind::Tag(arg, Box::new(inner));
            }
            _ => {
                // major 7
                match ai {
                    0..=23 => node.kind = Kind::Simple(ai),
                    24 => {
                        if arg < 32 {
                            return self.err("two-byte simple value below 32");
                        }
                        node.kind = Kind::Simple(arg as u8);
                    }
                    25 | 26 | 27 => node.kind = Kind::Float(arg),
                    31 => return self.err("unexpected break"),
                    _ => return self.err("reserved simple"),
                }
            }
        }
        node.end = self.pos;
        Ok(node)
    }
}

/// Parse one item starting at `pos`; returns the node (spans are absolute).
pub fn parse_at(b: &[u8], pos: usize) -> Result<Node, ParseError> {
    let mut rd = Rd { b, pos, max_depth: 2000 };
    rd.item(0)
}

/// Exactly one well-formed item and nothing else.
pub fn parse(b: &[u8]) -> Result<Node, ParseError> {
    let n = parse_at(b, 0)?;
    if n.end != b.len() {
        return Err(ParseError { pos: n.end, msg: format!("{} trailing bytes after the item", b.len() - n.end) });
    }
    Ok(n)
}

fn put_head(out: &mut Vec<u8>, major: u8, arg: u64, width: u8) {
    let m = major << 5;
    // never emit a head too narrow for the argument
    let w = width.max(min_width(arg)).min(8);
    match w {
        0 => out.push(m | arg as u8),
        1 => {
            out.push(m | 24);
            out.push(arg as u8);
        }
        2 => {
            out.push(m | 25);
            out.extend_from_slice(&(arg as u16).to_be_bytes());
        }
        3 | 4 => {
            out.push(m | 26);
            out.extend_from_slice(&(arg as u32).to_be_bytes());
        }
        _ => {
            out.push(m | 27);
            out.extend_from_slice(&arg.to_be_bytes());
        }
    }
}

pub fn emit_into(n: &Node, out: &mut Vec<u8>) {
    match &n.kind {
        Kind::UInt(v) => put_head(out, 0, *v, n.width),
        Kind::NInt(v) => put_head(out, 1, *v, n.width),
        Kind::Bytes(b) | Kind::Text(b) => {
            let major = if matches!(n.kind, Kind::Bytes(_)) { 2 } else { 3 };
            if n.indefinite {
                out.push((major << 5) | 31);
                let mut off = 0;
                for (len, w) in &n.chunks {
                    put_head(out, major, *len as u64, *w);
                    out.extend_from_slice(&b[off..off + len]);
                    off += len;
                }
                if off < b.len() {
                    put_head(out, major, (b.len() - off) as u64, 0);
                    out.extend_from_slice(&b[off..]);
                }
                out.push(0xff);
            } else {
                put_head(out, major, b.len() as u64, n.width);
                out.extend_from_slice(b);
            }
        }
        Kind::Array(a) => {
            if n.indefinite {
                out.push(0x9f);
            } else {
                put_head(out, 4, a.len() as u64, n.width);
            }
            for x in a {
                emit_into(x, out);
            }
            if n.indefinite {
                out.push(0xff);
            }
        }
        Kind::Map(m) => {
            if n.indefinite {
                out.push(0xbf);
            } else {
                put_head(out, 5, m.len() as u64, n.width);
            }
            for (k, v) in m {
                emit_into(k, out);
                emit_into(v, out);
            }
            if n.indefinite {
                out.push(0xff);
            }
        }
        Kind::Tag(t, inner) => {
            put_head(out, 6, *t, n.width);
            emit_into(inner, out);
        }
        Kind::Simple(v) => {
            if *v < 24 {
                out.push(0xe0 | *v);
            } else {
                out.push(0xf8);
                out.push(*v);
            }
        }
        Kind::Float(bits) => match n.width {
            2 => {
                out.push(0xf9);
                out.extend_from_slice(&(*bits as u16).to_be_bytes());
            }
            4 => {
                out.push(0xfa);
                out.extend_from_slice(&(*bits as u32).to_be_bytes());
            }
            _ => {
                out.push(0xfb);
                out.extend_from_slice(&bits.to_be_bytes());
            }
        },
    }
}

pub fn emit(n: &Node) -> Vec<u8> {
    let mut out = Vec::new();
    emit_into(n, &mut out);
    out
}

/// Emit and re-parse so that spans refer to the emitted bytes.
pub fn emit_spanned(n: &Node) -> (Vec<u8>, Node) {
    let b = emit(n);
    let p = parse(&b).expect("refcbor emitted bytes it cannot parse");
    (b, p)
}

/// One-line diagnostic rendering (RFC 8949 §8 flavour, compact).
pub fn diag(n: &Node) -> String {
    match &n.kind {
        Kind::UInt(v) => format!("{}", v),
        Kind::NInt(v) => format!("{}", -1 - (*v as i128)),
        Kind::Bytes(b) => format!("h'{}'", hex::encode(b)),
        Kind::Text(b) => format!("{:?}", String::from_utf8_lossy(b)),
        Kind::Array(a) => format!("[{}{}]", if n.indefinite { "_ " } else { "" }, a.iter().map(diag).collect::<Vec<_>>().join(", ")),
        Kind::Map(m) => format!(
            "{{{}{}}}",
            if n.indefinite { "_ " } else { "" },
            m.iter().map(|(k, v)| format!("{}: {}", diag(k), diag(v))).collect::<Vec<_>>().join(", ")
        ),
        Kind::Tag(t, inner) => format!("{}({})", t, diag(inner)),
        Kind::Simple(20) => "false".into(),
        Kind::Simple(21) => "true".into(),
        Kind::Simple(22) => "null".into(),
        Kind::Simple(v) => format!("simple({})", v),
        Kind::Float(b) => format!("float(0x{:x})", b),
    }
}

/// Self-test on vectors from RFC 8949 Appendix A (hand-copied).
pub fn self_test() -> Result<(), String> {
    let vectors: &[(&str, &str)] = &[
        ("00", "0"),
        ("17", "23"),
        ("1818", "24"),
        ("1903e8", "1000"),
        ("1a000f4240", "1000000"),
        ("1b000000e8d4a51000", "1000000000000"),
        ("1bffffffffffffffff", "18446744073709551615"),
        ("3bffffffffffffffff", "-18446744073709551616"),
        ("20", "-1"),
        ("3863", "-100"),
        ("3903e7", "-1000"),
        ("f4", "false"),
        ("f6", "null"),
        ("40", "h''"),
        ("4401020304", "h'01020304'"),
        ("60", "\"\""),
        ("6449455446", "\"IETF\""),
        ("80", "[]"),
        ("83010203", "[1, 2, 3]"),
        ("8301820203820405", "[1, [2, 3], [4, 5]]"),
        ("a0", "{}"),
        ("a201020304", "{1: 2, 3: 4}"),
        ("c074323031332d30332d32315432303a30343a30305a", "0(\"2013-03-21T20:04:00Z\")"),
        ("c249010000000000000000", "2(h'010000000000000000')"),
        ("5f42010243030405ff", "h'0102030405'"),
        ("9fff", "[_ ]"),
        ("9f018202039f0405ffff", "[_ 1, [2, 3], [_ 4, 5]]"),
        ("bf61610161629f0203ffff", "{_ \"a\": 1, \"b\": [_ 2, 3]}"),
        ("d90102820102", "258([1, 2])"),
    ];
    for (hx, want) in vectors {
        let b = hex::decode(hx).unwrap();
        let n = parse(&b).map_err(|e| format!("{}: {:?}", hx, e))?;
        let d = diag(&n);
        if &d != want {
            return Err(format!("{}: diag {} != {}", hx, d, want));
        }
        let back = emit(&n);
        if back != b {
            return Err(format!("{}: re-emitted as {}", hx, hex::encode(back)));
        }
    }
    for bad in ["", "18", "1c", "5f4101", "9f01", "a101", "ff", "c2", "7fff00", "62c328", "8201", "f800"] {
        let b = hex::decode(bad).unwrap();
        if parse(&b).is_ok() {
            return Err(format!("accepted malformed {}", bad));
        }
    }
    if parse(&hex::decode("0000").unwrap()).is_ok() {
        return Err("accepted trailing bytes".into());
    }
    Ok(())
}
