//! Evidence writer, known-findings matching, verdict lines and exit codes.

use crate::engine::Stats;
use serde_json::{json, Value as J};
use std::collections::BTreeMap;
use std::time::Instant;

#[derive(Clone, Copy, PartialEq, Eq, Debug)]
pub enum Tier {
    Quick,
    Thorough,
}

impl Tier {
    pub fn name(&self) -> &'static str {
        match self {
            Tier::Quick => "quick",
            Tier::Thorough => "thorough",
        }
    }
    pub fn thorough(&self) -> bool {
        *self == Tier::Thorough
    }
}

pub struct Report {
    pub property: String,
    pub tier: Tier,
    pub seed: u64,
    pub start: Instant,
    pub total: Stats,
    /// per-exploration summaries for the evidence file
    pub parts: Vec<J>,
    pub rule: String,
    pub assumptions: Vec<String>,
    pub bounds: BTreeMap<String, J>,
    pub required_hits: Vec<&'static str>,
    pub extra: BTreeMap<String, J>,
    pub exhaustive: bool,
    pub trusted_base: Vec<String>,
}

pub fn verif_dir() -> String {
    std::env::var("VERIF_DIR").unwrap_or_else(|_| "/verif".to_string())
}

impl Report {
    pub fn new(property: &str, tier: Tier, seed: u64) -> Report {
        crate::engine::set_current_property(property);
        Report {
            property: property.to_string(),
            tier,
            seed,
            start: Instant::now(),
            total: Stats::default(),
            parts: Vec::new(),
            rule: String::new(),
            assumptions: Vec::new(),
            bounds: BTreeMap::new(),
            required_hits: Vec::new(),
            extra: BTreeMap::new(),
            exhaustive: true,
            trusted_base: Vec::new(),
        }
    }

    /// Merge the statistics of one exploration.
    pub fn add(&mut self, name: &str, bound_desc: &str, st: Stats) {
        if st.cap_hit {
            self.exhaustive = false;
        }
        let mut part = json!({
            "exploration": name,
            "bound": bound_desc,
            "executions": st.executions,
            "choice_points_taken": st.transitions,
            "max_depth": st.max_depth,
            "distinct_outcomes": st.outcomes.len(),
            "oracle_comparisons": st.compared,
            "cap_hit": st.cap_hit,
            "violating_signatures": st.viols.len(),
        });
        if st.states > 0 {
            part["bfs_states"] = json!(st.states);
            part["bfs_transitions"] = json!(st.state_transitions);
            part["bfs_new_states_per_level"] = json!(st.bfs_levels);
        }
        eprintln!(
            "[{}] t={:>6.1}s {:<34} execs={:<10} points={:<11} outcomes={:<9} viol-sigs={} {}{}",
            self.property,
            self.start.elapsed().as_secs_f64(),
            name,
            st.executions,
            st.transitions,
            st.outcomes.len(),
            st.viols.len(),
            if st.states > 0 { format!("states={} ", st.states) } else { String::new() },
            if st.cap_hit { "CAP-HIT" } else { "" }
        );
        self.parts.push(part);
        self.total.merge(st);
    }

    pub fn assume(&mut self, s: &str) {
        self.assumptions.push(s.to_string());
    }

    pub fn bound(&mut self, k: &str, v: J) {
        self.bounds.insert(k.to_string(), v);
    }

    /// Write evidence, print verdict lines, return the exit code.
    pub fn finish(self) -> i32 {
        let vdir = verif_dir();
        let known = load_known(&vdir, &self.property);
        let mut new_viol: Vec<(&String, &crate::engine::VRec)> = Vec::new();
        let mut known_hit: Vec<(String, String)> = Vec::new();
        // which signatures each known finding absorbed in this run (for auditing that an entry
        // excuses only what it describes)
        let mut known_sigs: std::collections::BTreeMap<String, Vec<String>> = Default::default();
        for (sig, rec) in &self.total.viols {
            match known.iter().find(|k| k.matches(sig)) {
                Some(k) => {
                    if !known_hit.iter().any(|(s, _)| s == &k.id) {
                        known_hit.push((k.id.clone(), k.what.clone()));
                    }
                    let v = known_sigs.entry(k.id.clone()).or_default();
                    if v.len() < 300 {
                        v.push(sig.clone());
                    }
                }
                None => new_viol.push((sig, rec)),
            }
        }
        let mut exit = 0;
        for (_, what) in &known_hit {
            println!("KNOWN-FINDING: property={} {}", self.property, what);
        }
        let mut replay_paths = Vec::new();
        for (sig, rec) in &new_viol {
            let h = crate::engine::hash64(sig.as_str());
            let path = format!("{}/replays/{}-{:016x}.json", vdir, self.property, h);
            let doc = json!({
                "property": self.property,
                "scenario": rec.scenario,
                "signature": sig,
                "detail": rec.detail,
                "occurrences": rec.count,
                "choices": rec.choices,
                "arities": rec.arities,
                "tier": self.tier.name(),
                "seed": self.seed,
                "replay": format!("./check {} --replay {}", self.property, path),
            });
            let _ = std::fs::create_dir_all(format!("{}/replays", vdir));
            if let Err(e) = std::fs::write(&path, serde_json::to_string_pretty(&doc).unwrap()) {
                eprintln!("cannot write replay {}: {}", path, e);
            }
            println!("VIOLATION property={} replay={}", self.property, path);
            eprintln!("  signature: {}\n  detail: {}\n  occurrences: {}", sig, rec.detail, rec.count);
            replay_paths.push(path);
            exit = 1;
        }
        let mut missed: Vec<&str> = Vec::new();
        for h in &self.required_hits {
            if self.total.hits.get(h).copied().unwrap_or(0) == 0 {
                missed.push(h);
            }
        }
        if !missed.is_empty() {
            eprintln!("[{}] coverage obligations with zero hits: {:?}", self.property, missed);
        }
        let hits: BTreeMap<String, u64> =
            self.total.hits.iter().map(|(k, v)| (k.to_string(), *v)).collect();
        let states = if self.total.states > 0 { self.total.states } else { self.total.executions };
        let transitions = if self.total.states > 0 {
            self.total.state_transitions.max(1) + self.total.transitions
        } else {
            self.total.transitions
        };
        let samples: Vec<J> = if self.total.samples.is_empty() {
            vec![json!("(no sample recorded)")]
        } else {
            self.total.samples.iter().map(|s| json!(s)).collect()
        };
        let mut coverage = json!({
            "states": states.max(1),
            "transitions": transitions.max(1),
            "traces_validated_against_impl": self.total.compared,
            "samples": samples,
            "evaluations": self.total.executions.max(1),
            "distinct_nontrivial": self.total.outcomes.len(),
            "rule": self.rule,
            "exhaustive": self.exhaustive,
            "executions": self.total.executions,
            "choice_points_taken": self.total.transitions,
            "max_choice_depth": self.total.max_depth,
            "distinct_outcomes": self.total.outcomes.len(),
            "branch_hits": hits,
            "missed_obligations": missed,
            "bounds": self.bounds,
            "explorations": self.parts,
            "known_findings_reproduced": known_hit.iter().map(|(id, _)| id.clone()).collect::<Vec<_>>(),
            "known_finding_signatures_matched": known_sigs,
            "new_violation_signatures": new_viol.iter().map(|(s, _)| s.to_string()).collect::<Vec<_>>(),
            "replays": replay_paths,
            "trusted_base": self.trusted_base,
        });
        for (k, v) in &self.extra {
            coverage[k] = v.clone();
        }
        let ev = json!({
            "property_id": self.property,
            "tier": self.tier.name(),
            "seed": self.seed,
            "level": "model_checking",
            "coverage": coverage,
            "assumptions": self.assumptions,
            "wall_s": self.start.elapsed().as_secs_f64(),
            "violations": new_viol.len(),
        });
        let path = format!("{}/evidence/{}.json", vdir, self.property);
        let _ = std::fs::create_dir_all(format!("{}/evidence", vdir));
        if let Err(e) = std::fs::write(&path, serde_json::to_string_pretty(&ev).unwrap()) {
            eprintln!("MACHINERY FAILURE: cannot write evidence {}: {}", path, e);
            return 2;
        }
        // a thorough run also leaves a copy that the next quick run does not overwrite
        if self.tier.thorough() {
            let _ = std::fs::create_dir_all(format!("{}/evidence_thorough", vdir));
            let _ = std::fs::write(format!("{}/evidence_thorough/{}.json", vdir, self.property), serde_json::to_string_pretty(&ev).unwrap());
        }
        if exit == 0 && !missed.is_empty() && std::env::var("VERIF_STRICT_COVERAGE").is_ok() {
            eprintln!("MACHINERY FAILURE: strict coverage requested and obligations missed");
            return 2;
        }
        eprintln!(
            "[{}] {} done in {:.1}s: executions={} distinct_outcomes={} known={} new={}",
            self.property,
            self.tier.name(),
            self.start.elapsed().as_secs_f64(),
            self.total.executions,
            self.total.outcomes.len(),
            known_hit.len(),
            new_viol.len()
        );
        exit
    }
}

pub struct Known {
    pub id: String,
    pub signatures: Vec<String>,
    pub signature: Option<String>,
    pub prefix: Option<String>,
    pub what: String,
}

impl Known {
    pub fn matches(&self, sig: &str) -> bool {
        if let Some(s) = &self.signature {
            if s == sig {
                return true;
            }
        }
        if self.signatures.iter().any(|s| s == sig) {
            return true;
        }
        if let Some(p) = &self.prefix {
            if sig.starts_with(p.as_str()) {
                return true;
            }
        }
        false
    }
}

pub fn load_known(vdir: &str, property: &str) -> Vec<Known> {
    let path = format!("{}/known_findings.json", vdir);
    let txt = match std::fs::read_to_string(&path) {
        Ok(t) => t,
        Err(_) => return vec![],
    };
    let doc: J = match serde_json::from_str(&txt) {
        Ok(d) => d,
        Err(e) => {
            eprintln!("MACHINERY FAILURE: known_findings.json does not parse: {}", e);
            std::process::exit(2);
        }
    };
    let mut out = Vec::new();
    if let Some(arr) = doc.get("findings").and_then(|f| f.as_array()) {
        for f in arr {
            if f.get("property").and_then(|p| p.as_str()) != Some(property) {
                continue;
            }
            out.push(Known {
                id: f.get("id").and_then(|s| s.as_str()).unwrap_or("?").to_string(),
                signatures: f
                    .get("signatures")
                    .and_then(|s| s.as_array())
                    .map(|a| a.iter().filter_map(|x| x.as_str().map(|s| s.to_string())).collect())
                    .unwrap_or_default(),
                signature: f.get("signature").and_then(|s| s.as_str()).map(|s| s.to_string()),
                prefix: f.get("signature_prefix").and_then(|s| s.as_str()).map(|s| s.to_string()),
                what: f.get("what").and_then(|s| s.as_str()).unwrap_or("").to_string(),
            });
        }
    }
    out
}
