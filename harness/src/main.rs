//! csl-mc: bounded-exhaustive model checking of cardano-serialization-lib (see /verif/DESIGN.md).
//!
//!   csl-mc <Cnn> <quick|thorough>
//!   csl-mc <Cnn> --replay <file>

#![allow(dead_code)]
#![allow(deprecated)]

mod alphabet;
mod builder;
mod cddl;
mod engine;
mod fx;
mod gen;
mod ledger;
mod props;
mod refcbor;
mod report;
mod util;

use cardano_serialization_lib::verif_hooks;
use report::Tier;

fn usage() -> ! {
    eprintln!("usage: csl-mc <Cnn> <quick|thorough> | csl-mc <Cnn> --replay <file>");
    std::process::exit(2);
}

fn main() {
    let args: Vec<String> = std::env::args().collect();
    if args.len() < 3 {
        usage();
    }
    engine::install_panic_hook();
    if args[1] == "C02-child" {
        std::process::exit(props::c02::child_main(&args[2..]));
    }
    let prop = args[1].to_uppercase();
    let seed: u64 = std::env::var("VERIF_SEED").ok().and_then(|s| s.parse().ok()).unwrap_or(0);
    if args[2] == "--replay" {
        if args.len() < 4 {
            usage();
        }
        std::process::exit(replay(&prop, &args[3]));
    }
    let tier = match args[2].as_str() {
        "quick" => Tier::Quick,
        "thorough" => Tier::Thorough,
        _ => usage(),
    };
    let r = std::panic::catch_unwind(|| props::run(&prop, tier, seed));
    match r {
        Ok(Some(code)) => std::process::exit(code),
        Ok(None) => {
            eprintln!("unknown property {}", prop);
            std::process::exit(2);
        }
        Err(p) => {
            let msg = if let Some(m) = p.downcast_ref::<engine::Machinery>() {
                m.0.clone()
            } else if let Some(s) = p.downcast_ref::<String>() {
                s.clone()
            } else if let Some(s) = p.downcast_ref::<&str>() {
                s.to_string()
            } else {
                "?".into()
            };
            eprintln!("MACHINERY FAILURE: {}", msg);
            std::process::exit(2);
        }
    }
}

/// Re-execute one recorded choice vector twice; report what it shows.
fn replay(prop: &str, path: &str) -> i32 {
    let txt = match std::fs::read_to_string(path) {
        Ok(t) => t,
        Err(e) => {
            eprintln!("cannot read {}: {}", path, e);
            return 2;
        }
    };
    let doc: serde_json::Value = match serde_json::from_str(&txt) {
        Ok(d) => d,
        Err(e) => {
            eprintln!("cannot parse {}: {}", path, e);
            return 2;
        }
    };
    let scenario = doc["scenario"].as_str().unwrap_or("").to_string();
    let tier = if doc["tier"].as_str() == Some("thorough") { Tier::Thorough } else { Tier::Quick };
    let seed = doc["seed"].as_u64().unwrap_or(0);
    let choices: Vec<u32> = doc["choices"]
        .as_array()
        .map(|a| a.iter().map(|x| x.as_u64().unwrap_or(0) as u32).collect())
        .unwrap_or_default();
    let f = match props::scenario(prop, &scenario, tier) {
        Some(f) => f,
        None => {
            eprintln!("unknown scenario {}/{}", prop, scenario);
            return 2;
        }
    };
    let run = |_: usize| {
        let ctx = engine::run_once(&*f, choices.clone(), engine::Mode::Full, seed, true);
        let mut sigs: Vec<(String, String)> =
            ctx.violations.iter().map(|v| (v.signature.clone(), v.detail.clone())).collect();
        sigs.sort();
        (sigs, ctx.choices(), ctx.sample.clone())
    };
    let r = std::panic::catch_unwind(std::panic::AssertUnwindSafe(|| (run(0), run(1))));
    let (a, b) = match r {
        Ok(x) => x,
        Err(p) => {
            let msg = p.downcast_ref::<engine::Machinery>().map(|m| m.0.clone()).unwrap_or("panic".into());
            eprintln!("MACHINERY FAILURE during replay: {}", msg);
            return 2;
        }
    };
    if a.0 != b.0 || a.1 != b.1 {
        eprintln!("MACHINERY FAILURE: replay is not deterministic");
        return 2;
    }
    if let Some(s) = &a.2 {
        println!("case: {}", s);
    }
    if a.0.is_empty() {
        println!("replay: no violation observed for this choice vector");
        return 0;
    }
    let known = report::load_known(&report::verif_dir(), prop);
    let mut code = 0;
    for (sig, detail) in &a.0 {
        if let Some(k) = known.iter().find(|k| k.matches(sig)) {
            println!("KNOWN-FINDING: property={} {}", prop, k.what);
        } else {
            println!("VIOLATION property={} replay={}", prop, path);
            code = 1;
        }
        println!("  signature: {}\n  detail: {}", sig, detail);
    }
    code
}
