//! C20 — deposit and refund helpers agree with the ledger and with the builder.
//!
//! Space: all certificate sequences of length <= 3 (thorough 4) over 25 certificates x
//! withdrawal maps {0,1,2} x proposal lists {0,1,2} x (key_deposit, pool_deposit) in a 5x5 grid.
//! Oracle: the harness's deposit/refund table (notes/ledger_rules.md), three-way agreement
//! helper(body) == table == TransactionBuilder, overflow => Err from all.

use crate::engine::{explore, guard, panic_sig, Ctx, Opts};
use crate::fx::*;
use crate::props::BoxedScenario;
use crate::report::{Report, Tier};
use crate::util::*;
use cardano_serialization_lib as csl;
use csl::*;
use serde_json::json;

const P: &str = "C20";
const PARAMS: [u64; 5] = [0, 2_000_000, 500_000_000, 0x8000_0000_0000_0000, u64::MAX];

thread_local! {
    static CERTS: Vec<CertSpec> = cert_alphabet();
}

fn dep_amount(d: Dep, key_dep: u64, pool_dep: u64) -> u128 {
    match d {
        Dep::None => 0,
        Dep::Explicit(x) => x as u128,
        Dep::KeyParam => key_dep as u128,
        Dep::PoolParam => pool_dep as u128,
    }
}

fn fit(x: u128) -> Option<u64> {
    if x <= u64::MAX as u128 {
        Some(x as u64)
    } else {
        None
    }
}

struct Case {
    seq: Vec<usize>,
    wd: usize,
    pr: usize,
    key_dep: u64,
    pool_dep: u64,
}

// 3, 4: one account entered twice (the second entry replaces the first: a withdrawal map has one amount per
// account); in 4 the replaced amount is so large that a running total that forgot to drop it would overflow
const WD: [&[(bool, usize, u64)]; 5] = [
    &[],
    &[(false, 0, 5_000_000)],
    &[(true, 1, 0x8000_0000_0000_0000), (false, 0, 5_000_000)],
    &[(false, 0, 9_000_000), (true, 1, 3), (false, 0, 4_000_000)],
    &[(false, 2, u64::MAX), (false, 2, 7)],
];
// 3, 4: two proposals whose deposits sum to exactly 2^64 (every total must be an error) and to 2^64 - 1
const PR: [&[(usize, u64)]; 5] = [
    &[],
    &[(0, 100_000_000_000)],
    &[(1, 0x8000_0000_0000_0000), (0, 100_000_000_000)],
    &[(1, 0x8000_0000_0000_0000), (2, 0x8000_0000_0000_0000)],
    &[(1, 0x8000_0000_0000_0000), (2, 0x7fff_ffff_ffff_ffff)],
];

fn helper_side(c: &Case, certs: &[CertSpec]) -> (Result<Coin, JsError>, Result<Value, JsError>) {
    let mut ins = TransactionInputs::new();
    ins.add(&outpoint(0));
    let mut body = TransactionBody::new_tx_body(&ins, &TransactionOutputs::new(), &bn(0));
    if !c.seq.is_empty() {
        let mut cs = Certificates::new();
        for i in &c.seq {
            cs.add(&certs[*i].cert);
        }
        body.set_certs(&cs);
    }
    if !WD[c.wd].is_empty() {
        let mut w = Withdrawals::new();
        for (script, i, amt) in WD[c.wd] {
            let ra = if *script { reward_script(*i) } else { reward_key(*i) };
            w.insert(&ra, &bn(*amt));
        }
        body.set_withdrawals(&w);
    }
    if !PR[c.pr].is_empty() {
        let mut ps = VotingProposals::new();
        for (i, d) in PR[c.pr] {
            ps.add(&proposal(*i, *d));
        }
        body.set_voting_proposals(&ps);
    }
    (get_deposit(&body, &bn(c.pool_dep), &bn(c.key_dep)), get_implicit_input(&body, &bn(c.pool_dep), &bn(c.key_dep)))
}

fn builder_side(c: &Case, certs: &[CertSpec]) -> Result<(Result<Coin, JsError>, Result<Value, JsError>), String> {
    let mut p = Params::mainnet();
    p.key_deposit = c.key_dep;
    p.pool_deposit = c.pool_dep;
    let mut tb = TransactionBuilder::new(&p.config());
    let ns = NativeScriptSource::new(&native_pubkey(0));
    if !c.seq.is_empty() {
        let mut cb = CertificatesBuilder::new();
        let mut seen: Vec<usize> = vec![];
        for i in &c.seq {
            let r = if certs[*i].script.is_some() { cb.add_with_native_script(&certs[*i].cert, &ns) } else { cb.add(&certs[*i].cert) };
            match r {
                Ok(()) => {
                    if seen.contains(i) {
                        return Err(format!("CertificatesBuilder accepted duplicate {}", certs[*i].name));
                    }
                    seen.push(*i);
                }
                Err(e) => {
                    if !seen.contains(i) {
                        return Err(format!("CertificatesBuilder rejected {}: {:?}", certs[*i].name, e));
                    }
                }
            }
        }
        tb.set_certs_builder(&cb);
    }
    if !WD[c.wd].is_empty() {
        let mut wb = WithdrawalsBuilder::new();
        for (script, i, amt) in WD[c.wd] {
            let r = if *script { wb.add_with_native_script(&reward_script(*i), &bn(*amt), &ns) } else { wb.add(&reward_key(*i), &bn(*amt)) };
            r.map_err(|e| format!("WithdrawalsBuilder rejected: {:?}", e))?;
        }
        tb.set_withdrawals_builder(&wb);
    }
    if !PR[c.pr].is_empty() {
        let mut pb = VotingProposalBuilder::new();
        for (i, d) in PR[c.pr] {
            pb.add(&proposal(*i, *d)).map_err(|e| format!("VotingProposalBuilder rejected: {:?}", e))?;
        }
        tb.set_voting_proposal_builder(&pb);
    }
    Ok((tb.get_deposit(), tb.get_implicit_input()))
}

fn table(c: &Case, certs: &[CertSpec]) -> (u128, u128) {
    let mut seen: Vec<usize> = vec![];
    let mut dep: u128 = 0;
    let mut imp: u128 = 0;
    for i in &c.seq {
        if seen.contains(i) {
            continue;
        }
        seen.push(*i);
        dep += dep_amount(certs[*i].deposit, c.key_dep, c.pool_dep);
        imp += dep_amount(certs[*i].refund, c.key_dep, c.pool_dep);
    }
    let mut per_account: std::collections::BTreeMap<(bool, usize), u64> = std::collections::BTreeMap::new();
    for (script, i, amt) in WD[c.wd] {
        per_account.insert((*script, *i), *amt);
    }
    for amt in per_account.values() {
        imp += *amt as u128;
    }
    for (_, d) in PR[c.pr] {
        dep += *d as u128;
    }
    (dep, imp)
}

fn coin_of(v: &Result<Value, JsError>) -> Result<Option<u64>, String> {
    match v {
        Ok(v) => {
            if v.multiasset().map(|m| m.len() > 0).unwrap_or(false) {
                return Err("implicit input carries assets".into());
            }
            Ok(Some(u(&v.coin())))
        }
        Err(_) => Ok(None),
    }
}

/// which single elements of the case are, on their own, answered wrongly by `side`
fn blame(c: &Case, certs: &[CertSpec], which: usize, side: &dyn Fn(&Case) -> Option<(Option<u64>, Option<u64>)>) -> String {
    let mut culprits = Vec::new();
    let mut seen = vec![];
    for i in &c.seq {
        if seen.contains(i) {
            continue;
        }
        seen.push(*i);
        let single = Case { seq: vec![*i], wd: 0, pr: 0, key_dep: c.key_dep, pool_dep: c.pool_dep };
        let (d, im) = table(&single, certs);
        if let Some(got) = side(&single) {
            let g = if which == 0 { got.0 } else { got.1 };
            let e = if which == 0 { fit(d) } else { fit(im) };
            if g != e {
                culprits.push(certs[*i].name.split('(').next().unwrap().to_string());
            }
        }
    }
    if c.pr != 0 {
        let single = Case { seq: vec![], wd: 0, pr: c.pr, key_dep: c.key_dep, pool_dep: c.pool_dep };
        let (d, im) = table(&single, certs);
        if let Some(got) = side(&single) {
            let g = if which == 0 { got.0 } else { got.1 };
            let e = if which == 0 { fit(d) } else { fit(im) };
            if g != e {
                culprits.push("voting_proposals".to_string());
            }
        }
    }
    if c.wd != 0 {
        let single = Case { seq: vec![], wd: c.wd, pr: 0, key_dep: c.key_dep, pool_dep: c.pool_dep };
        let (d, im) = table(&single, certs);
        if let Some(got) = side(&single) {
            let g = if which == 0 { got.0 } else { got.1 };
            let e = if which == 0 { fit(d) } else { fit(im) };
            if g != e {
                culprits.push("withdrawals".to_string());
            }
        }
    }
    culprits.sort();
    culprits.dedup();
    if culprits.is_empty() {
        "combination".to_string()
    } else {
        culprits.join("+")
    }
}

fn sc_certs(max_len: usize) -> impl Fn(&mut Ctx) + Sync {
    move |ctx: &mut Ctx| {
        CERTS.with(|certs| {
            let n = ctx.choose_free(max_len + 1);
            let mut seq = Vec::new();
            for _ in 0..n {
                seq.push(ctx.choose_free(certs.len()));
            }
            let wd = ctx.choose_free(WD.len());
            let pr = ctx.choose_free(PR.len());
            let key_dep = *ctx.pick_free(&PARAMS);
            let pool_dep = *ctx.pick_free(&PARAMS);
            let c = Case { seq, wd, pr, key_dep, pool_dep };
            let (e_dep, e_imp) = table(&c, certs);
            ctx.observe(&(&c.seq, wd, pr, key_dep, pool_dep));
            ctx.set_sample(|| {
                format!(
                    "certs=[{}] withdrawals#{} proposals#{} key_deposit={} pool_deposit={} => deposit {} implicit input {}",
                    c.seq.iter().map(|i| certs[*i].name).collect::<Vec<_>>().join(", "),
                    wd, pr, key_dep, pool_dep, e_dep, e_imp
                )
            });
            for i in &c.seq {
                ctx.hit(match certs[*i].cert.kind() {
                    CertificateKind::StakeRegistration => "k:StakeRegistration",
                    CertificateKind::StakeDeregistration => "k:StakeDeregistration",
                    CertificateKind::StakeDelegation => "k:StakeDelegation",
                    CertificateKind::PoolRegistration => "k:PoolRegistration",
                    CertificateKind::PoolRetirement => "k:PoolRetirement",
                    CertificateKind::GenesisKeyDelegation => "k:GenesisKeyDelegation",
                    CertificateKind::MoveInstantaneousRewardsCert => "k:MIR",
                    CertificateKind::CommitteeHotAuth => "k:CommitteeHotAuth",
                    CertificateKind::CommitteeColdResign => "k:CommitteeColdResign",
                    CertificateKind::DRepDeregistration => "k:DRepDeregistration",
                    CertificateKind::DRepRegistration => "k:DRepRegistration",
                    CertificateKind::DRepUpdate => "k:DRepUpdate",
                    CertificateKind::StakeAndVoteDelegation => "k:StakeAndVoteDelegation",
                    CertificateKind::StakeRegistrationAndDelegation => "k:StakeRegistrationAndDelegation",
                    CertificateKind::StakeVoteRegistrationAndDelegation => "k:StakeVoteRegistrationAndDelegation",
                    CertificateKind::VoteDelegation => "k:VoteDelegation",
                    CertificateKind::VoteRegistrationAndDelegation => "k:VoteRegistrationAndDelegation",
                });
            }
            if e_dep == u64::MAX as u128 || e_imp == u64::MAX as u128 {
                ctx.hit("sum=2^64-1");
            }
            if e_dep == (u64::MAX as u128) + 1 || e_imp == (u64::MAX as u128) + 1 {
                ctx.hit("sum=2^64");
            }
            // helper side
            let hs = |c: &Case| -> Option<(Option<u64>, Option<u64>)> {
                let (d, i) = guard(|| helper_side(c, certs)).ok()?;
                Some((d.ok().map(|x| u(&x)), coin_of(&i).ok()?))
            };
            let bs = |c: &Case| -> Option<(Option<u64>, Option<u64>)> {
                let (d, i) = guard(|| builder_side(c, certs)).ok()?.ok()?;
                Some((d.ok().map(|x| u(&x)), coin_of(&i).ok()?))
            };
            ctx.compared();
            match guard(|| helper_side(&c, certs)) {
                Err(p) => ctx.violation(panic_sig(P, "get_deposit/get_implicit_input", &p), p.msg.clone()),
                Ok((d, i)) => {
                    let gd = d.ok().map(|x| u(&x));
                    if gd != fit(e_dep) {
                        let who = blame(&c, certs, 0, &hs);
                        ctx.violation(format!("{}/get_deposit(body)/differs-from-ledger/{}", P, who), format!("got {:?} ledger table {} (fits: {:?})", gd, e_dep, fit(e_dep)));
                    }
                    match coin_of(&i) {
                        Err(e) => ctx.violation(format!("{}/get_implicit_input(body)/assets", P), e),
                        Ok(gi) => {
                            if gi != fit(e_imp) {
                                let who = blame(&c, certs, 1, &hs);
                                ctx.violation(format!("{}/get_implicit_input(body)/differs-from-ledger/{}", P, who), format!("got {:?} ledger table {} (fits: {:?})", gi, e_imp, fit(e_imp)));
                            }
                        }
                    }
                }
            }
            ctx.compared();
            match guard(|| builder_side(&c, certs)) {
                Err(p) => ctx.violation(panic_sig(P, "TransactionBuilder::get_deposit/get_implicit_input", &p), p.msg.clone()),
                Ok(Err(e)) => ctx.violation(format!("{}/builder/load-failed", P), e),
                Ok(Ok((d, i))) => {
                    let gd = d.ok().map(|x| u(&x));
                    if gd != fit(e_dep) {
                        let who = blame(&c, certs, 0, &bs);
                        ctx.violation(format!("{}/TransactionBuilder::get_deposit/differs-from-ledger/{}", P, who), format!("got {:?} ledger table {}", gd, e_dep));
                    }
                    match coin_of(&i) {
                        Err(e) => ctx.violation(format!("{}/TransactionBuilder::get_implicit_input/assets", P), e),
                        Ok(gi) => {
                            if gi != fit(e_imp) {
                                let who = blame(&c, certs, 1, &bs);
                                ctx.violation(format!("{}/TransactionBuilder::get_implicit_input/differs-from-ledger/{}", P, who), format!("got {:?} ledger table {}", gi, e_imp));
                            }
                        }
                    }
                }
            }
        })
    }
}

pub fn scenario(name: &str, tier: Tier) -> Option<BoxedScenario> {
    Some(match name {
        "certs" => Box::new(sc_certs(if tier.thorough() { 4 } else { 3 })),
        _ => return None,
    })
}

pub fn run(tier: Tier, seed: u64) -> i32 {
    let mut rep = Report::new(P, tier, seed);
    let max_len = if tier.thorough() { 4 } else { 3 };
    rep.rule = format!("all certificate sequences of length <= {} over 25 certificates (19 CDDL kinds, explicit/parameter amounts, key/script credentials) x 5 withdrawal maps (none, one, two, an account entered twice, an account entered twice with a first amount of 2^64-1) x 5 proposal lists (none, one, two, two summing to exactly 2^64, two summing to 2^64-1) x 5x5 (key_deposit, pool_deposit); distinct = distinct argument tuples", max_len);
    rep.bound("max_sequence_length", json!(max_len));
    rep.assume("pool registrations are counted as first registrations (the helpers cannot see ledger state)");
    rep.assume("repeated certificates are one element (set semantics, checked separately by C16)");
    rep.trusted_base = vec!["deposit/refund table transcribed from the Conway ledger rules (notes/ledger_rules.md)".into()];
    rep.required_hits = vec![
        "k:StakeRegistration", "k:StakeDeregistration", "k:StakeDelegation", "k:PoolRegistration", "k:PoolRetirement", "k:GenesisKeyDelegation", "k:MIR",
        "k:CommitteeHotAuth", "k:CommitteeColdResign", "k:DRepDeregistration", "k:DRepRegistration", "k:DRepUpdate", "k:StakeAndVoteDelegation",
        "k:StakeRegistrationAndDelegation", "k:StakeVoteRegistrationAndDelegation", "k:VoteDelegation", "k:VoteRegistrationAndDelegation", "sum=2^64-1", "sum=2^64",
    ];
    let opts = Opts::new(seed);
    let f = scenario("certs", tier).unwrap();
    let st = explore("certs", &*f, &opts);
    rep.add("certs", "full product", st);
    rep.finish()
}
