use crate::engine::Ctx;
use crate::report::Tier;

pub mod c01;
pub mod c02;
pub mod c03;
pub mod c04;
pub mod builder_oracles;
pub mod c05;
pub mod c06;
pub mod c07;
pub mod c08;
pub mod c09;
pub mod c10;
pub mod c11;
pub mod c12;
pub mod c13;
pub mod c14;
pub mod c15;
pub mod c16;
pub mod c17;
pub mod c18;
pub mod c19;
pub mod c20;

pub type BoxedScenario = Box<dyn Fn(&mut Ctx) + Sync>;

pub fn run(prop: &str, tier: Tier, seed: u64) -> Option<i32> {
    Some(match prop {
        "C01" => c01::run(tier, seed),
        "C02" => c02::run(tier, seed),
        "C03" => c03::run(tier, seed),
        "C04" => c04::run(tier, seed),
        "C05" => c05::run(tier, seed),
        "C06" => c06::run(tier, seed),
        "C08" => c08::run(tier, seed),
        "C09" => c09::run(tier, seed),
        "C10" => c10::run(tier, seed),
        "C18" => c18::run(tier, seed),
        "C07" => c07::run(tier, seed),
        "C11" => c11::run(tier, seed),
        "C12" => c12::run(tier, seed),
        "C13" => c13::run(tier, seed),
        "C14" => c14::run(tier, seed),
        "C15" => c15::run(tier, seed),
        "C16" => c16::run(tier, seed),
        "C17" => c17::run(tier, seed),
        "C19" => c19::run(tier, seed),
        "C20" => c20::run(tier, seed),
        _ => return None,
    })
}

pub fn scenario(prop: &str, name: &str, tier: Tier) -> Option<BoxedScenario> {
    match prop {
        "C01" => c01::scenario(name, tier),
        "C02" => c02::scenario(name, tier),
        "C03" => c03::scenario(name, tier),
        "C04" => c04::scenario(name, tier),
        "C05" => c05::scenario(name, tier),
        "C06" => c06::scenario(name, tier),
        "C08" => c08::scenario(name, tier),
        "C09" => c09::scenario(name, tier),
        "C10" => c10::scenario(name, tier),
        "C18" => c18::scenario(name, tier),
        "C07" => c07::scenario(name, tier),
        "C11" => c11::scenario(name, tier),
        "C12" => c12::scenario(name, tier),
        "C13" => c13::scenario(name, tier),
        "C14" => c14::scenario(name, tier),
        "C15" => c15::scenario(name, tier),
        "C16" => c16::scenario(name, tier),
        "C17" => c17::scenario(name, tier),
        "C19" => c19::scenario(name, tier),
        "C20" => c20::scenario(name, tier),
        _ => None,
    }
}
