use crate::engine::Ctx;
use crate::report::Tier;

pub mod c15;

pub type BoxedScenario = Box<dyn Fn(&mut Ctx) + Sync>;

pub fn run(prop: &str, tier: Tier, seed: u64) -> Option<i32> {
    Some(match prop {
        "C15" => c15::run(tier, seed),
        _ => return None,
    })
}

pub fn scenario(prop: &str, name: &str, tier: Tier) -> Option<BoxedScenario> {
    match prop {
        "C15" => c15::scenario(name, tier),
        _ => None,
    }
}
