use crate::engine::Ctx;
use crate::report::Tier;

pub mod c14;
pub mod c15;

pub type BoxedScenario = Box<dyn Fn(&mut Ctx) + Sync>;

pub fn run(prop: &str, tier: Tier, seed: u64) -> Option<i32> {
    Some(match prop {
        "C14" => c14::run(tier, seed),
        "C15" => c15::run(tier, seed),
        _ => return None,
    })
}

pub fn scenario(prop: &str, name: &str, tier: Tier) -> Option<BoxedScenario> {
    match prop {
        "C14" => c14::scenario(name, tier),
        "C15" => c15::scenario(name, tier),
        _ => None,
    }
}
