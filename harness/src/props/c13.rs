//! C13 — send-all batches spend everything once and every transaction is valid.
//!
//! E1, full product: every sequence of <= N UTxOs over an alphabet of UTxO kinds (pure ADA of
//! several magnitudes, dust, assets whose summed quantity / coin crosses a CBOR width, many policies,
//! long and empty asset names, Byron and Shelley owners, one key behind two addresses) x protocol
//! parameter configurations (tight transaction size, tight value size, zero fee, tiny min-ADA) x
//! target address x hash-container seed; plus count families (n copies with distinct outpoints /
//! names / policies / keys, n around 23|24 and 255|256).  Oracle: the returned transactions are
//! re-parsed by the harness's ledger model and judged against the UTxO table.

use crate::engine::{explore, guard, panic_sig, Ctx, Opts};
use crate::fx::*;
use crate::ledger::{self, FeeParams, Val};
use crate::props::BoxedScenario;
use crate::report::{Report, Tier};
use crate::util::*;
use cardano_serialization_lib as csl;
use cardano_serialization_lib::verif_hooks;
use csl::*;
use std::collections::{BTreeMap, BTreeSet};

const P: &str = "C13";

#[derive(Clone, Debug)]
enum Owner {
    /// key index, address form (0 enterprise, 1 base, 2 pointer)
    Key(usize, u8),
    Byron(u8),
}

#[derive(Clone, Debug)]
struct Spec {
    owner: Owner,
    coin: u64,
    /// (policy, name, quantity)
    assets: Vec<(u8, Vec<u8>, u64)>,
}

fn policy(i: u8) -> ScriptHash {
    ScriptHash::from_bytes(vec![0x30 + i; 28]).unwrap()
}
fn key_hash(i: usize) -> Ed25519KeyHash {
    let mut b = vec![0x11u8; 28];
    b[0] = (i >> 8) as u8;
    b[1] = i as u8;
    Ed25519KeyHash::from_bytes(b).unwrap()
}
/// Byron owners 0 and 1 are Icarus-style addresses (1 byte of attributes); 2 is a Daedalus-style one
/// with a derivation-path attribute (34 bytes of attributes: a two-byte CBOR head in the witness)
fn byron_owner(i: u8) -> ByronAddress {
    if i == 2 {
        let r = crate::props::c11::RefByron { root: vec![0x3c; 28], payload: Some([vec![0x58, 0x1e], vec![0x77; 30]].concat()), magic: None, typ: 0 };
        ByronAddress::from_bytes(crate::props::c11::byron_bytes(&r)).expect("harness Byron address")
    } else {
        crate::gen::byron_cached(i as usize)
    }
}

fn address_of(o: &Owner) -> Address {
    match o {
        Owner::Key(k, 0) => EnterpriseAddress::new(1, &Credential::from_keyhash(&key_hash(*k))).to_address(),
        Owner::Key(k, 1) => BaseAddress::new(1, &Credential::from_keyhash(&key_hash(*k)), &Credential::from_keyhash(&key_hash(900 + *k))).to_address(),
        Owner::Key(k, _) => PointerAddress::new(1, &Credential::from_keyhash(&key_hash(*k)), &Pointer::new_pointer(&bn(2498243), &bn(27), &bn(3))).to_address(),
        Owner::Byron(i) => byron_owner(*i).to_address(),
    }
}

fn kinds() -> Vec<Spec> {
    let a = |p: u8, n: &[u8], q: u64| (p, n.to_vec(), q);
    vec![
        Spec { owner: Owner::Key(0, 0), coin: 1_200_000, assets: vec![] },
        Spec { owner: Owner::Key(1, 1), coin: 50_000_000, assets: vec![] },
        // dust, and the same key as kind 0 behind another address
        Spec { owner: Owner::Key(0, 1), coin: 900_000, assets: vec![] },
        Spec { owner: Owner::Key(2, 0), coin: 2_000_000, assets: vec![a(0, b"a", 200)] },
        // with kind 3 the summed quantity crosses 255|256
        Spec { owner: Owner::Key(2, 2), coin: 2_000_000, assets: vec![a(0, b"a", 100)] },
        Spec { owner: Owner::Key(3, 0), coin: 2_500_000, assets: vec![a(0, b"a", 1 << 32), a(0, &[0xee; 32], 5)] },
        Spec { owner: Owner::Key(1, 0), coin: 1_500_000, assets: vec![a(1, b"b", 23), a(2, b"", 24)] },
        Spec { owner: Owner::Byron(0), coin: 3_000_000, assets: vec![] },
        Spec { owner: Owner::Byron(1), coin: 2_200_000, assets: vec![a(0, b"a", 7)] },
        Spec { owner: Owner::Key(4, 1), coin: 10_000_000, assets: vec![a(1, b"", 1), a(1, b"c", 65_535), a(1, &[0xcc; 32], u64::MAX / 2)] },
        // coins whose sum crosses 2^32 lovelace
        Spec { owner: Owner::Key(5, 0), coin: 4_000_000_000, assets: vec![] },
        Spec { owner: Owner::Key(5, 0), coin: 300_000_000, assets: vec![] },
        // an asset-rich UTxO with very little ADA (below the min-ADA of its own assets)
        Spec { owner: Owner::Key(6, 0), coin: 1_000_000, assets: vec![a(3, &[0xaa; 32], 1), a(3, &[0xab; 32], 1), a(4, &[0xac; 32], 1)] },
        Spec { owner: Owner::Key(0, 0), coin: 1 << 40, assets: vec![] },
        // a Daedalus-style Byron owner (long attributes)
        Spec { owner: Owner::Byron(2), coin: 2_600_000, assets: vec![] },
        // a value that holds an asset with quantity 0 (nothing in ledger terms)
        Spec { owner: Owner::Key(3, 1), coin: 3_000_000, assets: vec![a(0, b"z", 0), a(2, b"y", 9)] },
    ]
}

fn params(i: usize) -> (Params, &'static str) {
    let mut p = Params::mainnet();
    let name = match i {
        0 => "mainnet",
        1 => {
            p.max_tx_size = 420;
            "max_tx_size=420"
        }
        2 => {
            p.max_value_size = 90;
            "max_value_size=90"
        }
        3 => {
            p.fee_a = 0;
            p.fee_b = 0;
            "zero-fee"
        }
        4 => {
            p.coins_per_byte = 1;
            "coins_per_byte=1"
        }
        5 => {
            p.max_tx_size = 300;
            p.max_value_size = 60;
            "max_tx_size=300,max_value_size=60"
        }
        6 => {
            p.fee_a = 1000;
            p.fee_b = 2_000_000;
            "fee=1000/2000000"
        }
        _ => {
            p.coins_per_byte = 34_482 / 8 * 10;
            p.max_value_size = 150;
            "coins_per_byte=43100,max_value_size=150"
        }
    };
    (p, name)
}
const N_PARAMS: usize = 8;

fn target(i: usize) -> Address {
    match i {
        0 => BaseAddress::new(1, &Credential::from_keyhash(&key_hash(700)), &Credential::from_keyhash(&key_hash(701))).to_address(),
        1 => crate::gen::byron_cached(2).to_address(),
        _ => EnterpriseAddress::new(1, &Credential::from_scripthash(&policy(9))).to_address(),
    }
}

fn outpoint_n(j: usize) -> TransactionInput {
    let h = blake2b256(&[(j >> 8) as u8, j as u8, 0x13]);
    TransactionInput::new(&TransactionHash::from_bytes(h).unwrap(), (j * 7 % 300) as u32)
}

fn utxo_of(j: usize, s: &Spec) -> TransactionUnspentOutput {
    let mut v = Value::new(&bn(s.coin));
    if !s.assets.is_empty() {
        let mut ma = MultiAsset::new();
        for (p, n, q) in &s.assets {
            ma.set_asset(&policy(*p), &AssetName::new(n.clone()).unwrap(), &bn(*q));
        }
        v.set_multiasset(&ma);
    }
    TransactionUnspentOutput::new(&outpoint_n(j), &TransactionOutput::new(&address_of(&s.owner), &v))
}

fn val_of(s: &Spec) -> Val {
    let mut v = Val::coin(s.coin);
    for (p, n, q) in &s.assets {
        *v.assets.entry((policy(*p).to_bytes(), n.clone())).or_insert(0) += *q as i128;
    }
    v
}

/// judge the result of create_send_all for `specs` (UTxO j = specs[j])
fn judge(ctx: &mut Ctx, specs: &[Spec], tgt: &Address, p: &Params, res: Result<Result<TransactionBatchList, JsError>, crate::engine::PanicRec>, what: &dyn Fn() -> String) {
    ctx.compared();
    let list = match res {
        Err(pn) => return ctx.violation(panic_sig(P, "create_send_all", &pn), format!("{} ; {}", pn.msg, what())),
        Ok(Err(_)) => return ctx.hit("send-all-refuses"),
        Ok(Ok(l)) => l,
    };
    ctx.hit("send-all-succeeds");
    let mut txs: Vec<Vec<u8>> = Vec::new();
    for b in 0..list.len() {
        let batch = list.get(b);
        for i in 0..batch.len() {
            txs.push(batch.get(i).to_bytes());
        }
    }
    ctx.observe(&txs);
    match txs.len() {
        0 => ctx.hit("txs:0"),
        1 => ctx.hit("txs:1"),
        _ => ctx.hit("txs:>=2"),
    }
    let table: BTreeMap<(Vec<u8>, u64), usize> = (0..specs.len()).map(|j| ((outpoint_n(j).transaction_id().to_bytes(), outpoint_n(j).index() as u64), j)).collect();
    let mut spent: BTreeMap<usize, usize> = BTreeMap::new();
    let fp = FeeParams { a: p.fee_a, b: p.fee_b, price_mem: (0, 1), price_steps: (0, 1), ref_price: (0, 1) };
    let tb = tgt.to_bytes();
    for (ti, b) in txs.iter().enumerate() {
        let t = match ledger::parse_tx(b) {
            Ok(t) => t,
            Err(e) => return ctx.violation(format!("{}/transaction-not-parseable", P), format!("{} ; {}", e, what())),
        };
        if t.body_keys.iter().any(|k| ![0u64, 1, 2, 3].contains(k)) {
            ctx.violation(format!("{}/unexpected-body-field", P), format!("{:?} ; {}", t.body_keys, what()));
        }
        let mut inp = Val::default();
        let mut keys: BTreeSet<Vec<u8>> = BTreeSet::new();
        let mut byron: BTreeMap<Vec<u8>, Vec<u8>> = BTreeMap::new();
        let mut seen_here = BTreeSet::new();
        for i in &t.inputs {
            if !seen_here.insert(i.clone()) {
                ctx.violation(format!("{}/input-twice-in-one-transaction", P), what());
            }
            match table.get(i) {
                None => return ctx.violation(format!("{}/input-not-among-supplied-utxos", P), format!("tx {} ; {}", ti, what())),
                Some(j) => {
                    *spent.entry(*j).or_insert(0) += 1;
                    inp.add(&val_of(&specs[*j]));
                    match &specs[*j].owner {
                        Owner::Key(k, _) => {
                            keys.insert(key_hash(*k).to_bytes());
                        }
                        Owner::Byron(i) => {
                            let a = byron_owner(*i);
                            byron.insert(a.to_bytes(), a.attributes());
                        }
                    }
                }
            }
        }
        if t.inputs.is_empty() {
            ctx.violation(format!("{}/transaction-without-inputs", P), what());
        }
        let mut out = Val::coin(t.fee);
        for (oi, o) in t.outputs.iter().enumerate() {
            if o.addr != tb {
                ctx.violation(format!("{}/output-not-to-target-address", P), format!("tx {} output {} ; {}", ti, oi, what()));
            }
            out.add(&o.value);
            let min = p.coins_per_byte as u128 * (160 + o.size as u128);
            if o.value.coin < min {
                ctx.violation(format!("{}/output-below-min-ada/{}", P, if o.value.assets.is_empty() { "pure-ada" } else { "with-assets" }), format!("tx {} output {} holds {} needs {} ({} bytes) ; {}", ti, oi, o.value.coin, min, o.size, what()));
            }
            if o.value_bytes > p.max_value_size as usize {
                ctx.violation(format!("{}/value-exceeds-max-value-size", P), format!("tx {} output {} value {} bytes > {} ; {}", ti, oi, o.value_bytes, p.max_value_size, what()));
            }
            if o.has_zero_asset || o.has_empty_bundle {
                ctx.violation(format!("{}/output-with-zero-quantity-or-empty-bundle", P), format!("tx {} output {} ; {}", ti, oi, what()));
            }
        }
        if t.outputs.len() >= 2 {
            ctx.hit("outputs:>=2");
        }
        if inp.normalized() != out.normalized() {
            let which = if inp.coin != out.coin { "lovelace" } else { "asset" };
            ctx.violation(format!("{}/not-balanced/{}", P, which), format!("tx {} inputs {:?} outputs+fee {:?} ; {}", ti, inp.normalized(), out.normalized(), what()));
        }
        let boots: Vec<Vec<u8>> = byron.values().cloned().collect();
        let signed = ledger::signed_bytes(&t, keys.len(), &boots);
        let mf = ledger::min_fee(signed.len(), &[], 0, &fp);
        if num_bigint::BigInt::from(t.fee) < mf {
            let kind = match (keys.is_empty(), boots.is_empty()) {
                (false, true) => "key-owners",
                (true, false) => "byron-owners",
                _ => "byron-and-key-owners",
            };
            ctx.violation(format!("{}/fee-below-minimum/{}", P, kind), format!("tx {} fee {} < min {} for {} signed bytes ({} key + {} bootstrap witnesses) ; {}", ti, t.fee, mf, signed.len(), keys.len(), boots.len(), what()));
        } else {
            ctx.hit("fee-sufficient");
        }
        if signed.len() > p.max_tx_size as usize {
            ctx.violation(format!("{}/transaction-exceeds-max-tx-size", P), format!("tx {} is {} bytes signed > {} ; {}", ti, signed.len(), p.max_tx_size, what()));
        }
        if !boots.is_empty() && !keys.is_empty() {
            ctx.hit("byron-and-key-owners-in-one-tx");
        }
        if t.inputs.len() >= 24 {
            ctx.hit("inputs:>=24");
        }
        if t.inputs.len() >= 256 {
            ctx.hit("inputs:>=256");
        }
        if keys.len() >= 24 {
            ctx.hit("key-witnesses:>=24");
        }
        if t.outputs.iter().any(|o| {
            let mut per: BTreeMap<&Vec<u8>, usize> = BTreeMap::new();
            for ((pp, _), _) in &o.value.assets {
                *per.entry(pp).or_insert(0) += 1;
            }
            per.values().any(|c| *c >= 24)
        }) {
            ctx.hit("assets-per-policy:>=24");
        }
        if t.outputs.iter().any(|o| o.value.assets.keys().map(|k| &k.0).collect::<BTreeSet<_>>().len() >= 24) {
            ctx.hit("policies:>=24");
        }
    }
    for j in 0..specs.len() {
        match spent.get(&j).cloned().unwrap_or(0) {
            1 => {}
            0 => ctx.violation(format!("{}/supplied-utxo-not-spent", P), format!("utxo {} ; {}", j, what())),
            _ => ctx.violation(format!("{}/supplied-utxo-spent-twice", P), format!("utxo {} ; {}", j, what())),
        }
    }
    if !specs.is_empty() {
        ctx.hit("all-spent-once-checked");
    }
}

fn sc_sequences(max_n: usize) -> impl Fn(&mut Ctx) + Sync {
    move |ctx: &mut Ctx| {
        let ks = kinds();
        let pi = ctx.choose_free(N_PARAMS);
        let ti = ctx.choose_free(3);
        let seed = ctx.choose_free(2) as u64;
        let n = ctx.choose_free(max_n + 1);
        let seq: Vec<usize> = (0..n).map(|_| ctx.choose_free(ks.len())).collect();
        let (p, pname) = params(pi);
        let specs: Vec<Spec> = seq.iter().map(|k| ks[*k].clone()).collect();
        let tgt = target(ti);
        let mut utxos = TransactionUnspentOutputs::new();
        for (j, s) in specs.iter().enumerate() {
            utxos.add(&utxo_of(j, s));
        }
        let what = || format!("utxo kinds {:?} ; {} ; target {} ; hash seed {}", seq, pname, ti, seed);
        ctx.set_sample(|| what());
        ctx.observe(&(pi, ti, seed, &seq));
        let cfg = p.config();
        verif_hooks::set_hash_seed(seed);
        let res = guard(|| create_send_all(&tgt, &utxos, &cfg));
        verif_hooks::set_hash_seed(0);
        judge(ctx, &specs, &tgt, &p, res, &what);
    }
}

fn family_spec(f: usize, j: usize) -> Spec {
    let name = |j: usize| vec![(j >> 8) as u8, j as u8, 0x7a];
    match f {
        // one key, pure ADA
        0 => Spec { owner: Owner::Key(0, 0), coin: 1_300_000 + j as u64, assets: vec![] },
        // distinct keys, pure ADA
        1 => Spec { owner: Owner::Key(j, (j % 3) as u8), coin: 2_000_000, assets: vec![] },
        // one policy, a distinct asset name per UTxO
        2 => Spec { owner: Owner::Key(1, 0), coin: 1_500_000, assets: vec![(0, name(j), 1 + j as u64)] },
        // a distinct policy per UTxO
        3 => Spec { owner: Owner::Key(1, 0), coin: 1_500_000, assets: vec![((j % 200) as u8, if j < 200 { vec![] } else { vec![1] }, 3)] },
        // the same asset in every UTxO (one summed quantity), little ADA each
        4 => Spec { owner: Owner::Key(2, 1), coin: 1_100_000, assets: vec![(0, b"same".to_vec(), 11)] },
        // 6, 7: the SAME dozen assets (32-byte names) in every UTxO; the per-UTxO quantity fits a
        // narrower CBOR integer than the sum over two or more UTxOs (40 000 x 2 crosses 2^16,
        // 3 000 000 000 x 2 crosses 2^32): the value size of the packed output is only right if the
        // widths of the SUMS are used
        6 | 7 => Spec {
            owner: Owner::Key(4, (j % 2) as u8),
            coin: 6_000_000,
            assets: (0..12u8).map(|a| (a / 6, (0..32u8).map(|k| k.wrapping_mul(7) ^ a).collect::<Vec<u8>>(), if f == 6 { 40_000 } else { 3_000_000_000 })).collect(),
        },
        // Byron owners, alternating two addresses, with a key-owned one every third
        _ => {
            if j % 3 == 2 {
                Spec { owner: Owner::Key(3, 0), coin: 2_000_000, assets: vec![] }
            } else {
                Spec { owner: Owner::Byron((j % 2) as u8), coin: 2_100_000, assets: vec![] }
            }
        }
    }
}
const N_FAMILIES: usize = 8;

fn sc_families(ns: Vec<usize>) -> impl Fn(&mut Ctx) + Sync {
    move |ctx: &mut Ctx| {
        let f = ctx.choose_free(N_FAMILIES);
        let pi = ctx.choose_free(N_PARAMS);
        let ni = ctx.choose_free(ns.len());
        let seed = ctx.choose_free(2) as u64;
        let n = ns[ni];
        let (p, pname) = params(pi);
        let specs: Vec<Spec> = (0..n).map(|j| family_spec(f, j)).collect();
        let tgt = target(0);
        let mut utxos = TransactionUnspentOutputs::new();
        for (j, s) in specs.iter().enumerate() {
            utxos.add(&utxo_of(j, s));
        }
        let what = || format!("family {} with {} utxos ; {} ; hash seed {}", f, n, pname, seed);
        ctx.set_sample(|| what());
        ctx.observe(&(f, pi, n, seed));
        let cfg = p.config();
        verif_hooks::set_hash_seed(seed);
        let res = guard(|| create_send_all(&tgt, &utxos, &cfg));
        verif_hooks::set_hash_seed(0);
        judge(ctx, &specs, &tgt, &p, res, &what);
    }
}

/// an asset-carrying UTxO short of ADA plus pure-ADA UTxOs, one of them swept in 1000-lovelace
/// steps across the point where the batch becomes affordable (the fee of an added input is a few
/// thousand lovelace with mainnet parameters, so a window that narrow decides the outcome)
fn sc_sweep(steps: usize) -> impl Fn(&mut Ctx) + Sync {
    move |ctx: &mut Ctx| {
        let ks = kinds();
        let pi = ctx.choose_free(N_PARAMS);
        let short = [12usize, 5, 8, 9][ctx.choose_free(4)];
        let extra = ctx.choose_free(3);
        let k = ctx.choose_free(steps);
        let (p, pname) = params(pi);
        let mut specs = vec![ks[short].clone()];
        specs[0].coin = 1_000_000;
        specs.push(Spec { owner: Owner::Key(7, 0), coin: 150_000 + 1000 * k as u64, assets: vec![] });
        for e in 0..extra {
            specs.push(Spec { owner: Owner::Key(8 + e, 1), coin: 160_000 + 5_000 * e as u64, assets: vec![] });
        }
        let tgt = target(0);
        let mut utxos = TransactionUnspentOutputs::new();
        for (j, s) in specs.iter().enumerate() {
            utxos.add(&utxo_of(j, s));
        }
        let what = || format!("sweep: kind {} with 1 ADA + pure ADA {} + {} small extras ; {}", short, 150_000 + 1000 * k, extra, pname);
        ctx.set_sample(|| what());
        ctx.observe(&(pi, short, extra, k));
        let cfg = p.config();
        let res = guard(|| create_send_all(&tgt, &utxos, &cfg));
        if let Ok(Ok(_)) = &res {
            ctx.hit("sweep:affordable");
        } else {
            ctx.hit("sweep:refused");
        }
        judge(ctx, &specs, &tgt, &p, res, &what);
    }
}

/// limits placed exactly at, and 1..3 below, what the batch really needs: the arithmetic size model
/// must agree with real serialization at the byte, or the limit is exceeded
fn sc_limit_sweep(ns: Vec<usize>) -> impl Fn(&mut Ctx) + Sync {
    move |ctx: &mut Ctx| {
        let f = [2usize, 3, 4, 1, 5, 6, 7][ctx.choose_free(7)];
        let ni = ctx.choose_free(ns.len());
        let which = ctx.choose_free(2);
        let d = ctx.choose_free(5) as u32;
        let long_names = ctx.choose_free(2) == 1;
        let n = ns[ni];
        let mut specs: Vec<Spec> = (0..n).map(|j| family_spec(f, j)).collect();
        if long_names {
            for (j, s) in specs.iter_mut().enumerate() {
                for a in s.assets.iter_mut() {
                    if a.1.len() == 3 && f < 6 {
                        a.1 = (0..32u8).map(|k| k ^ (j as u8)).collect();
                        a.2 = if j % 5 == 0 { 100 } else { 1 };
                    }
                }
            }
        }
        let tgt = target(0);
        let mut utxos = TransactionUnspentOutputs::new();
        for (j, s) in specs.iter().enumerate() {
            utxos.add(&utxo_of(j, s));
        }
        // locate the boundary with generous limits (the library's own answer is only used to find
        // where to put the limit, never to judge)
        let mut p = Params::mainnet();
        p.max_tx_size = 1 << 20;
        p.max_value_size = 1 << 20;
        let probe = match guard(|| create_send_all(&tgt, &utxos, &p.config())) {
            Ok(Ok(l)) if l.len() == 1 && l.get(0).len() == 1 => l.get(0).get(0).to_bytes(),
            _ => return ctx.hit("sweep-probe-not-a-single-transaction"),
        };
        let t = match ledger::parse_tx(&probe) {
            Ok(t) => t,
            Err(_) => return,
        };
        let mut p2 = Params::mainnet();
        let name;
        if which == 0 {
            let biggest = t.outputs.iter().map(|o| o.value_bytes).max().unwrap_or(0) as u32;
            if biggest <= d + 20 {
                return;
            }
            p2.max_value_size = biggest - d;
            p2.max_tx_size = 1 << 20;
            name = format!("max_value_size = largest real value ({}) - {}", biggest, d);
            ctx.hit("limit-sweep:value-size");
        } else {
            let keys: BTreeSet<Vec<u8>> = specs.iter().filter_map(|s| if let Owner::Key(k, _) = &s.owner { Some(key_hash(*k).to_bytes()) } else { None }).collect();
            let boots: BTreeMap<Vec<u8>, Vec<u8>> = specs.iter().filter_map(|s| if let Owner::Byron(i) = &s.owner { let a = byron_owner(*i); Some((a.to_bytes(), a.attributes())) } else { None }).collect();
            let signed = ledger::signed_bytes(&t, keys.len(), &boots.values().cloned().collect::<Vec<_>>()).len() as u32;
            p2.max_tx_size = signed - d;
            p2.max_value_size = 1 << 20;
            name = format!("max_tx_size = real signed size ({}) - {}", signed, d);
            ctx.hit("limit-sweep:tx-size");
        }
        let what = || format!("family {} with {} utxos (long names {}) ; {}", f, n, long_names, name);
        ctx.set_sample(|| what());
        ctx.observe(&(f, n, which, d, long_names));
        let res = guard(|| create_send_all(&tgt, &utxos, &p2.config()));
        judge(ctx, &specs, &tgt, &p2, res, &what);
    }
}

pub fn scenario(name: &str, tier: Tier) -> Option<BoxedScenario> {
    match name {
        "sequences" => Some(Box::new(sc_sequences(if tier.thorough() { 5 } else { 4 }))),
        "sweep" => Some(Box::new(sc_sweep(if tier.thorough() { 3000 } else { 1500 }))),
        "limit_sweep" => {
            let mut ns: Vec<usize> = (1..=40).collect();
            ns.extend([60, 141]);
            if tier.thorough() {
                ns.extend([100, 254, 255, 256, 257]);
            }
            Some(Box::new(sc_limit_sweep(ns)))
        }
        "families" => {
            let mut ns = vec![1usize, 2, 3, 4, 22, 23, 24, 25, 26, 60];
            if tier.thorough() {
                ns.extend([120, 254, 255, 256, 257, 300]);
            }
            Some(Box::new(sc_families(ns)))
        }
        _ => None,
    }
}

pub fn run(tier: Tier, seed: u64) -> i32 {
    let mut rep = Report::new(P, tier, seed);
    let n = if tier.thorough() { 5 } else { 4 };
    rep.rule = format!("sequences: every sequence of <= {} UTxOs over 16 kinds (pure ADA 0.9 / 1.2 / 50 / 300 / 4000 / 2^40 lovelace-scale, assets whose summed quantity crosses 255|256, 2^32 and near-2^63 quantities, 0 / 1 / 32-byte names, 1..3 policies, asset-rich with little ADA, a zero-quantity asset, two Icarus-style Byron owners and a Daedalus-style one, one key behind enterprise / base / pointer addresses) x 8 parameter configurations (mainnet; max_tx_size 420; max_value_size 90; zero fee; coins_per_byte 1; 300/60; fee 1000/2000000; coins_per_byte 43100 with max_value_size 150) x 3 target addresses (base, Byron, script enterprise) x 2 hash-container seeds. families: 8 families (one key; distinct keys; distinct names under one policy; distinct policies; one shared asset; Byron/key mix; a dozen shared assets whose summed quantities cross 2^16 / 2^32 while each holding does not) x n in the listed counts x 8 configurations x 2 seeds. sweep: an asset-carrying UTxO holding 1 ADA (4 kinds) + one pure-ADA UTxO swept from 0.15 ADA in 1000-lovelace steps + 0..2 small pure-ADA UTxOs x 8 configurations. limit_sweep: 7 families x n in 1..40, 60, 141 (thorough also 100, 254..257) x short / 32-byte names x (max_value_size = largest real value size - d | max_tx_size = real signed size - d) for d in 0..4. Oracle on the re-parsed transactions: inputs are supplied UTxOs, each spent exactly once over the batch, every output to the target, inputs == outputs + fee in lovelace and every asset, fee >= a*|signed tx| + b with one key witness per distinct payment key and one bootstrap witness per Byron address, |signed tx| <= max_tx_size, |value| <= max_value_size, coin >= coins_per_byte*(160+|output|), no zero quantities.", n);
    rep.assume("a refusal (Err) is not judged: the property is conditional on success");
    rep.assume("the signed size is computed by the harness (ledger::signed_bytes) from the emitted body plus real-size witnesses, not from the mock witnesses the library attaches");
    rep.trusted_base = vec!["harness/src/ledger.rs (parse_tx, min_fee, signed_bytes)".into(), "notes/ledger_rules.md §1-§3".into()];
    rep.required_hits = vec!["send-all-succeeds", "send-all-refuses", "txs:1", "txs:>=2", "outputs:>=2", "fee-sufficient", "byron-and-key-owners-in-one-tx", "inputs:>=24", "key-witnesses:>=24", "assets-per-policy:>=24", "policies:>=24", "all-spent-once-checked", "sweep:affordable", "sweep:refused", "limit-sweep:value-size", "limit-sweep:tx-size"];
    if tier.thorough() {
        rep.required_hits.push("inputs:>=256");
    }
    for (name, desc) in [("sequences", "full product"), ("families", "full product"), ("sweep", "full product; swept coin in 1000-lovelace steps"), ("limit_sweep", "full product; limits at and 1..4 below the real sizes")] {
        let f = scenario(name, tier).unwrap();
        let st = explore(name, &*f, &Opts::new(seed));
        rep.add(name, desc, st);
    }
    rep.bound("max_sequence_length", serde_json::json!(n));
    rep.finish()
}
