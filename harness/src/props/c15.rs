//! C15 — stand-alone fee functions equal the ledger definitions.
//!
//! Space: min_ref_script_fee for EVERY size 0..=204800 x 10 prices, tier boundaries up to k tiers;
//! calculate_ex_units_ceil_cost over W^2 x price pairs; min_script_fee over redeemer lists <= 3;
//! min_fee_for_size / min_fee over sizes x coefficients x constants.
//! Oracle: big-rational reference using the ledger's tier-by-tier recursion.

use crate::alphabet::W;
use crate::engine::{explore, guard, panic_sig, Ctx, Opts};
use crate::props::BoxedScenario;
use crate::report::{Report, Tier};
use crate::util::*;
use cardano_serialization_lib as csl;
use csl::*;
use num_bigint::BigInt as NB;
use num_integer::Integer;
use num_traits::{One, Zero};
use serde_json::json;

const P: &str = "C15";

/// (numerator, denominator) of the price alphabet; denominators >= 1 (domain of the property).
pub const PRICES: [(u64, u64); 12] = [
    (0, 1),
    (15, 1),
    (1, 1),
    (44, 3),
    (30, 2),
    (1, 7),
    (577, 10_000),
    (721, 10_000_000),
    (1, 0x8000_0000_0000_0000),
    (0xffff_ffff_ffff_ffff, 1),
    (0x8000_0000_0000_0000, 3),
    (0xffff_ffff_ffff_ffff, 0xffff_ffff_ffff_fffe),
];

fn ui(p: (u64, u64)) -> UnitInterval {
    UnitInterval::new(&bn(p.0), &bn(p.1))
}

/// Ledger `tierRefScriptFee 1.2 25600 price size`: exact rational recursion, floor at the end.
/// Returns floor as big integer.
pub fn ref_tier_fee(price: (u64, u64), size: u64) -> NB {
    let inc = NB::from(25_600u64);
    let mut acc_n = NB::zero();
    let mut acc_d = NB::one();
    let mut pr_n = NB::from(price.0);
    let mut pr_d = NB::from(price.1);
    let mut n = size;
    loop {
        if n < 25_600 {
            // acc + n * price
            let t_n = NB::from(n) * &pr_n;
            let num = &acc_n * &pr_d + &t_n * &acc_d;
            let den = &acc_d * &pr_d;
            return num.div_floor(&den);
        }
        // acc += inc * price ; price *= 6/5 ; n -= inc
        let t_n = &inc * &pr_n;
        acc_n = &acc_n * &pr_d + &t_n * &acc_d;
        acc_d = &acc_d * &pr_d;
        let g = acc_n.gcd(&acc_d);
        if !g.is_zero() && !g.is_one() {
            acc_n /= &g;
            acc_d /= &g;
        }
        pr_n *= 6;
        pr_d *= 5;
        n -= 25_600;
    }
}

fn fits(x: &NB) -> Option<u64> {
    use num_traits::ToPrimitive;
    x.to_u64()
}

fn check_result(ctx: &mut Ctx, site: &'static str, args: String, got: Result<Result<BigNum, JsError>, crate::engine::PanicRec>, expect: &NB) {
    ctx.compared();
    match got {
        Err(p) => ctx.violation(panic_sig(P, site, &p), format!("{} panicked: {} ({}:{})", args, p.msg, p.file, p.line)),
        Ok(r) => match (r, fits(expect)) {
            (Ok(v), Some(e)) => {
                ctx.hit("ok-result");
                if u(&v) != e {
                    ctx.violation(format!("{}/{}/wrong-value", P, site), format!("{}: got {} expected {}", args, u(&v), e));
                }
            }
            (Ok(v), None) => {
                ctx.violation(format!("{}/{}/ok-on-overflow", P, site), format!("{}: got Ok({}) but exact result {} exceeds 2^64-1", args, u(&v), expect));
            }
            (Err(_), None) => ctx.hit("err-on-overflow"),
            (Err(e), Some(x)) => {
                ctx.violation(format!("{}/{}/err-on-representable", P, site), format!("{}: got Err({:?}) but exact result is {}", args, e, x));
            }
        },
    }
}

fn sc_ref_all_sizes(ctx: &mut Ctx) {
    let pi = ctx.choose_free(PRICES.len());
    let size = ctx.choose_free(204_801) as u64;
    ref_case(ctx, PRICES[pi], size);
}

fn ref_case(ctx: &mut Ctx, price: (u64, u64), size: u64) {
    let expect = ref_tier_fee(price, size);
    let tier = size / 25_600;
    match tier {
        0 => ctx.hit("tier0"),
        1 => ctx.hit("tier1"),
        2..=7 => ctx.hit("tier2-7"),
        8 => ctx.hit("tier8"),
        _ => ctx.hit("tier9+"),
    }
    if size % 25_600 == 0 && size > 0 {
        ctx.hit("on-boundary");
    }
    if price.0 == 0 {
        ctx.hit("zero-price");
    }
    ctx.observe(&(price, size, expect.to_string()));
    ctx.set_sample(|| format!("min_ref_script_fee(size={}, price={}/{}) expect {}", size, price.0, price.1, expect));
    let got = guard(|| min_ref_script_fee(size as usize, &ui(price)));
    check_result(ctx, "min_ref_script_fee", format!("min_ref_script_fee({}, {}/{})", size, price.0, price.1), got, &expect);
}

/// closed form of the same recursion, for tier counts far beyond what a transaction can carry:
/// floor( p * (25600 * 5 * ((6/5)^k - 1) + rem * (6/5)^k) )
pub fn ref_tier_fee_closed(price: (u64, u64), size: u64) -> NB {
    let k = (size / 25_600) as u32;
    let rem = size % 25_600;
    let six = NB::from(6u32).pow(k);
    let five = NB::from(5u32).pow(k);
    let inner = NB::from(128_000u64) * (&six - &five) + NB::from(rem) * &six;
    (NB::from(price.0) * inner).div_floor(&(NB::from(price.1) * five))
}

/// tiny prices x tier counts up to the largest a 32-bit size can name: the exact fee is small (or
/// just overflows) although the multiplier 1.2^k is astronomically large
fn sc_ref_far(ctx: &mut Ctx) {
    const TINY: [(u64, u64); 8] = [(1, 1_000_000_000_000_000), (1, u64::MAX), (1, 1 << 40), (1, 145_000), (1, 1_000_000), (3, 1 << 62), (u64::MAX, u64::MAX), (0, 7)];
    let mut ks: Vec<u64> = (236..=252).collect();
    ks.extend([300, 512, 1000, 1001, 4096, 10_000, 65_535, 65_536, 100_000, 167_771]);
    let price = TINY[ctx.choose_free(TINY.len())];
    let k = ks[ctx.choose_free(ks.len())];
    let d = ctx.choose_free(4) as u64 * 8_533;
    let size = k * 25_600 + d;
    if size > u32::MAX as u64 {
        return;
    }
    let expect = ref_tier_fee_closed(price, size);
    if k <= 252 && ref_tier_fee(price, size) != expect {
        crate::engine::machinery("closed form and recursion of the reference-script fee disagree");
    }
    ctx.hit(if k >= 245 { "far:>=245-tiers" } else { "far:<245-tiers" });
    ctx.observe(&(price, size));
    ctx.set_sample(|| format!("min_ref_script_fee(size={} = {} tiers + {}, price={}/{})", size, k, d, price.0, price.1));
    let got = guard(|| min_ref_script_fee(size as usize, &ui(price)));
    check_result(ctx, "min_ref_script_fee", format!("min_ref_script_fee({}, {}/{})", size, price.0, price.1), got, &expect);
}

fn sc_ref_boundaries(max_k: usize) -> impl Fn(&mut Ctx) + Sync {
    move |ctx: &mut Ctx| {
        let pi = ctx.choose_free(PRICES.len());
        let k = ctx.choose_free(max_k + 1) as u64;
        let d = ctx.choose_free(5) as i64 - 2;
        let size = (k * 25_600) as i64 + d;
        if size < 0 {
            return;
        }
        ref_case(ctx, PRICES[pi], size as u64);
    }
}

fn ex_cost_ref(mem: u128, steps: u128, pm: (u64, u64), ps: (u64, u64)) -> NB {
    // ceil(mem*pm + steps*ps)
    let n = NB::from(mem) * NB::from(pm.0) * NB::from(ps.1) + NB::from(steps) * NB::from(ps.0) * NB::from(pm.1);
    let d = NB::from(pm.1) * NB::from(ps.1);
    n.div_ceil(&d)
}

fn sc_ex_units(ctx: &mut Ctx) {
    let mem = *ctx.pick_free(&W);
    let steps = *ctx.pick_free(&W);
    let pm = *ctx.pick_free(&PRICES);
    let ps = *ctx.pick_free(&PRICES);
    let expect = ex_cost_ref(mem as u128, steps as u128, pm, ps);
    let exact = {
        let n = NB::from(mem) * NB::from(pm.0) * NB::from(ps.1) + NB::from(steps) * NB::from(ps.0) * NB::from(pm.1);
        let d = NB::from(pm.1) * NB::from(ps.1);
        (n % d).is_zero()
    };
    ctx.hit(if exact { "ceil-no-remainder" } else { "ceil-with-remainder" });
    ctx.observe(&(mem, steps, pm, ps));
    ctx.set_sample(|| format!("calculate_ex_units_ceil_cost(mem={}, steps={}, pm={:?}, ps={:?}) expect {}", mem, steps, pm, ps, expect));
    let got = guard(|| calculate_ex_units_ceil_cost(&ExUnits::new(&bn(mem), &bn(steps)), &ExUnitPrices::new(&ui(pm), &ui(ps))));
    check_result(ctx, "calculate_ex_units_ceil_cost", format!("calculate_ex_units_ceil_cost(mem={}, steps={}, pm={:?}, ps={:?})", mem, steps, pm, ps), got, &expect);
}

fn minimal_body() -> TransactionBody {
    let mut ins = TransactionInputs::new();
    ins.add(&TransactionInput::new(&TransactionHash::from_bytes(vec![7u8; 32]).unwrap(), 0));
    TransactionBody::new_tx_body(&ins, &TransactionOutputs::new(), &bn(0))
}

/// Redeemer lists of length <= 3 with ex-units from a sub-alphabet; totals may overflow.
fn sc_script_fee(ctx: &mut Ctx) {
    const E: [u64; 5] = [0, 1, 65536, 0x8000_0000_0000_0000, 0xffff_ffff_ffff_ffff];
    let n = ctx.choose_free(4);
    let as_map = ctx.choose_free(2) == 1;
    let mut rs = Vec::new();
    let mut tm: u128 = 0;
    let mut ts: u128 = 0;
    for i in 0..n {
        let m = *ctx.pick_free(&E);
        let s = *ctx.pick_free(&E);
        tm += m as u128;
        ts += s as u128;
        rs.push(Redeemer::new(&RedeemerTag::new_spend(), &bn(i as u64), &PlutusData::new_integer(&BigInt::from(1u64)), &ExUnits::new(&bn(m), &bn(s))));
    }
    let pm = *ctx.pick_free(&[(577u64, 10_000u64), (0, 1), (1, 1), (0xffff_ffff_ffff_ffff, 1)]);
    let ps = *ctx.pick_free(&[(721u64, 10_000_000u64), (1, 3)]);
    let mut ws = TransactionWitnessSet::new();
    if n > 0 || as_map {
        let mut red = Redeemers::new();
        for r in &rs {
            red.add(r);
        }
        ws.set_redeemers(&red);
    } else {
        ctx.hit("no-redeemers-field");
    }
    let tx = Transaction::new(&minimal_body(), &ws, None);
    let sum_overflows = tm > u64::MAX as u128 || ts > u64::MAX as u128;
    // exact definition: ceiling over the summed execution units (sums taken exactly)
    let expect = ex_cost_ref(tm, ts, pm, ps);
    ctx.observe(&(n, tm, ts, pm, ps));
    ctx.set_sample(|| format!("min_script_fee(redeemers={}, total mem={}, steps={}, prices {:?} {:?}) expect {}", n, tm, ts, pm, ps, expect));
    let got = guard(|| min_script_fee(&tx, &ExUnitPrices::new(&ui(pm), &ui(ps))));
    if sum_overflows {
        ctx.hit("exunit-total-overflow");
        // the summed units do not fit the type the definition is stated over: an error is the
        // only acceptable answer besides the exact value
        ctx.compared();
        match got {
            Err(p) => ctx.violation(panic_sig(P, "min_script_fee", &p), format!("panicked: {}", p.msg)),
            Ok(Ok(v)) => {
                if fits(&expect) != Some(u(&v)) {
                    ctx.violation(format!("{}/min_script_fee/ok-on-exunit-overflow", P), format!("total mem={} steps={} got Ok({}) exact {}", tm, ts, u(&v), expect));
                }
            }
            Ok(Err(_)) => ctx.hit("err-on-overflow"),
        }
        return;
    }
    check_result(ctx, "min_script_fee", format!("min_script_fee(n={}, mem={}, steps={}, {:?}, {:?})", n, tm, ts, pm, ps), got, &expect);
}

fn sc_linear(ctx: &mut Ctx) {
    const SIZES: [u64; 7] = [0, 1, 16_384, 65_536, 0xffff_ffff, 0x1_0000_0000, 0xffff_ffff_ffff_ffff];
    let size = *ctx.pick_free(&SIZES);
    let coef = *ctx.pick_free(&W);
    let cst = *ctx.pick_free(&W);
    let expect = NB::from(size) * NB::from(coef) + NB::from(cst);
    ctx.observe(&(size, coef, cst));
    ctx.set_sample(|| format!("min_fee_for_size(size={}, coefficient={}, constant={}) expect {}", size, coef, cst, expect));
    let got = guard(|| min_fee_for_size(size as usize, &LinearFee::new(&bn(coef), &bn(cst))));
    check_result(ctx, "min_fee_for_size", format!("min_fee_for_size({}, coef={}, const={})", size, coef, cst), got, &expect);
}

/// min_fee(tx, linear_fee) on real transactions of different sizes: size = |tx.to_bytes()|.
fn sc_linear_tx(ctx: &mut Ctx) {
    let n_meta = *ctx.pick_free(&[0usize, 1, 5, 40]);
    let coef = *ctx.pick_free(&W);
    let cst = *ctx.pick_free(&W);
    let aux = if n_meta == 0 {
        None
    } else {
        let mut md = GeneralTransactionMetadata::new();
        for i in 0..n_meta {
            md.insert(&bn(i as u64), &TransactionMetadatum::new_text("x".repeat(60)).unwrap());
        }
        let mut a = AuxiliaryData::new();
        a.set_metadata(&md);
        Some(a)
    };
    let tx = Transaction::new(&minimal_body(), &TransactionWitnessSet::new(), aux);
    let size = tx.to_bytes().len() as u64;
    let expect = NB::from(size) * NB::from(coef) + NB::from(cst);
    ctx.observe(&(size, coef, cst));
    ctx.set_sample(|| format!("min_fee(tx of {} bytes, coefficient={}, constant={}) expect {}", size, coef, cst, expect));
    let got = guard(|| min_fee(&tx, &LinearFee::new(&bn(coef), &bn(cst))));
    check_result(ctx, "min_fee", format!("min_fee(|tx|={}, coef={}, const={})", size, coef, cst), got, &expect);
}

pub fn scenario(name: &str, tier: Tier) -> Option<BoxedScenario> {
    Some(match name {
        "ref_all_sizes" => Box::new(sc_ref_all_sizes),
        "ref_boundaries" => Box::new(sc_ref_boundaries(if tier.thorough() { 1000 } else { 200 })),
        "ref_far" => Box::new(sc_ref_far),
        "ex_units" => Box::new(sc_ex_units),
        "script_fee" => Box::new(sc_script_fee),
        "linear" => Box::new(sc_linear),
        "linear_tx" => Box::new(sc_linear_tx),
        _ => return None,
    })
}

pub fn run(tier: Tier, seed: u64) -> i32 {
    let mut rep = Report::new(P, tier, seed);
    rep.rule = "full products: (price x every size 0..=204800), (price x tier k x offset -2..2), (8 tiny prices x 27 tier counts from 236 to 167771 x 4 offsets, closed-form reference), (mem x steps x price pairs), redeemer lists <= 3, (size x coefficient x constant); distinct = distinct (arguments, expected) tuples".into();
    rep.assume("price denominators >= 1 (a zero denominator has no mathematical value; not in the domain)");
    rep.assume("between 1000 tiers and the largest 32-bit size only the listed tier counts are explored; the per-transaction ledger limit is 204800 bytes (8 tiers), which is covered for every size");
    rep.trusted_base = vec!["num-bigint arbitrary-precision integers (reference arithmetic)".into(), "transcription of the ledger's tierRefScriptFee recursion (notes/ledger_rules.md)".into()];
    rep.required_hits = vec!["tier0", "tier1", "tier2-7", "tier8", "tier9+", "on-boundary", "zero-price", "ok-result", "err-on-overflow", "exunit-total-overflow", "ceil-no-remainder", "ceil-with-remainder", "far:>=245-tiers", "far:<245-tiers"];
    let opts = Opts::new(seed);
    let max_k = if tier.thorough() { 1000 } else { 200 };
    rep.bound("ref_all_sizes", json!("sizes 0..=204800 x 12 prices"));
    rep.bound("ref_boundaries_max_tier", json!(max_k));
    for name in ["ref_all_sizes", "ref_boundaries", "ref_far", "ex_units", "script_fee", "linear", "linear_tx"] {
        let f = scenario(name, tier).unwrap();
        let st = explore(name, &*f, &opts);
        rep.add(name, "full product (no deviation bound)", st);
    }
    rep.finish()
}
