//! C10 — redeemer pointers identify the item they were attached to.
//! Every redeemer's data is a unique integer naming the item it was attached to (builder.rs);
//! the oracle resolves (tag, index) in the parsed body by the ledger's rules.

use crate::builder::*;
use crate::engine::Ctx;
use crate::ledger::{self, PTx};
use crate::props::BoxedScenario;
use crate::refcbor;
use crate::report::{Report, Tier};
use cardano_serialization_lib as csl;
use csl::*;
use std::collections::BTreeSet;

const P: &str = "C10";

/// marker -> what the marker was attached to
fn marker_item(w: &World, marker: u64) -> Option<(u64, Vec<u8>)> {
    // returns (purpose tag, identifying bytes)
    match marker {
        100..=199 => {
            let i = (marker - 100) as usize;
            let (h, ix) = crate::builder::utxo_outpoint_key(i);
            let mut id = h;
            id.extend_from_slice(&ix.to_be_bytes());
            Some((0, id))
        }
        200..=299 => {
            let k = (marker - 200) as usize;
            Some((2, w.certs[k].cert.to_bytes()))
        }
        300..=399 => Some((3, RewardAddress::new(1, &Credential::from_scripthash(&w.plutus[if marker == 305 { 0 } else if marker == 307 { 2 } else { 1 }].hash())).to_address().to_bytes())),
        400..=499 => Some((1, w.plutus[if marker == 401 || marker == 407 { 0 } else { 1 }].hash().to_bytes())),
        // voters are identified by (kind, hash): 505 = committee script 0 (kind 1), 506 = DRep script 0 (kind 3)
        500..=599 => Some((4, [vec![if marker == 505 { 1u8 } else { 3 }], w.plutus[if marker == 505 || marker == 506 { 0 } else { 2 }].hash().to_bytes()].concat())),
        600..=699 => Some((5, guarded_proposal(w, (marker - 600) as usize).to_bytes())),
        _ => None,
    }
}

pub fn judge_tx(ctx: &mut Ctx, w: &World, _st: &St, t: &PTx, what: &dyn Fn() -> String) {
    ctx.compared();
    let mut seen: BTreeSet<(u64, u64)> = BTreeSet::new();
    // ledger orderings
    let mut inputs_sorted = t.inputs.clone();
    inputs_sorted.sort();
    let mut policies: Vec<Vec<u8>> = t.mint.iter().map(|m| m.0.clone()).collect();
    policies.sort();
    policies.dedup();
    let mut ras: Vec<Vec<u8>> = t.withdrawals.iter().map(|x| x.0.clone()).collect();
    ras.sort_by_key(|ra| ledger::reward_account_key(ra));
    let mut voters = t.voters.clone();
    voters.sort_by_key(|(k, h)| ledger::voter_key(*k, h));
    if t.redeemers.len() >= 2 {
        ctx.hit(">=2-redeemers");
    }
    for r in &t.redeemers {
        if !seen.insert((r.tag, r.index)) {
            ctx.violation(format!("{}/two-redeemers-share-a-pointer", P), format!("({}, {}) ; {}", r.tag, r.index, what()));
        }
        let marker = match refcbor::parse(&r.data).ok().and_then(|n| n.as_uint()) {
            Some(m) => m,
            None => {
                ctx.violation(format!("{}/oracle-cannot-read-marker", P), what());
                continue;
            }
        };
        let (want_tag, want_id) = match marker_item(w, marker) {
            Some(x) => x,
            None => continue,
        };
        let purpose = ["spend", "mint", "cert", "reward", "vote", "propose"][r.tag.min(5) as usize];
        if r.tag != want_tag {
            ctx.violation(format!("{}/{}/wrong-purpose-tag", P, purpose), format!("marker {} expected tag {} ; {}", marker, want_tag, what()));
            continue;
        }
        let resolved: Option<Vec<u8>> = match r.tag {
            0 => inputs_sorted.get(r.index as usize).map(|(h, ix)| {
                let mut id = h.clone();
                id.extend_from_slice(&ix.to_be_bytes());
                id
            }),
            1 => policies.get(r.index as usize).cloned(),
            2 => t.certs.get(r.index as usize).map(|c| t.bytes[c.start..c.end].to_vec()),
            3 => ras.get(r.index as usize).cloned(),
            4 => voters.get(r.index as usize).map(|(k, h)| [vec![*k as u8], h.clone()].concat()),
            5 => t.proposals.get(r.index as usize).map(|c| t.bytes[c.start..c.end].to_vec()),
            _ => None,
        };
        // the item a redeemer points at must be one the ledger runs a Plutus script for
        let runs_script: Option<bool> = match r.tag {
            0 => inputs_sorted.get(r.index as usize).and_then(|o| w.lookup(o)).map(|i| matches!(w.utxos[i].0.owner, Owner::Plutus(_))),
            1 => policies.get(r.index as usize).map(|p| w.plutus.iter().any(|s| &s.hash().to_bytes() == p)),
            2 => t.certs.get(r.index as usize).map(|c| ledger::cert_script(c).is_some()),
            3 => ras.get(r.index as usize).map(|ra| ra[0] & 0x10 != 0),
            4 => voters.get(r.index as usize).map(|(k, _)| matches!(k, 1 | 3)),
            _ => t.proposals.get(r.index as usize).map(|p| proposal_has_policy(p)),
        };
        if runs_script == Some(false) {
            ctx.violation(format!("{}/{}/redeemer-points-at-an-item-that-runs-no-script", P, purpose), format!("({}, {}) ; {}", r.tag, r.index, what()));
        } else if runs_script == Some(true) {
            ctx.hit("pointed-item-runs-a-script");
        }
        match resolved {
            None => ctx.violation(format!("{}/{}/pointer-out-of-range", P, purpose), format!("index {} ; {}", r.index, what())),
            Some(id) => {
                if id != want_id {
                    // which relation does the wrong index satisfy? (for a precise signature)
                    let relation = match r.tag {
                        3 => {
                            let insertion_pos = t.withdrawals.iter().position(|x| x.0 == want_id);
                            if insertion_pos == Some(r.index as usize) { "index-equals-wire-position-not-ledger-order" } else { "other" }
                        }
                        4 => {
                            let wire_pos = t.voters.iter().position(|x| x.0 as u8 == want_id[0] && x.1[..] == want_id[1..]);
                            if wire_pos == Some(r.index as usize) { "index-equals-wire-position-not-ledger-order" } else { "other" }
                        }
                        _ => "other",
                    };
                    ctx.violation(format!("{}/{}/points-at-another-item/{}", P, purpose, relation), format!("redeemer with marker {} has index {} which resolves to {} instead of {} ; {}", marker, r.index, crate::util::hx(&id[..id.len().min(8)]), crate::util::hx(&want_id[..want_id.len().min(8)]), what()));
                } else {
                    ctx.hit(match r.tag { 0 => "spend-ok", 1 => "mint-ok", 2 => "cert-ok", 3 => "reward-ok", 4 => "vote-ok", _ => "propose-ok" });
                    let same_purpose = t.redeemers.iter().filter(|x| x.tag == r.tag).count();
                    if same_purpose >= 2 {
                        ctx.hit(match r.tag { 0 => "spend:>=2-redeemers", 1 => "mint:>=2-redeemers", 2 => "cert:>=2-redeemers", 3 => "reward:>=2-redeemers", 4 => "vote:>=2-redeemers", _ => "propose:>=2-redeemers" });
                    }
                }
            }
        }
    }
    // interleavings that matter
    if t.withdrawals.len() >= 2 {
        let wire: Vec<Vec<u8>> = t.withdrawals.iter().map(|x| x.0.clone()).collect();
        if wire != ras {
            ctx.hit("withdrawals-wire-order-differs-from-ledger-order");
        }
    }
    if t.voters.len() >= 2 && t.voters != voters {
        ctx.hit("voters-wire-order-differs-from-ledger-order");
    }
}

/// proposal_procedure = [deposit, reward_account, gov_action, anchor]; parameter change
/// [0, prev, update, policy/null] and treasury withdrawals [2, withdrawals, policy/null] may name a policy
fn proposal_has_policy(p: &refcbor::Node) -> bool {
    let act = match p.as_array().and_then(|a| a.get(2)).and_then(|x| x.as_array()) {
        Some(a) => a,
        None => return false,
    };
    match act.get(0).and_then(|x| x.as_uint()) {
        Some(0) => act.get(3).map(|x| !x.is_null()).unwrap_or(false),
        Some(2) => act.get(2).map(|x| !x.is_null()).unwrap_or(false),
        _ => false,
    }
}

pub fn scenario(name: &str, tier: Tier) -> Option<BoxedScenario> {
    crate::builder::scenario_for(P, name, tier)
}

pub fn run(tier: Tier, seed: u64) -> i32 {
    let mut rep = Report::new(P, tier, seed);
    rep.rule = "all histories (every insertion order) over Plutus and non-Plutus inputs on adversarial outpoints, native and Plutus policies, script and key certificates, key / native-script / Plutus withdrawals, CC key / CC script / DRep script voters, plain and Plutus-guarded proposals (two Plutus items in every purpose: spend, mint, cert, reward, vote, propose), to the stated depth; each redeemer's data is a unique integer naming its item; pointers resolved in the parsed body by the ledger's ordering rules. distinct = distinct built transactions".into();
    rep.assume("reward accounts are ordered as the ledger's RewardAccount (network, script credential before key credential, hash); voters as the ledger's Voter");
    rep.trusted_base = vec!["notes/ledger_rules.md §5 (redeemer pointer resolution)".into()];
    rep.required_hits = vec!["spend-ok", "mint-ok", "cert-ok", "reward-ok", "vote-ok", "propose-ok", ">=2-redeemers", "pointed-item-runs-a-script", "spend:>=2-redeemers", "mint:>=2-redeemers", "cert:>=2-redeemers", "reward:>=2-redeemers", "vote:>=2-redeemers", "propose:>=2-redeemers"];
    crate::builder::explore_for(P, tier, seed, &mut rep);
    rep.finish()
}
