//! C09 — script-integrity and auxiliary-data hashes match what is emitted.

use crate::builder::*;
use crate::engine::{explore, guard, panic_sig, Ctx, Opts};
use crate::ledger::{self, PTx};
use crate::props::BoxedScenario;
use crate::refcbor;
use crate::report::{Report, Tier};
use crate::util::*;
use cardano_serialization_lib as csl;
use csl::*;
use std::collections::BTreeSet;

const P: &str = "C09";

pub fn judge_tx(ctx: &mut Ctx, w: &World, st: &St, t: &PTx, what: &dyn Fn() -> String) {
    ctx.compared();
    // auxiliary data hash
    match (&t.aux_span, &t.aux_hash) {
        (Some((s, e)), Some(h)) => {
            ctx.hit("aux-hash-checked");
            if &blake2b256(&t.bytes[*s..*e]) != h {
                ctx.violation(format!("{}/auxiliary-data-hash-differs-from-emitted-bytes", P), what());
            }
        }
        (Some(_), None) => ctx.violation(format!("{}/auxiliary-data-without-hash", P), what()),
        (None, Some(_)) => ctx.violation(format!("{}/auxiliary-data-hash-without-data", P), what()),
        (None, None) => {}
    }
    // languages in use: scripts in the witness set and referenced scripts of the model
    let mut langs: BTreeSet<u8> = t.plutus_scripts.iter().map(|(l, _)| *l).collect();
    for (i, variant) in &st.m.inputs {
        if let Owner::Plutus(p) = &w.utxos[*i].0.owner {
            if *variant == 1 || *variant == 3 || *variant == 4 {
                langs.insert(match w.plutus[*p].language_version().kind() {
                    LanguageKind::PlutusV1 => 1,
                    LanguageKind::PlutusV2 => 2,
                    LanguageKind::PlutusV3 => 3,
                });
            }
        }
    }
    for p in &st.m.ref_plutus {
        langs.insert(match w.plutus[*p].language_version().kind() {
            LanguageKind::PlutusV1 => 1,
            LanguageKind::PlutusV2 => 2,
            LanguageKind::PlutusV3 => 3,
        });
        ctx.hit("language-only-through-a-referenced-script-outside-inputs");
    }
    let nothing = t.redeemers.is_empty() && t.datums_span.is_none() && langs.is_empty();
    match (&t.script_data_hash, nothing) {
        (None, true) => ctx.hit("no-script-data"),
        (None, false) => ctx.violation(format!("{}/script-data-hash-missing", P), what()),
        (Some(_), true) => ctx.violation(format!("{}/script-data-hash-without-script-data", P), what()),
        (Some(h), false) => {
            let mut pre: Vec<u8> = match t.redeemers_span {
                Some((s, e)) => t.bytes[s..e].to_vec(),
                None => vec![0xa0],
            };
            if let Some((s, e)) = t.datums_span {
                pre.extend_from_slice(&t.bytes[s..e]);
            }
            let lv = ledger::language_views(&langs, &|l| w.cost_lists.get(&l).cloned());
            match lv {
                None => ctx.violation(format!("{}/oracle-missing-cost-model", P), what()),
                Some(lv) => {
                    pre.extend_from_slice(&lv);
                    match (t.redeemers.is_empty(), t.datums_span.is_some()) {
                        (true, true) => ctx.hit("datums-without-redeemers"),
                        (false, false) => ctx.hit("redeemers-without-datums"),
                        (false, true) => ctx.hit("redeemers-and-datums"),
                        _ => {}
                    }
                    match langs.len() {
                        1 => ctx.hit(if langs.contains(&1) { "lang:v1-alone" } else { "lang:one-non-v1" }),
                        2 => ctx.hit("lang:two"),
                        3 => ctx.hit("lang:three"),
                        _ => {}
                    }
                    if &blake2b256(&pre) != h {
                        ctx.violation(
                            format!("{}/script-data-hash-differs-from-emitted-witness-set", P),
                            format!("languages {:?}, {} redeemers, datums field {:?} ; preimage {} ; {}", langs, t.redeemers.len(), t.datums_span.is_some(), short(&hx(&pre), 200), what()),
                        );
                    } else {
                        ctx.hit("script-data-hash-ok");
                    }
                }
            }
        }
    }
}

/// the stand-alone helpers hash exactly the bytes the typed setters would emit
fn sc_helpers(ctx: &mut Ctx) {
    let nr = ctx.choose_free(3);
    let as_array = ctx.choose_free(2) == 1;
    let dsel = ctx.choose_free(9);
    let csel = ctx.choose_free(4);
    ctx.observe(&(nr, as_array, dsel, csel));
    let mut reds = Redeemers::new();
    for i in 0..nr {
        reds.add(&Redeemer::new(&[RedeemerTag::new_spend(), RedeemerTag::new_mint()][i % 2], &bn(i as u64), &PlutusData::new_integer(&BigInt::from(i as u64 + 40)), &ExUnits::new(&bn(7), &bn(9))));
    }
    if as_array && nr > 0 {
        // the legacy array container, as obtained by decoding
        let items: Vec<refcbor::Node> = (0..nr).map(|i| refcbor::Node::arr(vec![refcbor::Node::uint((i % 2) as u64), refcbor::Node::uint(i as u64), refcbor::Node::uint(i as u64 + 40), refcbor::Node::arr(vec![refcbor::Node::uint(7), refcbor::Node::uint(9)])])).collect();
        reds = Redeemers::from_bytes(refcbor::emit(&refcbor::Node::arr(items))).unwrap();
        ctx.hit("redeemers-array-form");
    }
    let mk = |xs: &[u64]| {
        let mut l = PlutusList::new();
        for x in xs {
            l.add(&PlutusData::new_integer(&BigInt::from(*x)));
        }
        l
    };
    let datums: Option<PlutusList> = match dsel {
        0 => None,
        1 => Some(PlutusList::new()),
        2 => Some(mk(&[1])),
        3 => Some(mk(&[1, 2])),
        4 => Some(mk(&[1, 1, 2])),
        5 => Some(PlutusList::from_bytes(vec![0x9f, 0x01, 0x02, 0xff]).unwrap()),
        // decoded definite lists, with a repeated element, and one the same datum in two encodings
        6 => Some(PlutusList::from_bytes(vec![0x83, 0x01, 0x01, 0x02]).unwrap()),
        7 => Some(PlutusList::from_bytes(vec![0xd9, 0x01, 0x02, 0x83, 0x02, 0x01, 0x01]).unwrap()),
        _ => Some(PlutusList::from_bytes(vec![0x82, 0x01, 0x18, 0x01]).unwrap()),
    };
    let mut cm = Costmdls::new();
    WORLD.with(|w| {
        let langs: &[u8] = match csel {
            0 => &[],
            1 => &[1],
            2 => &[2],
            _ => &[1, 2, 3],
        };
        for l in langs {
            let lang = match l {
                1 => Language::new_plutus_v1(),
                2 => Language::new_plutus_v2(),
                _ => Language::new_plutus_v3(),
            };
            cm.insert(&lang, &w.cost_models.get(&lang).unwrap());
        }
        ctx.set_sample(|| format!("hash_script_data({} redeemers{}, datums#{}, cost models {:?})", nr, if as_array { " (array form)" } else { "" }, dsel, langs));
        ctx.compared();
        let got = match guard(|| hash_script_data(&reds, &cm, datums.clone())) {
            Ok(h) => h.to_bytes(),
            Err(p) => {
                ctx.violation(panic_sig(P, "hash_script_data", &p), p.msg.clone());
                return;
            }
        };
        // what a witness set built through the typed setters emits for the same arguments
        let mut ws = TransactionWitnessSet::new();
        ws.set_redeemers(&reds);
        if let Some(d) = &datums {
            ws.set_plutus_data(d);
        }
        let wb = ws.to_bytes();
        let n = refcbor::parse(&wb).unwrap();
        let r_span = n.map_get(5).map(|x| wb[x.start..x.end].to_vec());
        let d_span = n.map_get(4).map(|x| wb[x.start..x.end].to_vec());
        let mut pre = r_span.clone().unwrap_or(vec![0xa0]);
        // an empty datum list is not written by the witness set; the helper is given Some(empty):
        // the definition then still has a (empty set) datum field - compare only when emitted
        if let Some(d) = &d_span {
            pre.extend_from_slice(d);
        } else if datums.is_some() {
            ctx.hit("empty-datums-not-emitted");
            return;
        }
        let lset: BTreeSet<u8> = langs.iter().cloned().collect();
        let lv = if reds.len() == 0 && datums.is_some() { vec![0xa0] } else { ledger::language_views(&lset, &|l| w.cost_lists.get(&l).cloned()).unwrap() };
        pre.extend_from_slice(&lv);
        if blake2b256(&pre) != got {
            ctx.violation(
                format!("{}/hash_script_data-differs-from-emitted-witness-bytes/{}", P, if dsel == 4 || dsel == 6 || dsel == 7 { "duplicate-datum" } else if as_array { "array-redeemers" } else { "plain" }),
                format!("redeemers {} datums#{} langs {:?}: helper {} vs blake2b256({})", nr, dsel, langs, hx(&got), hx(&pre)),
            );
        } else {
            ctx.hit("helper-agrees");
        }
        // hash_auxiliary_data / hash_plutus_data: hash of the emitted bytes
        let mut aux = AuxiliaryData::new();
        let mut md = GeneralTransactionMetadata::new();
        md.insert(&bn(nr as u64), &TransactionMetadatum::new_text("x".into()).unwrap());
        aux.set_metadata(&md);
        if csel >= 2 {
            let mut ns = NativeScripts::new();
            ns.add(&w.native[0]);
            aux.set_native_scripts(&ns);
        }
        if csel == 3 {
            aux.set_prefer_alonzo_format(true);
        }
        if hash_auxiliary_data(&aux).to_bytes() != blake2b256(&aux.to_bytes()) {
            ctx.violation(format!("{}/hash_auxiliary_data-differs", P), hx(&aux.to_bytes()));
        }
        ctx.hit(match csel { 0 | 1 => "aux:shelley", 2 => "aux:shelley-ma", _ => "aux:alonzo" });
        let pd = PlutusData::from_bytes(vec![0x9f, 0x01, 0x18, 0x02, 0xff]);
        if let Ok(pd) = pd {
            if hash_plutus_data(&pd).to_bytes() != blake2b256(&[0x9f, 0x01, 0x18, 0x02, 0xff]) {
                ctx.violation(format!("{}/hash_plutus_data-not-over-original-bytes", P), "9f011802ff".to_string());
            }
        }
    });
}

pub fn scenario(name: &str, tier: Tier) -> Option<BoxedScenario> {
    match name {
        "helpers" => Some(Box::new(sc_helpers)),
        _ => crate::builder::scenario_for(P, name, tier),
    }
}

pub fn run(tier: Tier, seed: u64) -> i32 {
    let mut rep = Report::new(P, tier, seed);
    rep.rule = "builder: all histories over Plutus spends (script inline / by reference, datum in witness / inline, V1 V2 V3), Plutus mint, certificate, withdrawal and vote, extra datums (new / duplicate), metadata, to the stated depth, finished with calc_script_data_hash before and after balancing; helpers: redeemer lists {0,1,2} x map/array container x 6 datum arguments x 4 cost-model tables. distinct = distinct built transactions / argument tuples".into();
    rep.assume("calc_script_data_hash is called after the last change to inputs, mints, certificates, withdrawals and votes (precondition in the property)");
    rep.assume("script hashes and Blake2b come from cryptoxide used directly; the bytes fed to the hash are cut out of the emitted transaction by refcbor");
    rep.trusted_base = vec!["notes/ledger_rules.md §6 (script integrity preimage, language views)".into(), "cryptoxide blake2b".into()];
    rep.required_hits = vec!["script-data-hash-ok", "aux-hash-checked", "redeemers-without-datums", "redeemers-and-datums", "lang:v1-alone", "lang:two", "helper-agrees", "redeemers-array-form", "aux:shelley", "aux:shelley-ma", "aux:alonzo"];
    let f = scenario("helpers", tier).unwrap();
    let st = explore("helpers", &*f, &Opts::new(seed));
    rep.add("helpers", "full product", st);
    crate::builder::explore_for(P, tier, seed, &mut rep);
    rep.finish()
}
