//! C16 — sets stay duplicate-free in first-insertion order, asset maps canonical, builds deterministic.
//!
//! E1 (choice-tree, full product) over insertion histories with repeats into every set-typed
//! collection along every arrival path (add / bytes in four outer encodings / JSON / decode-then-add /
//! inside a transaction body or witness set), over the witness-set setters, over asset-bundle and
//! mint insertion orders; E2 (builder BFS) for repeated builds and built-transaction duplicates.

use crate::engine::{explore, guard, panic_sig, Ctx, Opts};
use crate::fx::*;
use crate::props::BoxedScenario;
use crate::refcbor;
use crate::report::{Report, Tier};
use crate::util::*;
use cardano_serialization_lib as csl;
use csl::*;
use std::collections::BTreeMap;

const P: &str = "C16";
const K: usize = 4;

// ---------------------------------------------------------------------------------------------
// set types

trait SetApi: Sized + Clone {
    type E: Clone;
    fn new_() -> Self;
    fn add_(&mut self, e: &Self::E) -> bool;
    fn len_(&self) -> usize;
    fn get_(&self, i: usize) -> Self::E;
    fn to_b(&self) -> Vec<u8>;
    fn from_b(b: Vec<u8>) -> Result<Self, String>;
    fn to_j(&self) -> Result<String, String>;
    fn from_j(s: &str) -> Result<Self, String>;
    fn e_bytes(e: &Self::E) -> Vec<u8>;
    fn e_json(e: &Self::E) -> String;
    /// the element decoded from its own CBOR item (None for types whose from_bytes is not a CBOR decoder)
    fn e_from_b(b: Vec<u8>) -> Option<Self::E>;
}

macro_rules! set_api {
    ($T:ty, $E:ty) => {
        set_api!($T, $E, |e: &$E| e.to_bytes());
    };
    ($T:ty, $E:ty, $eb:expr) => {
        impl SetApi for $T {
            type E = $E;
            fn new_() -> Self {
                <$T>::new()
            }
            fn add_(&mut self, e: &$E) -> bool {
                self.add(e)
            }
            fn len_(&self) -> usize {
                self.len()
            }
            fn get_(&self, i: usize) -> $E {
                self.get(i)
            }
            fn to_b(&self) -> Vec<u8> {
                self.to_bytes()
            }
            fn from_b(b: Vec<u8>) -> Result<Self, String> {
                <$T>::from_bytes(b).map_err(|e| format!("{:?}", e))
            }
            fn to_j(&self) -> Result<String, String> {
                self.to_json().map_err(|e| format!("{:?}", e))
            }
            fn from_j(s: &str) -> Result<Self, String> {
                <$T>::from_json(s).map_err(|e| format!("{:?}", e))
            }
            fn e_bytes(e: &$E) -> Vec<u8> {
                ($eb)(e)
            }
            fn e_json(e: &$E) -> String {
                serde_json::to_string(e).unwrap()
            }
            fn e_from_b(b: Vec<u8>) -> Option<$E> {
                // only when the element's to_bytes() IS its CBOR item (not so for the raw hash types)
                let probe = <$E>::from_bytes(b.clone()).ok()?;
                if ($eb)(&probe) == probe.to_bytes() {
                    Some(probe)
                } else {
                    None
                }
            }
        }
    };
}
set_api!(TransactionInputs, TransactionInput);
// a hash's to_bytes() is the raw digest; on the wire it is a byte string
set_api!(Ed25519KeyHashes, Ed25519KeyHash, |e: &Ed25519KeyHash| {
    let mut v = vec![0x58, 28];
    v.extend_from_slice(&e.to_bytes());
    v
});
set_api!(Credentials, Credential);
set_api!(Certificates, Certificate);
set_api!(VotingProposals, VotingProposal);
set_api!(Vkeywitnesses, Vkeywitness);
set_api!(BootstrapWitnesses, BootstrapWitness);

#[derive(Clone, Copy, Debug)]
enum Container {
    Body(u8),
    Ws(u8),
}

fn arr_head(n: usize, indef: bool, tagged: bool) -> Vec<u8> {
    let mut v = Vec::new();
    if tagged {
        v.extend_from_slice(&[0xd9, 0x01, 0x02]);
    }
    if indef {
        v.push(0x9f);
    } else {
        assert!(n < 24);
        v.push(0x80 | n as u8);
    }
    v
}
fn set_bytes(items: &[Vec<u8>], indef: bool, tagged: bool) -> Vec<u8> {
    let mut v = arr_head(items.len(), indef, tagged);
    for i in items {
        v.extend_from_slice(i);
    }
    if indef {
        v.push(0xff);
    }
    v
}
fn container_bytes(c: Container, set: &[u8]) -> Vec<u8> {
    let mut v = Vec::new();
    match c {
        Container::Body(0) => {
            v.extend_from_slice(&[0xa3, 0x00]);
            v.extend_from_slice(set);
            v.extend_from_slice(&[0x01, 0x80, 0x02, 0x00]);
        }
        Container::Body(k) => {
            v.extend_from_slice(&[0xa4, 0x00, 0x80, 0x01, 0x80, 0x02, 0x00, k]);
            v.extend_from_slice(set);
        }
        Container::Ws(k) => {
            v.extend_from_slice(&[0xa1, k]);
            v.extend_from_slice(set);
        }
    }
    v
}

/// items (as byte spans) of a set-typed value; `None` when the bytes are not an array / tagged array
fn items_of(b: &[u8]) -> Option<Vec<Vec<u8>>> {
    let n = refcbor::parse(b).ok()?;
    Some(n.set_items()?.iter().map(|x| x.span(b).to_vec()).collect())
}
fn field_items(b: &[u8], key: u64) -> Option<Vec<Vec<u8>>> {
    let n = refcbor::parse(b).ok()?;
    match n.map_get(key) {
        None => Some(vec![]),
        Some(f) => Some(f.set_items()?.iter().map(|x| x.span(b).to_vec()).collect()),
    }
}

/// the same CBOR item with every set tag (258) inside it dropped: another accepted encoding of the
/// same element (nested sets of credentials / key hashes may come tagged or untagged)
fn strip_set_tags(n: &refcbor::Node) -> refcbor::Node {
    use refcbor::Kind;
    let mut out = n.clone();
    match &n.kind {
        Kind::Tag(258, inner) => return strip_set_tags(inner),
        Kind::Tag(t, inner) => out.kind = Kind::Tag(*t, Box::new(strip_set_tags(inner))),
        Kind::Array(v) => out.kind = Kind::Array(v.iter().map(strip_set_tags).collect()),
        Kind::Map(m) => out.kind = Kind::Map(m.iter().map(|(k, v)| (strip_set_tags(k), strip_set_tags(v))).collect()),
        _ => {}
    }
    out
}

fn first_insertion(hist: &[usize]) -> Vec<usize> {
    let mut m = Vec::new();
    for h in hist {
        if !m.contains(h) {
            m.push(*h);
        }
    }
    m
}

fn run_set<T: SetApi>(ctx: &mut Ctx, name: &'static str, elems: &[T::E], containers: &[Container], max_len: usize) {
    assert!(elems.len() >= K);
    let n = ctx.choose(max_len + 1);
    let hist: Vec<usize> = (0..n).map(|_| ctx.choose(K)).collect();
    let model = first_insertion(&hist);
    let eb: Vec<Vec<u8>> = elems.iter().map(|e| T::e_bytes(e)).collect();
    let want: Vec<Vec<u8>> = model.iter().map(|i| eb[*i].clone()).collect();
    let has_dup = model.len() != hist.len();
    let path = ctx.choose(8 + containers.len());
    // twins: the same elements decoded from an encoding in which their nested sets carry no tag; with
    // `twin` chosen every second `add` hands over the twin instead of the constructed element
    let twins: Vec<Option<T::E>> = eb.iter().map(|b| refcbor::parse(b).ok().map(|n| refcbor::emit(&strip_set_tags(&n))).filter(|sb| sb != b).and_then(|sb| T::e_from_b(sb))).collect();
    let twin = twins.iter().any(|t| t.is_some()) && (path == 0 || path == 6 || path == 7) && ctx.flag();
    if twin {
        ctx.hit("path:add-with-twin-encodings-of-nested-sets");
    }
    let pick = |k: usize, h: usize| -> T::E {
        match (&twins[h], twin && k % 2 == 1) {
            (Some(t), true) => t.clone(),
            _ => elems[h].clone(),
        }
    };
    let what = |p: &str| format!("{} history {:?} path {}{}", name, hist, p, if twin { " (every second add: the element decoded with its nested sets untagged)" } else { "" });
    ctx.compared();
    if has_dup {
        ctx.hit("history-with-repeat");
    }
    if model.windows(2).any(|w| eb[w[0]] > eb[w[1]]) {
        ctx.hit("insertion-order-differs-from-sorted-order");
    }

    // produce the collection along the chosen arrival path
    let pname: String;
    let got: Result<T, String> = match path {
        0 => {
            pname = "add".into();
            ctx.hit("path:add");
            let mut s = T::new_();
            let mut seen = Vec::new();
            for (k, h) in hist.iter().enumerate() {
                let r = s.add_(&pick(k, *h));
                let fresh = !seen.contains(h);
                seen.push(*h);
                if r != fresh {
                    ctx.violation(format!("{}/set/add-return-value/{}", P, name), format!("add returned {} for a {} element ; {}", r, if fresh { "new" } else { "repeated" }, what("add")));
                }
            }
            Ok(s)
        }
        1..=4 => {
            let (indef, tagged) = [(false, true), (false, false), (true, true), (true, false)][path - 1];
            pname = format!("bytes(tagged={},indefinite={})", tagged, indef);
            ctx.hit("path:bytes");
            let items: Vec<Vec<u8>> = hist.iter().map(|h| eb[*h].clone()).collect();
            guard(|| T::from_b(set_bytes(&items, indef, tagged))).unwrap_or_else(|p| Err(format!("PANIC {}", p.msg)))
        }
        5 => {
            pname = "json".into();
            ctx.hit("path:json");
            let js = format!("[{}]", hist.iter().map(|h| T::e_json(&elems[*h])).collect::<Vec<_>>().join(","));
            guard(|| T::from_j(&js)).unwrap_or_else(|p| Err(format!("PANIC {}", p.msg)))
        }
        6 | 7 => {
            let split = ctx.choose(n + 1);
            pname = format!("{}[..{}]+add", if path == 6 { "bytes" } else { "json" }, split);
            ctx.hit("path:decode-then-add");
            let s0 = if path == 6 {
                let items: Vec<Vec<u8>> = hist[..split].iter().map(|h| eb[*h].clone()).collect();
                guard(|| T::from_b(set_bytes(&items, false, true))).unwrap_or_else(|p| Err(format!("PANIC {}", p.msg)))
            } else {
                let js = format!("[{}]", hist[..split].iter().map(|h| T::e_json(&elems[*h])).collect::<Vec<_>>().join(","));
                guard(|| T::from_j(&js)).unwrap_or_else(|p| Err(format!("PANIC {}", p.msg)))
            };
            s0.map(|mut s| {
                for (k, h) in hist.iter().enumerate().skip(split) {
                    let r = s.add_(&pick(k, *h));
                    let fresh = !hist[..k].contains(h);
                    if r != fresh {
                        ctx.violation(format!("{}/set/add-return-value-after-decode/{}", P, name), format!("add returned {} for a {} element ; {}", r, if fresh { "new" } else { "repeated" }, what(&pname)));
                    }
                }
                s
            })
        }
        _ => {
            // inside a transaction body / witness set
            let c = containers[path - 8];
            let tagged = ctx.flag();
            pname = format!("{:?}(tagged={})", c, tagged);
            ctx.hit("path:container");
            let items: Vec<Vec<u8>> = hist.iter().map(|h| eb[*h].clone()).collect();
            let cb = container_bytes(c, &set_bytes(&items, false, tagged));
            let (out, key) = match c {
                Container::Body(k) => (guard(|| TransactionBody::from_bytes(cb.clone()).map(|b| b.to_bytes())), k as u64),
                Container::Ws(k) => (guard(|| TransactionWitnessSet::from_bytes(cb.clone()).map(|b| b.to_bytes())), k as u64),
            };
            match out {
                Err(p) => ctx.violation(panic_sig(P, "container-decode", &p), what(&pname)),
                Ok(Err(e)) => {
                    if !has_dup && !want.is_empty() {
                        ctx.violation(format!("{}/set/container-decode-fails-without-duplicates/{}", P, name), format!("{:?} ; {} ; {}", e, what(&pname), hx(&cb)));
                    } else {
                        ctx.hit("container-rejects");
                    }
                }
                Ok(Ok(ob)) => match field_items(&ob, key) {
                    Some(it) => {
                        if it != want {
                            let kind = classify(&it, &want);
                            ctx.violation(format!("{}/set/{}/{}/container", P, kind, name), format!("{} ; emitted {} items, expected {} ; {}", what(&pname), it.len(), want.len(), hx(&ob)));
                        }
                    }
                    None => ctx.violation(format!("{}/set/unparseable-output/{}", P, name), what(&pname)),
                },
            }
            return;
        }
    };

    let s = match got {
        Ok(s) => s,
        Err(e) => {
            if e.starts_with("PANIC") {
                ctx.violation(format!("{}/set/panic-on-arrival/{}", P, name), format!("{} ; {}", e, what(&pname)));
            } else if !has_dup {
                ctx.violation(format!("{}/set/decode-fails-without-duplicates/{}", P, name), format!("{} ; {}", e, what(&pname)));
            } else {
                ctx.hit("decode-rejects-duplicates");
            }
            return;
        }
    };

    // observations
    let check_bytes = |ctx: &mut Ctx, b: &[u8], via: &str| match items_of(b) {
        Some(it) => {
            if it != want {
                let kind = classify(&it, &want);
                ctx.violation(format!("{}/set/{}/{}/{}", P, kind, name, via), format!("{} ; emitted {} items, expected {} ; {}", what(&pname), it.len(), want.len(), hx(b)));
            }
        }
        None => ctx.violation(format!("{}/set/unparseable-output/{}", P, name), what(&pname)),
    };
    let b = s.to_b();
    ctx.observe(&b);
    check_bytes(ctx, &b, "to_bytes");
    if s.len_() != want.len() {
        ctx.violation(format!("{}/set/len/{}", P, name), format!("len() = {} expected {} ; {}", s.len_(), want.len(), what(&pname)));
    } else {
        for (i, w) in want.iter().enumerate() {
            if &T::e_bytes(&s.get_(i)) != w {
                ctx.violation(format!("{}/set/get-order/{}", P, name), format!("get({}) is not the {}-th first-inserted element ; {}", i, i, what(&pname)));
                break;
            }
        }
    }
    // and the collection survives its own codecs unchanged
    match guard(|| s.to_j().and_then(|j| T::from_j(&j))) {
        Ok(Ok(s2)) => check_bytes(ctx, &s2.to_b(), "json-round-trip"),
        Ok(Err(e)) => ctx.violation(format!("{}/set/json-round-trip-fails/{}", P, name), format!("{} ; {}", e, what(&pname))),
        Err(p) => ctx.violation(panic_sig(P, "set-json", &p), what(&pname)),
    }
    match guard(|| T::from_b(b.clone())) {
        Ok(Ok(s2)) => check_bytes(ctx, &s2.to_b(), "bytes-round-trip"),
        Ok(Err(e)) => ctx.violation(format!("{}/set/bytes-round-trip-fails/{}", P, name), format!("{} ; {}", e, what(&pname))),
        Err(p) => ctx.violation(panic_sig(P, "set-bytes", &p), what(&pname)),
    }
    check_bytes(ctx, &s.clone().to_b(), "clone");
}

fn classify(got: &[Vec<u8>], want: &[Vec<u8>]) -> &'static str {
    let mut g = got.to_vec();
    g.sort();
    let dup = g.windows(2).any(|w| w[0] == w[1]);
    let mut w = want.to_vec();
    w.sort();
    if dup {
        "duplicate-emitted"
    } else if g == w {
        "not-first-insertion-order"
    } else {
        "elements-differ"
    }
}

fn input_elems() -> Vec<TransactionInput> {
    vec![TransactionInput::new(&txhash(0xcc), 1), TransactionInput::new(&txhash(0xaa), 3), TransactionInput::new(&txhash(0xcc), 0), TransactionInput::new(&txhash(0xbb), 2)]
}

fn sc_sets(ctx: &mut Ctx, max_len: usize) {
    match ctx.choose(7) {
        0 => run_set::<TransactionInputs>(ctx, "TransactionInputs", &input_elems(), &[Container::Body(0), Container::Body(13), Container::Body(18)], max_len),
        1 => run_set::<Ed25519KeyHashes>(ctx, "Ed25519KeyHashes", &[kh(2), kh(0), kh(3), kh(1)], &[Container::Body(14)], max_len),
        2 => run_set::<Credentials>(ctx, "Credentials", &[cred_script(1), cred_key(1), cred_key(0), cred_script(0)], &[], max_len),
        3 => {
            let ca = cert_alphabet();
            let e: Vec<Certificate> = [13usize, 0, 7, 5].iter().map(|i| ca[*i].cert.clone()).collect();
            run_set::<Certificates>(ctx, "Certificates", &e, &[Container::Body(4)], max_len)
        }
        4 => {
            // the first element holds a nested set (committee members to remove)
            let mut rm = Credentials::new();
            rm.add(&cred_key(1));
            rm.add(&cred_script(0));
            let act = GovernanceAction::new_new_committee_action(&UpdateCommitteeAction::new(&Committee::new(&UnitInterval::new(&bn(1), &bn(2))), &rm));
            let uc = VotingProposal::new(&act, &anchor(), &reward_key(1), &bn(5));
            run_set::<VotingProposals>(ctx, "VotingProposals", &[uc, proposal(0, 7), proposal(1, 5), proposal(0, 5)], &[Container::Body(20)], max_len)
        }
        5 => {
            let e: Vec<Vkeywitness> = [2usize, 0, 3, 1].iter().map(|i| crate::gen::vkeywitness_i(*i)).collect();
            run_set::<Vkeywitnesses>(ctx, "Vkeywitnesses", &e, &[Container::Ws(0)], max_len)
        }
        _ => {
            let e: Vec<BootstrapWitness> = [2usize, 0, 3, 1].iter().map(|i| crate::gen::bootstrap_witness_i(*i)).collect();
            run_set::<BootstrapWitnesses>(ctx, "BootstrapWitnesses", &e, &[Container::Ws(2)], max_len)
        }
    }
}

// ---------------------------------------------------------------------------------------------
// witness-set setters: scripts and datums are emitted once

fn datum_alphabet() -> Vec<(PlutusData, &'static str)> {
    let mut l = PlutusList::new();
    l.add(&PlutusData::new_integer(&BigInt::from_str("1").unwrap()));
    vec![
        (PlutusData::new_integer(&BigInt::from_str("7").unwrap()), "int7-constructed"),
        (PlutusData::from_bytes(vec![0x07]).unwrap(), "int7-decoded-canonical"),
        (PlutusData::from_bytes(vec![0x18, 0x07]).unwrap(), "int7-decoded-wide"),
        (PlutusData::new_list(&l), "list-constructed"),
        (PlutusData::from_bytes(vec![0x81, 0x01]).unwrap(), "list-decoded-definite"),
    ]
}

fn sc_setters(ctx: &mut Ctx, max_len: usize) {
    let kind = ctx.choose(3);
    let n = ctx.choose(max_len + 1);
    ctx.compared();
    let mut ws = TransactionWitnessSet::new();
    match kind {
        0 => {
            let mut nested = NativeScripts::new();
            nested.add(&native_pubkey(0));
            let elems = vec![native_pubkey(1), native_pubkey(0), NativeScript::new_script_all(&ScriptAll::new(&nested)), NativeScript::new_timelock_start(&TimelockStart::new_timelockstart(&bn(5)))];
            let hist: Vec<usize> = (0..n).map(|_| ctx.choose(elems.len())).collect();
            // how the collection handed to the setter came about: built by add, decoded from bytes that
            // already repeat elements (tagged / untagged / indefinite), or decoded in part and then added to
            let path = ctx.choose(5);
            let items: Vec<Vec<u8>> = hist.iter().map(|h| elems[*h].to_bytes()).collect();
            let decode = |its: &[Vec<u8>], indef: bool, tagged: bool| NativeScripts::from_bytes(set_bytes(its, indef, tagged));
            let ns = match path {
                0 => {
                    let mut ns = NativeScripts::new();
                    for h in &hist {
                        ns.add(&elems[*h]);
                    }
                    Ok(ns)
                }
                1 => decode(&items, false, true),
                2 => decode(&items, false, false),
                3 => decode(&items, true, true),
                _ => decode(&items[..n / 2], false, true).map(|mut ns| {
                    for h in &hist[n / 2..] {
                        ns.add(&elems[*h]);
                    }
                    ns
                }),
            };
            let ns = match ns {
                Ok(x) => x,
                Err(e) => return ctx.violation(format!("{}/witness-setter/collection-bytes-rejected/native-scripts", P), format!("path {} history {:?}: {:?}", path, hist, e)),
            };
            if path != 0 {
                ctx.hit("setter:collection-decoded-from-bytes");
            }
            ws.set_native_scripts(&ns);
            let want: Vec<Vec<u8>> = first_insertion(&hist).iter().map(|i| elems[*i].to_bytes()).collect();
            let b = ws.to_bytes();
            ctx.observe(&b);
            expect_field(ctx, &b, 1, &want, "native-scripts", &format!("{:?}", hist));
            ctx.hit("setter:native");
        }
        1 => {
            // (language, body): the same bytes under two languages are two scripts
            let elems = vec![plutus_script(0, 0x11, 5), plutus_script(1, 0x11, 5), plutus_script(0, 0x22, 6), plutus_script(2, 0x33, 4)];
            let langs = [0usize, 1, 0, 2];
            let hist: Vec<usize> = (0..n).map(|_| ctx.choose(elems.len())).collect();
            let mut ps = PlutusScripts::new();
            for h in &hist {
                ps.add(&elems[*h]);
            }
            ws.set_plutus_scripts(&ps);
            let b = ws.to_bytes();
            ctx.observe(&b);
            let fi = first_insertion(&hist);
            for (lang, key) in [(0usize, 3u64), (1, 6), (2, 7)] {
                let want: Vec<Vec<u8>> = fi.iter().filter(|i| langs[**i] == lang).map(|i| elems[*i].to_bytes()).collect();
                expect_field(ctx, &b, key, &want, "plutus-scripts", &format!("{:?}", hist));
            }
            ctx.hit("setter:plutus");
        }
        _ => {
            let elems = datum_alphabet();
            let hist: Vec<usize> = (0..n).map(|_| ctx.choose(elems.len())).collect();
            let path = ctx.choose(5);
            let items: Vec<Vec<u8>> = hist.iter().map(|h| elems[*h].0.to_bytes()).collect();
            let decode = |its: &[Vec<u8>], indef: bool, tagged: bool| PlutusList::from_bytes(set_bytes(its, indef, tagged));
            let pl = match path {
                0 => {
                    let mut pl = PlutusList::new();
                    for h in &hist {
                        pl.add(&elems[*h].0);
                    }
                    Ok(pl)
                }
                1 => decode(&items, false, true),
                2 => decode(&items, false, false),
                3 => decode(&items, true, true),
                _ => decode(&items[..n / 2], false, true).map(|mut pl| {
                    for h in &hist[n / 2..] {
                        pl.add(&elems[*h].0);
                    }
                    pl
                }),
            };
            let pl = match pl {
                Ok(x) => x,
                Err(e) => return ctx.violation(format!("{}/witness-setter/collection-bytes-rejected/plutus-data", P), format!("path {} history {:?}: {:?}", path, hist, e)),
            };
            if path != 0 {
                ctx.hit("setter:collection-decoded-from-bytes");
            }
            ws.set_plutus_data(&pl);
            // the element is the datum as the ledger hashes it: its bytes
            let mut want: Vec<Vec<u8>> = Vec::new();
            for h in &hist {
                let eb = elems[*h].0.to_bytes();
                if !want.contains(&eb) {
                    want.push(eb);
                }
            }
            let b = ws.to_bytes();
            ctx.observe(&b);
            expect_field(ctx, &b, 4, &want, "plutus-data", &format!("{:?}", hist.iter().map(|h| elems[*h].1).collect::<Vec<_>>()));
            ctx.hit("setter:datums");
            if hist.contains(&0) && hist.contains(&1) {
                ctx.hit("setter:same-bytes-constructed-and-decoded");
            }
            if hist.contains(&0) && hist.contains(&2) {
                ctx.hit("setter:same-value-different-bytes-both-kept");
            }
        }
    }
}

fn expect_field(ctx: &mut Ctx, b: &[u8], key: u64, want: &[Vec<u8>], name: &str, hist: &str) {
    match field_items(b, key) {
        Some(it) => {
            if it != want {
                ctx.violation(format!("{}/witness-setter/{}/{}", P, classify(&it, want), name), format!("history {} ; field {} has {} items, expected {} ; {}", hist, key, it.len(), want.len(), hx(b)));
            }
        }
        None => ctx.violation(format!("{}/witness-setter/unparseable/{}", P, name), hx(b)),
    }
}

// ---------------------------------------------------------------------------------------------
// asset bundles and the builder's mint field

// lengths 1, 2, 0, 1 and - where the CBOR head of the name changes width - 23, 24, 25 and 32 bytes,
// chosen so that the longer name is bytewise smaller than the shorter one
const NAMES: [&[u8]; 8] = [b"b", b"aa", b"", b"B", &[0x04; 23], &[0x03; 24], &[0x02; 25], &[0x01; 32]];

fn policy_scripts() -> Vec<NativeScript> {
    vec![native_pubkey(2), native_pubkey(0), native_pubkey(1)]
}

fn canonical_less(a: &[u8], b: &[u8]) -> bool {
    (a.len(), a) < (b.len(), b)
}

/// Some(description) when a {policy: {name: qty}} map breaks the canonical key order / repeats a key
fn order_defect(n: &refcbor::Node) -> Option<String> {
    let m = n.as_map()?;
    let keys: Vec<&[u8]> = m.iter().filter_map(|(k, _)| k.as_bytes()).collect();
    for w in keys.windows(2) {
        if !canonical_less(w[0], w[1]) {
            return Some(format!("policy {} before {}", hx(w[0]), hx(w[1])));
        }
    }
    for (_, inner) in m {
        let im = inner.as_map()?;
        let ik: Vec<&[u8]> = im.iter().filter_map(|(k, _)| k.as_bytes()).collect();
        for w in ik.windows(2) {
            if !canonical_less(w[0], w[1]) {
                return Some(format!("asset name {} before {}", hx(w[0]), hx(w[1])));
            }
        }
    }
    None
}
fn content(n: &refcbor::Node) -> BTreeMap<(Vec<u8>, Vec<u8>), i128> {
    let mut out = BTreeMap::new();
    if let Some(m) = n.as_map() {
        for (k, inner) in m {
            if let (Some(p), Some(im)) = (k.as_bytes(), inner.as_map()) {
                for (ak, q) in im {
                    if let (Some(a), Some(q)) = (ak.as_bytes(), q.as_int()) {
                        *out.entry((p.to_vec(), a.to_vec())).or_insert(0) += q;
                    }
                }
            }
        }
    }
    out
}

fn sc_assets(ctx: &mut Ctx, max_len: usize) {
    let scripts = policy_scripts();
    let pols: Vec<ScriptHash> = scripts.iter().map(|s| s.hash()).collect();
    let path = ctx.choose(8);
    let n = 1 + ctx.choose(max_len);
    let hist: Vec<(usize, usize)> = (0..n).map(|_| (ctx.choose(3), ctx.choose(NAMES.len()))).collect();
    let qty = |k: usize| (k as u64 + 1) * 3;
    let what = format!("path {} insertions {:?}", path, hist);
    let name = |a: usize| AssetName::new(NAMES[a].to_vec()).unwrap();
    ctx.compared();
    // models: last write wins / sum
    let mut last: BTreeMap<(Vec<u8>, Vec<u8>), i128> = BTreeMap::new();
    let mut sum: BTreeMap<(Vec<u8>, Vec<u8>), i128> = BTreeMap::new();
    for (k, (p, a)) in hist.iter().enumerate() {
        last.insert((pols[*p].to_bytes(), NAMES[*a].to_vec()), qty(k) as i128);
        *sum.entry((pols[*p].to_bytes(), NAMES[*a].to_vec())).or_insert(0) += qty(k) as i128;
    }
    let has_repeat = last.len() != hist.len();
    let pname;
    // (bytes of the {policy:{name:qty}} map, expected content)
    let (bytes, want): (Vec<u8>, &BTreeMap<_, _>) = match path {
        0 => {
            pname = "MultiAsset::set_asset";
            let mut ma = MultiAsset::new();
            for (k, (p, a)) in hist.iter().enumerate() {
                ma.set_asset(&pols[*p], &name(*a), &bn(qty(k)));
            }
            (ma.to_bytes(), &last)
        }
        1 => {
            pname = "Assets::insert + MultiAsset::insert";
            let mut order: Vec<usize> = Vec::new();
            let mut per: BTreeMap<usize, Assets> = BTreeMap::new();
            for (k, (p, a)) in hist.iter().enumerate() {
                if !order.contains(p) {
                    order.push(*p);
                }
                per.entry(*p).or_insert_with(Assets::new).insert(&name(*a), &bn(qty(k)));
            }
            let mut ma = MultiAsset::new();
            for p in order {
                ma.insert(&pols[p], &per[&p]);
            }
            (ma.to_bytes(), &last)
        }
        2 => {
            pname = "Value.to_bytes";
            let mut ma = MultiAsset::new();
            for (k, (p, a)) in hist.iter().enumerate() {
                ma.set_asset(&pols[*p], &name(*a), &bn(qty(k)));
            }
            let v = Value::new_with_assets(&bn(5), &ma);
            let vb = v.to_bytes();
            let n = match refcbor::parse(&vb) {
                Ok(n) => n,
                Err(_) => return ctx.violation(format!("{}/assets/unparseable", P), hx(&vb)),
            };
            let inner = n.as_array().and_then(|a| a.get(1)).map(|x| x.span(&vb).to_vec()).unwrap_or_default();
            (inner, &last)
        }
        3 | 4 => {
            // decoded from bytes / JSON whose keys come in insertion order (no repeated key)
            if has_repeat {
                return ctx.prune();
            }
            let mut order: Vec<usize> = Vec::new();
            for (p, _) in &hist {
                if !order.contains(p) {
                    order.push(*p);
                }
            }
            if path == 3 {
                pname = "MultiAsset::from_bytes(insertion-ordered keys)";
                let mut b = vec![0xa0 | order.len() as u8];
                for p in &order {
                    b.push(0x58);
                    b.push(28);
                    b.extend_from_slice(&pols[*p].to_bytes());
                    let inner: Vec<(usize, usize)> = hist.iter().enumerate().filter(|(_, h)| h.0 == *p).map(|(k, h)| (k, h.1)).collect();
                    b.push(0xa0 | inner.len() as u8);
                    for (k, a) in inner {
                        if NAMES[a].len() < 24 {
                            b.push(0x40 | NAMES[a].len() as u8);
                        } else {
                            b.push(0x58);
                            b.push(NAMES[a].len() as u8);
                        }
                        b.extend_from_slice(NAMES[a]);
                        b.push(qty(k) as u8);
                    }
                }
                match guard(|| MultiAsset::from_bytes(b.clone())) {
                    Ok(Ok(ma)) => (ma.to_bytes(), &last),
                    Ok(Err(_)) => return ctx.hit("unsorted-bytes-rejected"),
                    Err(p) => return ctx.violation(panic_sig(P, "multiasset-decode", &p), what.clone()),
                }
            } else {
                pname = "MultiAsset::from_json(insertion-ordered keys)";
                let mut js = String::from("{");
                for (pi, p) in order.iter().enumerate() {
                    if pi > 0 {
                        js.push(',');
                    }
                    js.push_str(&format!("\"{}\":{{", hx(&pols[*p].to_bytes())));
                    let inner: Vec<(usize, usize)> = hist.iter().enumerate().filter(|(_, h)| h.0 == *p).map(|(k, h)| (k, h.1)).collect();
                    for (ii, (k, a)) in inner.iter().enumerate() {
                        if ii > 0 {
                            js.push(',');
                        }
                        js.push_str(&format!("\"{}\":\"{}\"", hx(NAMES[*a]), qty(*k)));
                    }
                    js.push('}');
                }
                js.push('}');
                match guard(|| MultiAsset::from_json(&js)) {
                    Ok(Ok(ma)) => (ma.to_bytes(), &last),
                    Ok(Err(e)) => return ctx.violation(format!("{}/assets/json-rejected", P), format!("{:?} ; {}", e, js)),
                    Err(p) => return ctx.violation(panic_sig(P, "multiasset-json", &p), what.clone()),
                }
            }
        }
        _ => {
            // the mint field of a built body
            let mut tb = TransactionBuilder::new(&Params::mainnet().config());
            tb.add_key_input(&kh(0), &outpoint(0), &Value::new(&bn(100_000_000)));
            tb.set_fee(&bn(200_000));
            let want: &BTreeMap<_, _>;
            let r: Result<(), String> = match path {
                5 => {
                    pname = "TransactionBuilder::add_mint_asset";
                    want = &sum;
                    for (k, (p, a)) in hist.iter().enumerate() {
                        tb.add_mint_asset(&scripts[*p], &name(*a), &Int::new(&bn(qty(k))));
                    }
                    Ok(())
                }
                6 => {
                    pname = "MintBuilder::add_asset + set_mint_builder";
                    want = &sum;
                    let mut mb = MintBuilder::new();
                    let mut r = Ok(());
                    for (k, (p, a)) in hist.iter().enumerate() {
                        let wit = MintWitness::new_native_script(&NativeScriptSource::new(&scripts[*p]));
                        if let Err(e) = mb.add_asset(&wit, &name(*a), &Int::new(&bn(qty(k)))) {
                            r = Err(format!("{:?}", e));
                        }
                    }
                    tb.set_mint_builder(&mb);
                    r
                }
                _ => {
                    pname = "TransactionBuilder::set_mint(Mint in insertion order)";
                    want = &last;
                    let mut order: Vec<usize> = Vec::new();
                    let mut per: BTreeMap<usize, MintAssets> = BTreeMap::new();
                    for (k, (p, a)) in hist.iter().enumerate() {
                        if !order.contains(p) {
                            order.push(*p);
                        }
                        let _ = per.entry(*p).or_insert_with(MintAssets::new).insert(&name(*a), &Int::new(&bn(qty(k))));
                    }
                    let mut mint = Mint::new();
                    let mut ns = NativeScripts::new();
                    for p in order {
                        mint.insert(&pols[p], &per[&p]);
                        ns.add(&scripts[p]);
                    }
                    tb.set_mint(&mint, &ns).map_err(|e| format!("{:?}", e))
                }
            };
            if let Err(e) = r {
                return ctx.violation(format!("{}/mint/builder-refuses", P), format!("{} ; {}", e, what));
            }
            let body = match guard(|| tb.build()) {
                Ok(Ok(b)) => b.to_bytes(),
                Ok(Err(e)) => return ctx.violation(format!("{}/mint/build-fails", P), format!("{:?} ; {}", e, what)),
                Err(p) => return ctx.violation(panic_sig(P, "mint-build", &p), what.clone()),
            };
            let n = refcbor::parse(&body).unwrap();
            let f = match n.map_get(9) {
                Some(f) => f.span(&body).to_vec(),
                None => return ctx.violation(format!("{}/mint/field-missing", P), what.clone()),
            };
            ctx.hit("mint-field-of-built-body");
            (f, want)
        }
    };
    ctx.observe(&bytes);
    let n = match refcbor::parse(&bytes) {
        Ok(n) => n,
        Err(_) => return ctx.violation(format!("{}/assets/unparseable", P), format!("{} {}", pname, hx(&bytes))),
    };
    if let Some(d) = order_defect(&n) {
        ctx.violation(format!("{}/assets/not-canonical-order/{}", P, if path >= 5 { "builder-mint" } else { "asset-bundle" }), format!("{} ; {} ; {} ; {}", pname, d, what, hx(&bytes)));
    } else {
        ctx.hit("canonical-order");
    }
    if &content(&n) != want {
        ctx.violation(format!("{}/assets/content-differs/{}", P, if path >= 5 { "builder-mint" } else { "asset-bundle" }), format!("{} ; {} ; {}", pname, what, hx(&bytes)));
    }
    // insertion order differs from canonical order somewhere?
    let keys: Vec<(Vec<u8>, Vec<u8>)> = hist.iter().map(|(p, a)| (pols[*p].to_bytes(), NAMES[*a].to_vec())).collect();
    if keys.windows(2).any(|w| w[0].0 > w[1].0) {
        ctx.hit("policies-inserted-out-of-order");
    }
    if keys.windows(2).any(|w| w[0].0 == w[1].0 && canonical_less(&w[1].1, &w[0].1)) {
        ctx.hit("names-inserted-out-of-order");
    }
    if keys.windows(2).any(|w| w[0].0 == w[1].0 && w[0].1.len() < w[1].1.len() && w[0].1 > w[1].1) {
        ctx.hit("length-first-differs-from-bytewise");
    }
}

// ---------------------------------------------------------------------------------------------

pub fn scenario(name: &str, tier: Tier) -> Option<BoxedScenario> {
    let (ls, lw, la) = if tier.thorough() { (6, 5, 4) } else { (4, 4, 3) };
    match name {
        "sets" => Some(Box::new(move |c| sc_sets(c, ls))),
        "witness_setters" => Some(Box::new(move |c| sc_setters(c, lw))),
        "asset_maps" => Some(Box::new(move |c| sc_assets(c, la))),
        _ => crate::builder::scenario_for(P, name, tier),
    }
}

pub fn run(tier: Tier, seed: u64) -> i32 {
    let mut rep = Report::new(P, tier, seed);
    rep.rule = "sets: every insertion history (with repeats) of length <= L over 4 elements into TransactionInputs, Ed25519KeyHashes, Credentials, Certificates, VotingProposals, Vkeywitnesses, BootstrapWitnesses x arrival path {add, bytes tagged/untagged x definite/indefinite, JSON, decode-a-prefix-then-add at every split, inside a transaction body (fields 0, 13, 18, 14, 4, 20) or witness set (fields 0, 2)}; oracle: emitted items (cut out of the bytes by refcbor) == history with later repeats dropped, also after JSON and bytes round trips, len/get agree, add's return value == 'was new'. witness_setters: every history of <= L over 4 native scripts, 4 Plutus scripts (same bytes under two languages) and 5 datums (same value constructed / decoded / decoded non-canonical) through the typed setters, the collection handed over built by add / decoded from bytes that repeat elements (tagged, untagged, indefinite) / decoded in part and then added to; oracle: each emitted once, first-insertion order, identity = emitted bytes. asset_maps: every sequence of <= L insertions over 3 policies x 8 names (lengths 0,1,1,2,23,24,25,32, longer names bytewise smaller) through 8 paths (MultiAsset::set_asset, Assets+MultiAsset::insert, Value, decode from unsorted bytes / JSON, builder add_mint_asset, MintBuilder, set_mint); oracle: key order canonical (length first, then bytewise) at both levels and content == last-write / sum model. builder: BFS over builder histories, each end state built 12 times under 4 hash seeds and on a clone; byte-identical, and no set-typed field of the built transaction repeats an element, every value and the mint canonical.".into();
    rep.assume("element identity is the element's serialized bytes (for Plutus scripts: language + bytes): two datums of equal value but different encodings hash differently and are distinct elements");
    rep.assume("a decoder that rejects an input that repeats an element also satisfies the property (nothing is held); a decoder that rejects a duplicate-free input does not");
    rep.trusted_base = vec!["harness/src/refcbor.rs".into(), "RFC 8949 §4.2.3 length-first map key order (notes/ledger_rules.md §8)".into()];
    rep.required_hits = vec![
        "history-with-repeat",
        "insertion-order-differs-from-sorted-order",
        "path:add",
        "path:bytes",
        "path:json",
        "path:decode-then-add",
        "path:container",
        "setter:native",
        "setter:plutus",
        "setter:datums",
        "setter:collection-decoded-from-bytes",
        "path:add-with-twin-encodings-of-nested-sets",
        "setter:same-bytes-constructed-and-decoded",
        "setter:same-value-different-bytes-both-kept",
        "canonical-order",
        "policies-inserted-out-of-order",
        "names-inserted-out-of-order",
        "length-first-differs-from-bytewise",
        "mint-field-of-built-body",
        "rebuilt-under-4-seeds",
    ];
    for (name, desc) in [("sets", "full product"), ("witness_setters", "full product"), ("asset_maps", "full product")] {
        let f = scenario(name, tier).unwrap();
        let st = explore(name, &*f, &Opts::new(seed));
        rep.add(name, desc, st);
    }
    crate::builder::explore_for(P, tier, seed, &mut rep);
    rep.finish()
}
