//! C07 — minimum-ADA and size limits.
//!
//! Part 1 (this file): the min-ADA function, the output builder's min-coin helper and
//! TransactionBuilder::add_output over a full product of outputs x coins-per-byte, where the
//! coins-per-byte alphabet is derived per output so that the required coin lands on, just below
//! and just above every CBOR width boundary (24, 256, 65536, 2^32).
//! Part 2: every output of every transaction built in the builder explorations (see builder.rs);
//! it is run from here through `builder::explore_for`.

use crate::alphabet::w_ext;
use crate::engine::{explore, guard, panic_sig, Ctx, Opts};
use crate::fx::*;
use crate::props::BoxedScenario;
use crate::refcbor;
use crate::report::{Report, Tier};
use crate::util::*;
use cardano_serialization_lib as csl;
use csl::*;

const P: &str = "C07";

thread_local! {
    static ADDRS: Vec<(&'static str, Address)> = make_addresses();
    static ADDRS_EXT: Vec<(&'static str, Address)> = make_addresses_ext();
}

fn addresses() -> Vec<(&'static str, Address)> {
    ADDRS.with(|a| a.clone())
}

/// the helpers that size an output for a placeholder address first are also given the addresses
/// that are longer than any placeholder: a pointer address with maximal naturals (59 bytes), one
/// just over the base-address length, and malformed addresses (any length; obtained by decoding)
fn addresses_ext() -> Vec<(&'static str, Address)> {
    ADDRS_EXT.with(|a| a.clone())
}
fn make_addresses_ext() -> Vec<(&'static str, Address)> {
    let mut v = make_addresses();
    v.push(("pointer59", PointerAddress::new(1, &cred_key(0), &Pointer::new_pointer(&bn(u64::MAX), &bn(u64::MAX), &bn(u64::MAX))).to_address()));
    v.push(("pointer58", PointerAddress::new(0, &cred_script(1), &Pointer::new_pointer(&bn(u64::MAX), &bn(u64::MAX), &bn(1u64 << 62))).to_address()));
    v.push(("malformed58", MalformedAddress::new_unchecked(vec![0xf1; 58])));
    v.push(("malformed90", MalformedAddress::new_unchecked(vec![0x8f; 90])));
    v
}

fn make_addresses() -> Vec<(&'static str, Address)> {
    let long_byron = {
        let r = crate::props::c11::RefByron { root: vec![0x5a; 28], payload: Some((0..50u8).collect()), magic: Some(1097911063), typ: 0 };
        ByronAddress::from_bytes(crate::props::c11::byron_bytes(&r)).unwrap().to_address()
    };
    vec![
        ("base57", base_addr(0, 1)),
        ("enterprise29", enterprise_addr(0)),
        ("pointer", pointer_addr(0)),
        ("reward29", reward_key(0).to_address()),
        ("byron-icarus", byron_addr(1).to_address()),
        ("byron-long", long_byron),
        ("malformed6", MalformedAddress::new_unchecked(vec![0xff; 6])),
    ]
}

trait MalformedExt {
    fn new_unchecked(b: Vec<u8>) -> Address;
}
impl MalformedExt for MalformedAddress {
    fn new_unchecked(b: Vec<u8>) -> Address {
        // the only public way to obtain a malformed address: decode an output that embeds it
        let ob = refcbor::emit(&refcbor::Node::arr(vec![refcbor::Node::bytes(&b), refcbor::Node::uint(0)]));
        TransactionOutput::from_bytes(ob).unwrap().address()
    }
}

fn assets(idx: usize) -> Option<MultiAsset> {
    // 0: none ; 1..=66: one policy, one asset, name length (idx-1)/2, qty 1 or 2^64-1 ; 67: 3x3 bundle ; 68: 12 names
    if idx == 0 {
        return None;
    }
    let mut ma = MultiAsset::new();
    if idx <= 66 {
        let len = (idx - 1) / 2;
        let qty = if (idx - 1) % 2 == 0 { 1 } else { u64::MAX };
        ma.set_asset(&sh(0), &AssetName::new(vec![0x41; len]).unwrap(), &bn(qty));
    } else if idx == 67 {
        let ws = crate::alphabet::W;
        let mut k = 0;
        for p in 0..3 {
            for n in [0usize, 1, 32] {
                ma.set_asset(&sh(p), &AssetName::new(vec![0x42; n]).unwrap(), &bn(ws[k % ws.len()].max(1)));
                k += 5;
            }
        }
    } else {
        for n in 0..12u8 {
            ma.set_asset(&sh(1), &AssetName::new(vec![n; 1 + n as usize]).unwrap(), &bn(1 + n as u64 * 1000));
        }
    }
    Some(ma)
}
const N_ASSETS: usize = 69;

fn datum(idx: usize) -> Option<DataOption3> {
    match idx {
        0 => None,
        1 => Some(DataOption3::Hash(DataHash::from_bytes(hash32(0xd1)).unwrap())),
        2 => Some(DataOption3::Inline(PlutusData::new_integer(&BigInt::from(42u64)))),
        _ => Some(DataOption3::Inline(PlutusData::new_bytes(vec![0x77; 100]))),
    }
}
pub enum DataOption3 {
    Hash(DataHash),
    Inline(PlutusData),
}

fn script_ref(idx: usize) -> Option<ScriptRef> {
    match idx {
        0 => None,
        1 => Some(ScriptRef::new_native_script(&native_pubkey(0))),
        2 => Some(ScriptRef::new_plutus_script(&plutus_script(1, 0x01, 1))),
        _ => Some(ScriptRef::new_plutus_script(&plutus_script(2, 0x33, 3000))),
    }
}

fn make_output(addr: &Address, coin: u64, a: usize, d: usize, s: usize) -> TransactionOutput {
    let mut v = Value::new(&bn(coin));
    if let Some(ma) = assets(a) {
        v.set_multiasset(&ma);
    }
    let mut o = TransactionOutput::new(addr, &v);
    match datum(d) {
        Some(DataOption3::Hash(h)) => o.set_data_hash(&h),
        Some(DataOption3::Inline(p)) => o.set_plutus_data(&p),
        None => {}
    }
    if let Some(sr) = script_ref(s) {
        o.set_script_ref(&sr);
    }
    o
}

fn with_coin(o: &TransactionOutput, coin: u64) -> TransactionOutput {
    let mut v = o.amount();
    v.set_coin(&bn(coin));
    let mut o2 = TransactionOutput::new(&o.address(), &v);
    if let Some(d) = o.data_hash() {
        o2.set_data_hash(&d);
    }
    if let Some(d) = o.plutus_data() {
        o2.set_plutus_data(&d);
    }
    if let Some(s) = o.script_ref() {
        o2.set_script_ref(&s);
    }
    o2
}

/// serialized size measured by the independent reader (also checks well-formedness)
fn size_of(o: &TransactionOutput) -> usize {
    let b = o.to_bytes();
    match refcbor::parse(&b) {
        Ok(n) => n.end - n.start,
        Err(e) => crate::engine::machinery(format!("output bytes not well-formed: {:?} {}", e, hx(&b))),
    }
}

/// coins-per-byte alphabet: fixed values + values that put cpb*(160+size) on each width boundary
fn cpb_alphabet(size0: u64) -> Vec<u64> {
    let mut v: Vec<u64> = vec![0, 1, 2, 100, 4310, 1 << 20, 1 << 40, 1 << 63, u64::MAX];
    for b in [24u64, 256, 65536, 1 << 32] {
        let base = b / (160 + size0);
        for d in [0u64, 1, 2] {
            v.push(base + d);
        }
    }
    // overflow edge: largest cpb whose product with (160 + size + 8) still fits, and one more
    let edge = u64::MAX / (160 + size0 + 9);
    v.push(edge);
    v.push(edge + 1);
    v.push(u64::MAX / (160 + size0));
    v
}
const N_CPB: usize = 9 + 12 + 3;

fn width_class(x: u64) -> u8 {
    refcbor::min_width(x)
}

fn sc_min_ada(ctx: &mut Ctx) {
    let addrs = addresses();
    let ai = ctx.choose_free(addrs.len());
    let coins = w_ext();
    let coin = *ctx.pick_free(&coins);
    let a = ctx.choose_free(N_ASSETS);
    let d = ctx.choose_free(4);
    let s = ctx.choose_free(4);
    let ci = ctx.choose_free(N_CPB);
    let (aname, addr) = &addrs[ai];
    let o = make_output(addr, coin, a, d, s);
    let size0 = size_of(&with_coin(&o, 0)) as u64;
    let cpb = cpb_alphabet(size0)[ci];
    ctx.observe(&(ai, coin, a, d, s, cpb));
    ctx.set_sample(|| format!("min_ada_for_output(addr={}, coin={}, assets#{}, datum#{}, scriptref#{}; coins_per_byte={})", aname, coin, a, d, s, cpb));
    let cost = DataCost::new_coins_per_byte(&bn(cpb));
    let widest = with_coin(&o, u64::MAX);
    let upper: u128 = cpb as u128 * (160 + size_of(&widest) as u128);
    ctx.compared();
    match guard(|| min_ada_for_output(&o, &cost)) {
        Err(p) => ctx.violation(panic_sig(P, "min_ada_for_output", &p), p.msg.clone()),
        Ok(Err(e)) => {
            // acceptable only when some requirement the function may have to evaluate overflows
            if upper > u64::MAX as u128 {
                ctx.hit("min-ada-err-on-overflow");
            } else {
                ctx.violation(format!("{}/min_ada_for_output/err-without-overflow", P), format!("coins_per_byte={} size(coin=0)={} -> {:?}; the bound with the widest coin is {}", cpb, size0, e, upper));
            }
        }
        Ok(Ok(c)) => {
            let c = u(&c);
            let carried = c.max(coin);
            let o2 = with_coin(&o, carried);
            let need: u128 = cpb as u128 * (160 + size_of(&o2) as u128);
            ctx.hit("min-ada-ok");
            if width_class(carried) != width_class(coin) {
                ctx.hit("coin-width-grew");
            }
            if (carried as u128) < need {
                ctx.violation(
                    format!("{}/min_ada_for_output/below-bound", P),
                    format!("addr={} coin={} assets#{} datum#{} ref#{} cpb={}: returned {}, output carrying {} has size {} and needs {}", aname, coin, a, d, s, cpb, c, carried, size_of(&o2), need),
                );
            }
            if c as u128 > upper {
                ctx.violation(format!("{}/min_ada_for_output/above-widest-bound", P), format!("returned {} > {} (cpb {} x (160 + {}))", c, upper, cpb, size_of(&widest)));
            }
            // the builder's acceptance test must agree with the bound for the output as carried
            // the value-size limit at, just above and up to 10 below the real size of this value (the
            // array head and the coin are 2..10 of its bytes)
            let vs0 = o2.amount().to_bytes().len() as u32;
            let mut limits = vec![60u32, 5000];
            for dlt in [-1i64, 0, 1, 2, 5, 6, 7, 10] {
                let l = vs0 as i64 - dlt;
                if l > 0 {
                    limits.push(l as u32);
                }
            }
            for mvs in limits {
                let mut p = Params::mainnet();
                p.coins_per_byte = cpb;
                p.max_value_size = mvs;
                let mut tb = TransactionBuilder::new(&p.config());
                match guard(|| tb.add_output(&o2)) {
                    Err(pn) => ctx.violation(panic_sig(P, "TransactionBuilder::add_output", &pn), pn.msg.clone()),
                    Ok(Ok(())) => {
                        ctx.hit("add_output-accepts");
                        let vs = o2.amount().to_bytes().len();
                        if vs > mvs as usize {
                            ctx.violation(format!("{}/add_output/accepts-oversized-value", P), format!("value size {} > max_value_size {}", vs, mvs));
                        }
                        if (carried as u128) < need {
                            ctx.violation(format!("{}/add_output/accepts-below-min-ada", P), format!("coin {} < {}", carried, need));
                        }
                    }
                    Ok(Err(_)) => {
                        ctx.hit("add_output-rejects");
                        let vs = o2.amount().to_bytes().len();
                        if vs <= mvs as usize && carried as u128 >= need {
                            // rejecting an output that meets both limits is not a violation of this
                            // property (which bounds acceptance), but it is recorded
                            ctx.hit("add_output-rejects-conforming");
                        }
                    }
                }
            }
        }
    }
}

/// TransactionOutputBuilder ... with_asset_and_min_required_coin_by_utxo_cost: the output it
/// creates must meet the bound for the address it is really for.
fn sc_output_builder(ctx: &mut Ctx) {
    let addrs = addresses_ext();
    let ai = ctx.choose_free(addrs.len());
    let a = 1 + ctx.choose_free(N_ASSETS - 1);
    let d = ctx.choose_free(4);
    let s = ctx.choose_free(4);
    let ci = ctx.choose_free(N_CPB);
    let (aname, addr) = &addrs[ai];
    let probe = make_output(addr, 0, a, d, s);
    let size0 = size_of(&probe) as u64;
    let cpb = cpb_alphabet(size0)[ci];
    ctx.observe(&(ai, a, d, s, cpb));
    ctx.set_sample(|| format!("TransactionOutputBuilder(addr={}, datum#{}, ref#{}).with_asset_and_min_required_coin_by_utxo_cost(assets#{}, cpb={})", aname, d, s, a, cpb));
    let cost = DataCost::new_coins_per_byte(&bn(cpb));
    let ma = assets(a).unwrap();
    ctx.compared();
    let r = guard(|| {
        let mut b = TransactionOutputBuilder::new().with_address(addr);
        match datum(d) {
            Some(DataOption3::Hash(h)) => b = b.with_data_hash(&h),
            Some(DataOption3::Inline(p)) => b = b.with_plutus_data(&p),
            None => {}
        }
        if let Some(sr) = script_ref(s) {
            b = b.with_script_ref(&sr);
        }
        b.next()?.with_asset_and_min_required_coin_by_utxo_cost(&ma, &cost)?.build()
    });
    match r {
        Err(p) => ctx.violation(panic_sig(P, "with_asset_and_min_required_coin_by_utxo_cost", &p), p.msg.clone()),
        Ok(Err(_)) => ctx.hit("output-builder-err"),
        Ok(Ok(o)) => {
            ctx.hit("output-builder-ok");
            let coin = u(&o.amount().coin());
            let need: u128 = cpb as u128 * (160 + size_of(&o) as u128);
            if (coin as u128) < need {
                ctx.violation(
                    format!("{}/output-builder-min-coin/below-bound/{}", P, if size_of(&with_coin(&make_output(addr, 0, 0, 0, 0), 0)) > size_of(&with_coin(&make_output(&base_addr(0, 1), 0, 0, 0, 0), 0)) { "address-longer-than-57-bytes" } else { "other" }),
                    format!("addr={} assets#{} datum#{} ref#{} cpb={}: created output carries {} but its size {} needs {}", aname, a, d, s, cpb, coin, size_of(&o), need),
                );
            }
        }
    }
}

/// Change creation around a CBOR width boundary of the change coin: the price per byte is derived
/// from the probed size of the change output so that its minimum lands just below 2^16 / 2^32, and
/// the input coin is swept so that the leftover walks across the boundary in steps smaller than the
/// window in which the wider coin makes the output too small.
fn sc_change_boundary(ctx: &mut Ctx) {
    let boundary: u64 = [1u64 << 16, 1 << 32][ctx.choose_free(2)];
    let bundle = ctx.choose_free(3);
    let change_kind = ctx.choose_free(3);
    let dc = ctx.choose_free(3) as i64 - 1;
    let k = ctx.choose_free(64) as u64;
    let method = ctx.choose_free(2);
    let policy = |i: u8| ScriptHash::from_bytes(vec![0x50 + i; 28]).unwrap();
    let mut ma = MultiAsset::new();
    match bundle {
        0 => {
            ma.set_asset(&policy(0), &AssetName::new(b"tokn".to_vec()).unwrap(), &bn(7));
        }
        1 => {
            ma.set_asset(&policy(0), &AssetName::new(vec![]).unwrap(), &bn(1));
            ma.set_asset(&policy(1), &AssetName::new(vec![0xaa; 32]).unwrap(), &bn(1 << 33));
        }
        _ => {
            for j in 0..5u8 {
                ma.set_asset(&policy(j % 2), &AssetName::new(vec![j; (j as usize) * 3]).unwrap(), &bn(1 + j as u64));
            }
        }
    }
    let change = match change_kind {
        0 => base_addr(3, 1),
        1 => enterprise_addr(3),
        _ => {
            let r = crate::props::c11::RefByron { root: vec![0x3c; 28], payload: Some([vec![0x58, 0x1e], vec![0x77; 30]].concat()), magic: None, typ: 0 };
            ByronAddress::from_bytes(crate::props::c11::byron_bytes(&r)).unwrap().to_address()
        }
    };
    // probe: the change output carrying the whole bundle with a coin just below the boundary
    let probe = TransactionOutput::new(&change, &Value::new_with_assets(&bn(boundary - 1), &ma));
    let s_narrow = size_of(&probe) as u64;
    let cpb = ((boundary - 1) / (160 + s_narrow)) as i64 + dc;
    if cpb < 1 {
        return;
    }
    let cpb = cpb as u64;
    let mut p = Params::mainnet();
    p.coins_per_byte = cpb;
    let out_coin = cpb * 400;
    // fee is about 170k..180k lovelace here; the leftover walks from boundary-1500 to boundary+1700
    let input_coin = out_coin + 172_000 + boundary - 1500 + k * 50;
    let mut tb = TransactionBuilder::new(&p.config());
    let mut ib = TxInputsBuilder::new();
    ib.add_regular_utxo(&TransactionUnspentOutput::new(&crate::builder::op_outpoint(0), &TransactionOutput::new(&enterprise_addr(0), &Value::new_with_assets(&bn(input_coin), &ma)))).unwrap();
    tb.set_inputs(&ib);
    if tb.add_output(&TransactionOutput::new(&enterprise_addr(2), &Value::new(&bn(out_coin)))).is_err() {
        return ctx.hit("boundary:requested-output-refused");
    }
    ctx.observe(&(boundary, bundle, change_kind, dc, k, method));
    let what = format!("boundary {} bundle {} change address kind {} coins_per_byte {} input coin {} method {}", boundary, bundle, change_kind, cpb, input_coin, method);
    ctx.set_sample(|| what.clone());
    let r = if method == 0 {
        guard(|| tb.add_change_if_needed(&change))
    } else {
        let mut pool = TransactionUnspentOutputs::new();
        pool.add(&TransactionUnspentOutput::new(&crate::builder::op_outpoint(1), &TransactionOutput::new(&enterprise_addr(1), &Value::new(&bn(3_000_000)))));
        guard(|| tb.add_inputs_from_and_change(&pool, CoinSelectionStrategyCIP2::LargestFirstMultiAsset, &ChangeConfig::new(&change)))
    };
    match r {
        Err(pn) => return ctx.violation(panic_sig(P, "change-boundary", &pn), format!("{} : {}", what, pn.msg)),
        Ok(Err(_)) => return ctx.hit("boundary:balancing-refuses"),
        Ok(Ok(_)) => {}
    }
    let tx = match guard(|| tb.build_tx()) {
        Ok(Ok(t)) => t.to_bytes(),
        _ => return ctx.hit("boundary:build-refuses"),
    };
    ctx.compared();
    let t = match crate::ledger::parse_tx(&tx) {
        Ok(t) => t,
        Err(e) => return ctx.violation(format!("{}/oracle-cannot-parse", P), e),
    };
    ctx.hit("boundary:built");
    for (i, o) in t.outputs.iter().enumerate() {
        let need = cpb as u128 * (160 + o.size as u128);
        if o.value.coin < need {
            ctx.violation(format!("{}/builder-output-below-min-ada/output/{}", P, if i == 0 { "requested" } else { "created" }), format!("output #{} carries {} < {} = {} x (160 + {}) ; {}", i, o.value.coin, need, cpb, o.size, what));
        }
        if i > 0 && !o.value.assets.is_empty() {
            if o.value.coin >= boundary as u128 {
                ctx.hit("boundary:token-change-coin-at-or-above");
            } else {
                ctx.hit("boundary:token-change-coin-below");
            }
        }
    }
}

/// Collateral return outputs given explicitly, dressed with a data hash / inline datum / script
/// reference, with coins around the minimum of the bare and of the dressed output.
fn sc_collateral_return(ctx: &mut Ctx) {
    let addrs = addresses();
    let ai = ctx.choose_free(addrs.len().min(4));
    let d = ctx.choose_free(4);
    let sr = ctx.choose_free(4);
    let cpb = *ctx.pick_free(&[4310u64, 1, 250]);
    let ci = ctx.choose_free(7);
    let (aname, addr) = &addrs[ai];
    let dressed0 = make_output(addr, 0, 0, d, sr);
    let bare0 = make_output(addr, 0, 0, 0, 0);
    let cost = DataCost::new_coins_per_byte(&bn(cpb));
    let (full_min, bare_min) = match (guard(|| min_ada_for_output(&dressed0, &cost)), guard(|| min_ada_for_output(&bare0, &cost))) {
        (Ok(Ok(a)), Ok(Ok(b))) => (u(&a), u(&b)),
        _ => return,
    };
    let coin = match ci {
        0 => bare_min,
        1 => (bare_min + full_min) / 2,
        2 => full_min.saturating_sub(1),
        3 => full_min,
        4 => full_min + 1,
        5 => bare_min.saturating_sub(1),
        _ => 65_536.max(full_min / 2),
    };
    let collateral_coin = coin + 3_000_000;
    let mut p = Params::mainnet();
    p.coins_per_byte = cpb;
    let mut tb = TransactionBuilder::new(&p.config());
    let mut cb = TxInputsBuilder::new();
    cb.add_regular_utxo(&TransactionUnspentOutput::new(&crate::builder::op_outpoint(9), &TransactionOutput::new(&enterprise_addr(1), &Value::new(&bn(collateral_coin))))).unwrap();
    tb.set_collateral(&cb);
    let ret = with_coin(&dressed0, coin);
    ctx.observe(&(ai, d, sr, cpb, ci));
    let what = format!("collateral return to {} datum#{} ref#{} coin {} (bare minimum {}, real minimum {}) cpb {}", aname, d, sr, coin, bare_min, full_min, cpb);
    ctx.set_sample(|| what.clone());
    ctx.compared();
    match guard(|| tb.set_collateral_return_and_total(&ret)) {
        Err(pn) => ctx.violation(panic_sig(P, "set_collateral_return_and_total", &pn), format!("{} : {}", what, pn.msg)),
        Ok(Err(_)) => ctx.hit("collateral-return-refused"),
        Ok(Ok(())) => {
            ctx.hit("collateral-return-accepted");
            let need = cpb as u128 * (160 + size_of(&ret) as u128);
            if (coin as u128) < need {
                ctx.violation(format!("{}/collateral-return-below-min-ada/{}", P, if d != 0 || sr != 0 { "dressed" } else { "plain" }), format!("accepted with {} < {} = {} x (160 + {}) ; {}", coin, need, cpb, size_of(&ret), what));
            }
        }
    }
}

pub fn scenario(name: &str, tier: Tier) -> Option<BoxedScenario> {
    Some(match name {
        "collateral_return" => Box::new(sc_collateral_return),
        "change_boundary" => Box::new(sc_change_boundary),
        "min_ada" => Box::new(sc_min_ada),
        "output_builder" => Box::new(sc_output_builder),
        _ => return crate::builder::scenario_for(P, name, tier),
    })
}

pub fn run(tier: Tier, seed: u64) -> i32 {
    let mut rep = Report::new(P, tier, seed);
    rep.rule = "function part: 7 address kinds x 32 coins (width classes and neighbours) x 69 asset bundles (names 0..32 bytes) x 4 datum options x 4 script-ref options x 24 coins-per-byte values derived per output to land on/around every CBOR width boundary and the u64 overflow edge; collateral_return: explicit return outputs (4 addresses x 4 datum options x 4 script-ref options x 3 prices x 7 coins around the bare and the real minimum) through set_collateral_return_and_total; change_boundary: token change with the price per byte derived so that the change output's minimum lands just below 2^16 / 2^32 (3 bundles x 3 change addresses x 3 prices) and the input coin swept in 50-lovelace steps across the boundary x 2 balancing methods; builder part: every output of every transaction produced by the builder exploration; distinct = distinct argument tuples / distinct builder states".into();
    rep.assume("raw pass-through setters (set_collateral_return, set_total_collateral) validate nothing by design and are not in the alphabet");
    rep.trusted_base = vec!["harness/src/refcbor.rs for serialized sizes".into(), "min-UTxO rule coins_per_byte x (160 + |output|) (Babbage/Conway ledger)".into()];
    rep.required_hits = vec!["min-ada-ok", "min-ada-err-on-overflow", "coin-width-grew", "add_output-accepts", "add_output-rejects", "output-builder-ok", "collateral-return-accepted", "collateral-return-refused", "boundary:built", "boundary:balancing-refuses", "boundary:token-change-coin-at-or-above", "boundary:token-change-coin-below"];
    let opts = Opts::new(seed);
    for name in ["min_ada", "output_builder", "change_boundary", "collateral_return"] {
        let f = scenario(name, tier).unwrap();
        let st = explore(name, &*f, &opts);
        rep.add(name, "full product", st);
    }
    crate::builder::explore_for(P, tier, seed, &mut rep);
    rep.finish()
}
