//! C04 — original bytes and the hashes derived from them are preserved.
//!
//! E1 with a deviation bound: a base transaction / datum / block is a refcbor tree; every node
//! offers a menu of encoding deviations the wire format allows (wider heads, indefinite length,
//! chunked strings, swapped or repeated map entries, set tag dropped / added, repeated array
//! element).  All trees with <= B deviations are emitted, crossed (free choices) with the load path
//! and every history of signature / setter operations.  Oracle: byte spans cut out of the *input*
//! by refcbor, Blake2b from cryptoxide, Ed25519 verification from cryptoxide.

use crate::engine::{explore, guard, panic_sig, Ctx, Opts};
use crate::fx::*;
use crate::props::BoxedScenario;
use crate::refcbor::{self, Kind, Node};
use crate::report::{Report, Tier};
use crate::util::*;
use cardano_serialization_lib as csl;
use csl::*;
use std::collections::BTreeMap;

const P: &str = "C04";

// ---------------------------------------------------------------------------------------------
// encoding deviations

#[derive(Clone, Debug)]
enum Dev {
    Width(u8),
    Indef,
    Chunk(usize),
    EmptyChunkFirst,
    Swap(usize),
    DupEntry(usize),
    DupElem,
    DropTag,
    AddSetTag,
    /// a set with all its elements removed: a present-but-empty field (another value, which the decoder
    /// accepts; its bytes are to be preserved like any other field's)
    Emptied,
}

fn dev_kind(d: &Dev) -> &'static str {
    match d {
        Dev::Width(_) => "dev:wider-head",
        Dev::Indef => "dev:indefinite-container",
        Dev::Chunk(_) | Dev::EmptyChunkFirst => "dev:chunked-string",
        Dev::Swap(_) => "dev:unsorted-map-keys",
        Dev::DupEntry(_) => "dev:duplicate-map-key",
        Dev::DupElem => "dev:repeated-element",
        Dev::DropTag => "dev:set-tag-dropped",
        Dev::AddSetTag => "dev:set-tag-added",
        Dev::Emptied => "dev:emptied-set",
    }
}

fn menu(n: &Node) -> Vec<Dev> {
    let mut v = Vec::new();
    let widths = |v: &mut Vec<Dev>, cur: u8| {
        for w in [1u8, 2, 4, 8] {
            if w > cur {
                v.push(Dev::Width(w));
            }
        }
    };
    match &n.kind {
        Kind::UInt(_) | Kind::NInt(_) => widths(&mut v, n.width),
        Kind::Bytes(b) | Kind::Text(b) => {
            if !n.indefinite {
                widths(&mut v, n.width);
                v.push(Dev::Chunk(b.len().max(1)));
                if b.len() >= 2 {
                    v.push(Dev::Chunk((b.len() + 1) / 2));
                    v.push(Dev::EmptyChunkFirst);
                }
            }
        }
        Kind::Array(a) => {
            if !n.indefinite {
                widths(&mut v, n.width);
                v.push(Dev::Indef);
            }
            // repeating an element is an encoding deviation only for sets; in a fixed-arity array it
            // makes another (invalid) shape, whose acceptance is C02's recorded finding
            if !a.is_empty() && n.start == SET_MARK {
                v.push(Dev::DupElem);
                v.push(Dev::Emptied);
            }
            v.push(Dev::AddSetTag);
        }
        Kind::Map(m) => {
            if !n.indefinite {
                widths(&mut v, n.width);
                v.push(Dev::Indef);
            }
            for j in 0..m.len().saturating_sub(1) {
                v.push(Dev::Swap(j));
            }
            for j in 0..m.len().min(2) {
                v.push(Dev::DupEntry(j));
            }
        }
        Kind::Tag(t, _) => {
            widths(&mut v, n.width);
            if *t == 258 {
                v.push(Dev::DropTag);
            }
        }
        _ => {}
    }
    v
}

fn apply_dev(mut n: Node, d: &Dev) -> Node {
    match d {
        Dev::Width(w) => {
            n.width = *w;
            n
        }
        Dev::Indef => n.indef(),
        Dev::Chunk(c) => n.chunked(*c),
        Dev::EmptyChunkFirst => {
            let len = match &n.kind {
                Kind::Bytes(b) | Kind::Text(b) => b.len(),
                _ => 0,
            };
            n.indefinite = true;
            n.chunks = vec![(0, 0), (len, refcbor::min_width(len as u64))];
            n
        }
        Dev::Swap(j) => {
            if let Kind::Map(m) = &mut n.kind {
                m.swap(*j, *j + 1);
            }
            n
        }
        Dev::DupEntry(j) => {
            if let Kind::Map(m) = &mut n.kind {
                let e = m[*j].clone();
                m.push(e);
            }
            n
        }
        Dev::DupElem => {
            if let Kind::Array(a) = &mut n.kind {
                let e = a[a.len() - 1].clone();
                a.push(e);
            }
            n
        }
        Dev::DropTag => match n.kind {
            Kind::Tag(_, inner) => *inner,
            _ => n,
        },
        Dev::AddSetTag => Node::tag(258, n),
        Dev::Emptied => {
            if let Kind::Array(a) = &mut n.kind {
                a.clear();
            }
            n
        }
    }
}

/// rebuild `n` with, at every node (pre-order), the deviation the explorer picks (0 = none)
fn deviate(ctx: &mut Ctx, n: &Node, applied: &mut Vec<&'static str>) -> Node {
    let m = menu(n);
    let pick = if m.is_empty() { 0 } else { ctx.choose(m.len() + 1) };
    let mut out = Node::new(n.kind.clone());
    out.start = n.start;
    out.width = n.width;
    out.indefinite = n.indefinite;
    out.chunks = n.chunks.clone();
    out.kind = match &n.kind {
        Kind::Array(a) => Kind::Array(a.iter().map(|x| deviate(ctx, x, applied)).collect()),
        Kind::Map(mm) => Kind::Map(mm.iter().map(|(k, v)| (deviate(ctx, k, applied), deviate(ctx, v, applied))).collect()),
        Kind::Tag(t, inner) => Kind::Tag(*t, Box::new(deviate(ctx, inner, applied))),
        k => k.clone(),
    };
    if pick > 0 {
        applied.push(dev_kind(&m[pick - 1]));
        apply_dev(out, &m[pick - 1])
    } else {
        out
    }
}

// ---------------------------------------------------------------------------------------------
// base transactions

/// arrays that are sets carry this mark (the span fields are unused in constructed trees)
const SET_MARK: usize = usize::MAX - 1;
fn set(tagged: bool, items: Vec<Node>) -> Node {
    let mut a = Node::arr(items);
    a.start = SET_MARK;
    if tagged {
        Node::tag(258, a)
    } else {
        a
    }
}
fn addr_bytes(kind: u8, fill: u8) -> Vec<u8> {
    let mut a = vec![kind];
    a.extend(vec![fill; 28]);
    a
}
fn vkw_node(i: usize) -> Node {
    let w = crate::gen::vkeywitness_i(i);
    Node::arr(vec![Node::bytes(&w.vkey().public_key().as_bytes()), Node::bytes(&w.signature().to_bytes())])
}
fn boot_node(i: usize) -> Node {
    let w = crate::gen::bootstrap_witness_i(i);
    Node::arr(vec![Node::bytes(&w.vkey().public_key().as_bytes()), Node::bytes(&w.signature().to_bytes()), Node::bytes(&w.chain_code()), Node::bytes(&w.attributes())])
}
fn datum_node() -> Node {
    // 121([_ 1, h'aabb', {2: [3]}]) with an indefinite list as Plutus tooling writes it
    Node::tag(121, Node::arr(vec![Node::uint(1), Node::bytes(&[0xaa, 0xbb]), Node::map(vec![(Node::uint(2), Node::arr(vec![Node::uint(3)]))])]).indef())
}

fn base_tx(which: usize) -> Node {
    match which {
        0 => {
            // minimal, no witnesses, null auxiliary data
            let body = Node::map(vec![
                (Node::uint(0), set(true, vec![Node::arr(vec![Node::bytes(&[7u8; 32]), Node::uint(0)])])),
                (Node::uint(1), Node::arr(vec![Node::arr(vec![Node::bytes(&addr_bytes(0x61, 9)), Node::uint(1_000_000)])])),
                (Node::uint(2), Node::uint(170_000)),
            ]);
            Node::arr(vec![body, Node::map(vec![]), Node::boolean(true), Node::null()])
        }
        1 | 2 => {
            let tagged = which == 1;
            let ma = Node::map(vec![(Node::bytes(&[0x33; 28]), Node::map(vec![(Node::bytes(b"a"), Node::uint(5)), (Node::bytes(b"bb"), Node::uint(6))]))]);
            let datum_bytes = refcbor::emit(&datum_node());
            let body = Node::map(vec![
                (Node::uint(0), set(tagged, vec![Node::arr(vec![Node::bytes(&[7u8; 32]), Node::uint(0)]), Node::arr(vec![Node::bytes(&[8u8; 32]), Node::uint(300)])])),
                (
                    Node::uint(1),
                    Node::arr(vec![
                        Node::arr(vec![Node::bytes(&addr_bytes(0x61, 9)), Node::arr(vec![Node::uint(2_000_000), ma])]),
                        Node::map(vec![(Node::uint(0), Node::bytes(&addr_bytes(0x71, 4))), (Node::uint(1), Node::uint(3_000_000)), (Node::uint(2), Node::arr(vec![Node::uint(1), Node::tag(24, Node::bytes(&datum_bytes))]))]),
                    ]),
                ),
                (Node::uint(2), Node::uint(200_000)),
                (Node::uint(3), Node::uint(99_000_000)),
                (Node::uint(4), set(tagged, vec![Node::arr(vec![Node::uint(0), Node::arr(vec![Node::uint(0), Node::bytes(&kh_bytes(1))])])])),
                (Node::uint(5), Node::map(vec![(Node::bytes(&addr_bytes(0xe1, 5)), Node::uint(1234))])),
                (Node::uint(7), Node::bytes(&[0x77; 32])),
                (Node::uint(9), Node::map(vec![(Node::bytes(&[0x44; 28]), Node::map(vec![(Node::bytes(b"t"), Node::int(-1))]))])),
                (Node::uint(11), Node::bytes(&[0x11; 32])),
                (Node::uint(13), set(tagged, vec![Node::arr(vec![Node::bytes(&[9u8; 32]), Node::uint(1)])])),
                (Node::uint(14), set(tagged, vec![Node::bytes(&kh_bytes(2))])),
                (Node::uint(18), set(tagged, vec![Node::arr(vec![Node::bytes(&[6u8; 32]), Node::uint(2)])])),
            ]);
            let ws = Node::map(vec![
                (Node::uint(0), set(tagged, vec![vkw_node(0)])),
                (Node::uint(1), set(tagged, vec![Node::arr(vec![Node::uint(0), Node::bytes(&kh_bytes(1))])])),
                (Node::uint(2), set(tagged, vec![boot_node(0)])),
                (Node::uint(3), set(tagged, vec![Node::bytes(&[1, 2, 3])])),
                (Node::uint(4), set(tagged, vec![datum_node(), Node::uint(7).with_width(1)])),
                (Node::uint(5), Node::map(vec![(Node::arr(vec![Node::uint(0), Node::uint(0)]), Node::arr(vec![Node::uint(42), Node::arr(vec![Node::uint(1000), Node::uint(2000)])]))])),
                (Node::uint(6), set(tagged, vec![Node::bytes(&[4, 5, 6, 7])])),
                (Node::uint(7), set(tagged, vec![Node::bytes(&[8, 9])])),
            ]);
            let aux = Node::tag(259, Node::map(vec![(Node::uint(0), Node::map(vec![(Node::uint(1), Node::text("hi")), (Node::uint(2), Node::arr(vec![Node::uint(1), Node::bytes(&[0])]))])), (Node::uint(1), Node::arr(vec![Node::arr(vec![Node::uint(0), Node::bytes(&kh_bytes(1))])]))]));
            Node::arr(vec![body, ws, Node::boolean(which == 1), aux])
        }
        4 => {
            // the pre-Alonzo 3-element layout [body, witness set, auxiliary data] (no is_valid)
            let body = Node::map(vec![
                (Node::uint(0), set(false, vec![Node::arr(vec![Node::bytes(&[7u8; 32]), Node::uint(0)])])),
                (Node::uint(1), Node::arr(vec![Node::arr(vec![Node::bytes(&addr_bytes(0x61, 9)), Node::uint(1_000_000)])])),
                (Node::uint(2), Node::uint(170_000)),
                (Node::uint(7), Node::bytes(&[0x77; 32])),
            ]);
            let ws = Node::map(vec![(Node::uint(0), set(false, vec![vkw_node(0)]))]);
            let aux = Node::map(vec![(Node::uint(674), Node::map(vec![(Node::text("msg"), Node::arr(vec![Node::text("hi"), Node::uint(5)]))]))]);
            Node::arr(vec![body, ws, aux])
        }
        _ => {
            // redeemers in the legacy array form, Shelley-era metadata-only auxiliary data, only vkeys
            let body = Node::map(vec![
                (Node::uint(0), set(false, vec![Node::arr(vec![Node::bytes(&[7u8; 32]), Node::uint(0)])])),
                (Node::uint(1), Node::arr(vec![])),
                (Node::uint(2), Node::uint(0)),
            ]);
            let ws = Node::map(vec![
                (Node::uint(5), Node::arr(vec![Node::arr(vec![Node::uint(0), Node::uint(0), Node::uint(42), Node::arr(vec![Node::uint(1), Node::uint(2)])])])),
                (Node::uint(0), set(false, vec![vkw_node(0), vkw_node(1)])),
            ]);
            let aux = Node::map(vec![(Node::uint(1), Node::text("hi"))]);
            Node::arr(vec![body, ws, Node::boolean(true), aux])
        }
    }
}

// ---------------------------------------------------------------------------------------------
// the model of a byte-preserving transaction

#[derive(Clone, Debug)]
enum Field {
    /// untouched: these exact bytes
    Raw(Vec<u8>),
    /// touched: the elements (as tuples of byte strings), in order, without repeats
    Elems(Vec<Vec<Vec<u8>>>),
}

#[derive(Clone, Debug)]
struct Model {
    body: Vec<u8>,
    aux: Option<Vec<u8>>,
    is_valid: bool,
    ws: BTreeMap<u64, Field>,
    /// hash the signing helpers must have signed: of the body the object was *created* with or last set
    hash: Vec<u8>,
}

fn elem_tuple(n: &Node) -> Option<Vec<Vec<u8>>> {
    n.as_array()?.iter().map(|x| x.as_bytes().map(|b| b.to_vec())).collect()
}
fn elems_of(field: &Node) -> Option<Vec<Vec<Vec<u8>>>> {
    let mut out: Vec<Vec<Vec<u8>>> = Vec::new();
    let mut f = field;
    while let Some((258, inner)) = f.as_tag() {
        f = inner;
    }
    for x in f.as_array()? {
        let t = elem_tuple(x)?;
        if !out.contains(&t) {
            out.push(t);
        }
    }
    Some(out)
}

fn model_of(e: &[u8]) -> Option<Model> {
    let n = refcbor::parse(e).ok()?;
    let top = n.as_array()?;
    if top.len() < 3 {
        return None;
    }
    let body = top[0].span(e).to_vec();
    let (is_valid, aux_node) = if top.len() >= 4 {
        (matches!(top[2].kind, Kind::Simple(21)), &top[3])
    } else {
        (true, &top[2])
    };
    let aux = if aux_node.is_null() { None } else { Some(aux_node.span(e).to_vec()) };
    let mut ws = BTreeMap::new();
    for (k, v) in top[1].as_map()? {
        ws.insert(k.as_uint()?, Field::Raw(v.span(e).to_vec()));
    }
    Some(Model { hash: blake2b256(&body), body, aux, is_valid, ws })
}

#[derive(Clone, Copy, Debug, PartialEq)]
enum Op {
    AddVkey(usize),
    AddVkeyPresent,
    SignVkey,
    AddBoot(usize),
    AddBootPresent,
    SignIcarus,
    SignDaedalus,
    SetBody,
    /// set_body with ANOTHER ENCODING of the body the object already holds (the fee head widened):
    /// equal as a value, different bytes, so a different hash
    SetBodyReencoded,
    SetAux,
    SetValid,
    SetWs,
}
const OPS: [Op; 13] = [Op::SetBodyReencoded, Op::AddVkey(2), Op::AddVkey(3), Op::AddVkeyPresent, Op::SignVkey, Op::AddBoot(2), Op::AddBootPresent, Op::SignIcarus, Op::SignDaedalus, Op::SetBody, Op::SetAux, Op::SetValid, Op::SetWs];

thread_local! {
    static KEYS: (PrivateKey, Bip32PrivateKey, LegacyDaedalusPrivateKey, ByronAddress) = {
        let sk = PrivateKey::from_normal_bytes(&[0x42; 32]).unwrap();
        let root = Bip32PrivateKey::from_bip39_entropy(&[0x13; 16], &[]);
        let xprv = root.derive(0x8000_002c).derive(0x8000_0717);
        let dk = LegacyDaedalusPrivateKey::from_bytes(&xprv.as_bytes()).unwrap();
        (sk, xprv, dk, crate::gen::byron_cached(0))
    };
}

fn alt_body() -> Vec<u8> {
    // another body, itself not canonical: indefinite map, wide fee
    let b = Node::map(vec![(Node::uint(0), set(false, vec![Node::arr(vec![Node::bytes(&[5u8; 32]), Node::uint(1)])])), (Node::uint(1), Node::arr(vec![])), (Node::uint(2), Node::uint(7).with_width(2))]).indef();
    refcbor::emit(&b)
}
fn alt_aux() -> Vec<u8> {
    refcbor::emit(&Node::map(vec![(Node::uint(5), Node::bytes(&[1, 2]).chunked(1))]).with_width(1))
}

fn tuple_of_vkw(w: &Vkeywitness) -> Vec<Vec<u8>> {
    vec![w.vkey().public_key().as_bytes(), w.signature().to_bytes()]
}
fn tuple_of_boot(w: &BootstrapWitness) -> Vec<Vec<u8>> {
    vec![w.vkey().public_key().as_bytes(), w.signature().to_bytes(), w.chain_code(), w.attributes()]
}

fn touch(m: &mut Model, key: u64, t: Vec<Vec<u8>>) {
    let cur = match m.ws.get(&key) {
        None => vec![],
        Some(Field::Elems(e)) => e.clone(),
        Some(Field::Raw(r)) => refcbor::parse(r).ok().and_then(|n| elems_of(&n)).unwrap_or_default(),
    };
    let mut cur = cur;
    if !cur.contains(&t) {
        cur.push(t);
    }
    m.ws.insert(key, Field::Elems(cur));
}

/// apply `op` to the object and the model; Err(signature, detail) on a violation seen at the op itself
fn apply_op(ft: &mut FixedTransaction, m: &mut Model, op: Op) -> Result<(), (String, String)> {
    let verify = |pk: &[u8], sig: &[u8], msg: &[u8]| -> bool {
        let pk: [u8; 32] = pk.try_into().unwrap_or([0; 32]);
        let sig: [u8; 64] = sig.try_into().unwrap_or([0; 64]);
        cryptoxide::ed25519::verify(msg, &pk, &sig)
    };
    match op {
        Op::AddVkey(i) => {
            let w = crate::gen::vkeywitness_i(i);
            ft.add_vkey_witness(&w);
            touch(m, 0, tuple_of_vkw(&w));
        }
        Op::AddVkeyPresent => {
            let w = crate::gen::vkeywitness_i(0);
            ft.add_vkey_witness(&w);
            touch(m, 0, tuple_of_vkw(&w));
        }
        Op::AddBoot(i) => {
            let w = crate::gen::bootstrap_witness_i(i);
            ft.add_bootstrap_witness(&w);
            touch(m, 2, tuple_of_boot(&w));
        }
        Op::AddBootPresent => {
            let w = crate::gen::bootstrap_witness_i(0);
            ft.add_bootstrap_witness(&w);
            touch(m, 2, tuple_of_boot(&w));
        }
        Op::SignVkey => {
            let before = ft.witness_set().vkeys().map(|v| v.len()).unwrap_or(0);
            KEYS.with(|k| ft.sign_and_add_vkey_signature(&k.0)).map_err(|e| ("C04/sign-fails".to_string(), format!("{:?}", e)))?;
            let vk = ft.witness_set().vkeys().ok_or(("C04/signature-not-added".to_string(), String::new()))?;
            // the key may have signed an earlier body too (sign, set_body, sign): the witness looked
            // for is one of this key whose signature is over the current hash
            let mine: Vec<Vkeywitness> = (0..vk.len()).map(|i| vk.get(i)).filter(|w| KEYS.with(|k| w.vkey().public_key().as_bytes() == k.0.to_public().as_bytes())).collect();
            if mine.is_empty() {
                return Err(("C04/signature-not-added".to_string(), format!("{} witnesses before", before)));
            }
            let w = match mine.iter().find(|w| verify(&w.vkey().public_key().as_bytes(), &w.signature().to_bytes(), &m.hash)) {
                Some(w) => w.clone(),
                None => return Err(("C04/signature-not-over-the-hash-of-the-raw-body/vkey".to_string(), format!("body {}", hx(&m.body)))),
            };
            touch(m, 0, tuple_of_vkw(&w));
        }
        Op::SignIcarus | Op::SignDaedalus => {
            let r = KEYS.with(|k| if op == Op::SignIcarus { ft.sign_and_add_icarus_bootstrap_signature(&k.3, &k.1) } else { ft.sign_and_add_daedalus_bootstrap_signature(&k.3, &k.2) });
            r.map_err(|e| ("C04/sign-fails".to_string(), format!("{:?}", e)))?;
            let bs = ft.witness_set().bootstraps().ok_or(("C04/signature-not-added".to_string(), String::new()))?;
            let pk = KEYS.with(|k| k.1.to_public().to_raw_key().as_bytes());
            let mine: Vec<BootstrapWitness> = (0..bs.len()).map(|i| bs.get(i)).filter(|w| w.vkey().public_key().as_bytes() == pk).collect();
            if mine.is_empty() {
                return Err(("C04/signature-not-added".to_string(), String::new()));
            }
            let w = match mine.iter().find(|w| verify(&w.vkey().public_key().as_bytes(), &w.signature().to_bytes(), &m.hash)) {
                Some(w) => w.clone(),
                None => return Err(("C04/signature-not-over-the-hash-of-the-raw-body/bootstrap".to_string(), format!("body {}", hx(&m.body)))),
            };
            touch(m, 2, tuple_of_boot(&w));
        }
        Op::SetBody => {
            let b = alt_body();
            ft.set_body(&b).map_err(|e| ("C04/set_body-rejects".to_string(), format!("{:?}", e)))?;
            m.hash = blake2b256(&b);
            m.body = b;
        }
        Op::SetBodyReencoded => {
            let mut n = refcbor::parse(&m.body).map_err(|e| ("C04/harness-cannot-parse-body".to_string(), format!("{:?}", e)))?;
            if let Kind::Map(entries) = &mut n.kind {
                for (k, v) in entries.iter_mut() {
                    if k.as_uint() == Some(2) {
                        let wide = v.clone().with_width(8);
                        *v = if refcbor::emit(&wide) == refcbor::emit(v) { v.clone().with_width(4) } else { wide };
                    }
                }
            }
            let b = refcbor::emit(&n);
            if b != m.body {
                ft.set_body(&b).map_err(|e| ("C04/set_body-rejects".to_string(), format!("{:?}", e)))?;
                m.hash = blake2b256(&b);
                m.body = b;
            }
        }
        Op::SetAux => {
            let a = alt_aux();
            ft.set_auxiliary_data(&a).map_err(|e| ("C04/set_auxiliary_data-rejects".to_string(), format!("{:?}", e)))?;
            m.aux = Some(a);
        }
        Op::SetValid => {
            ft.set_is_valid(false);
            m.is_valid = false;
        }
        Op::SetWs => {
            // another witness set, itself not canonical: untagged indefinite vkeys, a wide native-script head
            let ws = Node::map(vec![(Node::uint(0), Node::arr(vec![vkw_node(1)]).indef()), (Node::uint(1), Node::arr(vec![Node::arr(vec![Node::uint(0), Node::bytes(&kh_bytes(2))])]).with_width(1))]);
            let (wb, wn) = refcbor::emit_spanned(&ws);
            #[allow(deprecated)]
            ft.set_witness_set(&wb).map_err(|e| ("C04/set_witness_set-rejects".to_string(), format!("{:?}", e)))?;
            m.ws.clear();
            for (k, v) in wn.as_map().unwrap() {
                m.ws.insert(k.as_uint().unwrap(), Field::Raw(v.span(&wb).to_vec()));
            }
        }
    }
    Ok(())
}

fn compare(ctx: &mut Ctx, ft: &FixedTransaction, m: &Model, at: &str, what: &dyn Fn() -> String) -> bool {
    let before = ctx.violations.len();
    compare_inner(ctx, ft, m, at, what);
    ctx.violations.len() == before
}
fn compare_inner(ctx: &mut Ctx, ft: &FixedTransaction, m: &Model, at: &str, what: &dyn Fn() -> String) {
    let mut bad = |ctx: &mut Ctx, sig: &str, detail: String| ctx.violation(format!("{}/{}/{}", P, sig, at), format!("{} ; {}", detail, what()));
    if ft.raw_body() != m.body {
        bad(ctx, "raw_body-differs-from-input", format!("got {}", hx(&ft.raw_body())));
    }
    if ft.transaction_hash().to_bytes() != blake2b256(&m.body) {
        bad(ctx, "transaction_hash-not-blake2b256-of-raw-body", format!("got {}", hx(&ft.transaction_hash().to_bytes())));
    }
    if ft.raw_auxiliary_data() != m.aux {
        bad(ctx, "raw_auxiliary_data-differs-from-input", format!("got {:?}", ft.raw_auxiliary_data().map(|a| hx(&a))));
    }
    let out = ft.to_bytes();
    let o = match refcbor::parse(&out) {
        Ok(o) => o,
        Err(e) => return bad(ctx, "to_bytes-not-well-formed", format!("{:?} {}", e, hx(&out))),
    };
    let top = match o.as_array() {
        Some(t) if t.len() == 4 => t,
        _ => return bad(ctx, "to_bytes-not-a-4-array", hx(&out)),
    };
    if top[0].span(&out) != &m.body[..] {
        bad(ctx, "body-bytes-changed", format!("emitted {}", hx(top[0].span(&out))));
    }
    let aux_out = if top[3].is_null() { None } else { Some(top[3].span(&out).to_vec()) };
    if aux_out != m.aux {
        bad(ctx, "auxiliary-bytes-changed", format!("emitted {:?}", aux_out.map(|a| hx(&a))));
    }
    if matches!(top[2].kind, Kind::Simple(21)) != m.is_valid {
        bad(ctx, "is_valid-changed", String::new());
    }
    if ft.raw_witness_set() != top[1].span(&out) {
        bad(ctx, "raw_witness_set-differs-from-to_bytes", String::new());
    }
    let wm = match top[1].as_map() {
        Some(w) => w,
        None => return bad(ctx, "witness-set-not-a-map", hx(&out)),
    };
    let mut seen = BTreeMap::new();
    for (k, v) in wm {
        if let Some(k) = k.as_uint() {
            if seen.insert(k, v).is_some() {
                bad(ctx, "witness-field-emitted-twice", format!("key {}", k));
            }
        }
    }
    for (k, f) in &m.ws {
        match (f, seen.get(k)) {
            (Field::Raw(r), Some(v)) => {
                if v.span(&out) != &r[..] {
                    bad(ctx, &format!("untouched-witness-field-{}-bytes-changed", k), format!("input {} emitted {}", hx(r), hx(v.span(&out))));
                } else {
                    ctx.hit("untouched-field-preserved");
                }
            }
            (Field::Raw(r), None) => bad(ctx, &format!("untouched-witness-field-{}-dropped", k), format!("input {}", hx(r))),
            (Field::Elems(e), Some(v)) => match elems_of(v) {
                Some(got) => {
                    let raw_items = v.set_items().map(|i| i.len()).unwrap_or(0);
                    if raw_items != got.len() {
                        bad(ctx, &format!("touched-witness-field-{}-repeats-an-element", k), hx(v.span(&out)));
                    } else if &got != e {
                        let mut a = got.clone();
                        a.sort();
                        let mut b = e.clone();
                        b.sort();
                        let kind = if a == b { "order-changed" } else if b.iter().all(|x| a.contains(x)) { "extra-element" } else { "element-lost" };
                        bad(ctx, &format!("touched-witness-field-{}-{}", k, kind), format!("emitted {} elements, expected {}", got.len(), e.len()));
                    } else {
                        ctx.hit("touched-field-has-old-and-new");
                    }
                }
                None => bad(ctx, &format!("touched-witness-field-{}-malformed", k), hx(v.span(&out))),
            },
            (Field::Elems(e), None) => {
                if !e.is_empty() {
                    bad(ctx, &format!("touched-witness-field-{}-missing", k), String::new());
                }
            }
        }
    }
    for k in seen.keys() {
        if !m.ws.contains_key(k) {
            bad(ctx, &format!("witness-field-{}-appeared", k), String::new());
        }
    }
    // stable under a further load
    match guard(|| FixedTransaction::from_bytes(out.clone())) {
        Ok(Ok(again)) => {
            if again.to_bytes() != out {
                bad(ctx, "reload-changes-bytes", hx(&out));
            }
            if again.raw_body() != m.body || again.transaction_hash().to_bytes() != blake2b256(&m.body) {
                bad(ctx, "reload-changes-body-or-hash", String::new());
            }
        }
        Ok(Err(e)) => bad(ctx, "own-output-rejected", format!("{:?} ; {}", e, hx(&out))),
        Err(p) => bad(ctx, "reload-panics", p.msg),
    }
}

fn sc_fixed_tx(max_ops: usize) -> impl Fn(&mut Ctx) + Sync {
    move |ctx: &mut Ctx| {
        let which = ctx.choose_free(5);
        // free choices first: they shard the exploration evenly over the workers
        let load = ctx.choose_free(4);
        let n_ops = ctx.choose_free(max_ops + 1);
        let ops: Vec<Op> = (0..n_ops).map(|_| OPS[ctx.choose_free(OPS.len())]).collect();
        let base = base_tx(which);
        let mut applied = Vec::new();
        let tree = deviate(ctx, &base, &mut applied);
        let e = refcbor::emit(&tree);
        ctx.observe(&(&e, load, ops.iter().map(|o| format!("{:?}", o)).collect::<Vec<_>>()));
        let mut m = match model_of(&e) {
            Some(m) => m,
            None => return ctx.hit("not-a-transaction-shape"),
        };
        let what_e = e.clone();
        let ops_c = ops.clone();
        let what = move || format!("base {} load path {} ops {:?} input {}", which, load, ops_c, hx(&what_e));
        ctx.set_sample(|| what());
        let n = refcbor::parse(&e).unwrap();
        let top = n.as_array().unwrap();
        let loaded = guard(|| match load {
            0 => FixedTransaction::from_bytes(e.clone()).map_err(|x| format!("{:?}", x)),
            1 => FixedTransaction::from_hex(&hx(&e)).map_err(|x| format!("{:?}", x)),
            // only the body bytes: empty witness set, valid, no auxiliary data
            3 => FixedTransaction::new_from_body_bytes(&m.body).map_err(|x| format!("{:?}", x)),
            _ => {
                let ws = top[1].span(&e);
                match &m.aux {
                    Some(a) => FixedTransaction::new_with_auxiliary(&m.body, ws, a, m.is_valid).map_err(|x| format!("{:?}", x)),
                    None => FixedTransaction::new(&m.body, ws, m.is_valid).map_err(|x| format!("{:?}", x)),
                }
            }
        });
        let mut ft = match loaded {
            Err(p) => return ctx.violation(panic_sig(P, "load", &p), what()),
            Ok(Err(_)) => return ctx.hit("decoder-rejects"),
            Ok(Ok(ft)) => ft,
        };
        ctx.compared();
        ctx.hit("decoder-accepts");
        if load == 3 {
            m.aux = None;
            m.is_valid = true;
            m.ws.clear();
            ctx.hit("loaded-from-body-bytes-only");
        }
        if applied.is_empty() {
            ctx.hit("accepted:canonical-base");
        }
        for a in &applied {
            ctx.hit(match *a {
                "dev:wider-head" => "accepted:wider-head",
                "dev:indefinite-container" => "accepted:indefinite-container",
                "dev:chunked-string" => "accepted:chunked-string",
                "dev:unsorted-map-keys" => "accepted:unsorted-map-keys",
                "dev:duplicate-map-key" => "accepted:duplicate-map-key",
                "dev:repeated-element" => "accepted:repeated-element",
                "dev:set-tag-dropped" => "accepted:set-tag-dropped",
                "dev:emptied-set" => "accepted:emptied-set",
                _ => "accepted:set-tag-added",
            });
        }
        if !compare(ctx, &ft, &m, "after-load", &what) {
            return;
        }
        for (i, op) in ops.iter().enumerate() {
            match guard(|| apply_op(&mut ft, &mut m, *op)) {
                Err(p) => return ctx.violation(panic_sig(P, "op", &p), format!("{:?} ; {}", op, what())),
                Ok(Err((sig, d))) => return ctx.violation(sig, format!("{} ; op #{} {:?} ; {}", d, i, op, what())),
                Ok(Ok(())) => {}
            }
            let at = match op {
                Op::AddVkey(_) | Op::AddVkeyPresent => "after-add_vkey_witness",
                Op::SignVkey => "after-sign_and_add_vkey_signature",
                Op::AddBoot(_) | Op::AddBootPresent => "after-add_bootstrap_witness",
                Op::SignIcarus => "after-sign_icarus",
                Op::SignDaedalus => "after-sign_daedalus",
                Op::SetBody => "after-set_body",
                Op::SetBodyReencoded => "after-set_body-with-another-encoding-of-the-same-body",
                Op::SetAux => "after-set_auxiliary_data",
                Op::SetValid => "after-set_is_valid",
                Op::SetWs => "after-set_witness_set",
            };
            if !compare(ctx, &ft, &m, at, &what) {
                return;
            }
        }
        if n_ops >= 2 {
            ctx.hit("history>=2");
        }
    }
}

/// C01 for the byte-preserving transaction type: a FixedTransaction reached by a load path and a
/// history of operations is a value built through the public API like any other, so it must
/// survive encode/decode - the decoded value has the same parts and re-encodes to the same bytes.
pub fn sc_roundtrip_after_history(max_ops: usize) -> impl Fn(&mut Ctx) + Sync {
    move |ctx: &mut Ctx| {
        let which = ctx.choose_free(5);
        let load = ctx.choose_free(4);
        let n_ops = ctx.choose_free(max_ops + 1);
        let ops: Vec<Op> = (0..n_ops).map(|_| OPS[ctx.choose_free(OPS.len())]).collect();
        let e = refcbor::emit(&base_tx(which));
        ctx.observe(&(which, load, ops.iter().map(|o| format!("{:?}", o)).collect::<Vec<_>>()));
        let mut m = match model_of(&e) {
            Some(m) => m,
            None => return,
        };
        let ops_c = ops.clone();
        let what = move || format!("FixedTransaction: base {} load path {} then {:?}", which, load, ops_c);
        ctx.set_sample(|| what());
        let n = refcbor::parse(&e).unwrap();
        let top = n.as_array().unwrap();
        let loaded = guard(|| match load {
            0 => FixedTransaction::from_bytes(e.clone()).map_err(|x| format!("{:?}", x)),
            1 => FixedTransaction::from_hex(&hx(&e)).map_err(|x| format!("{:?}", x)),
            3 => FixedTransaction::new_from_body_bytes(&m.body).map_err(|x| format!("{:?}", x)),
            _ => {
                let ws = top[1].span(&e);
                match &m.aux {
                    Some(a) => FixedTransaction::new_with_auxiliary(&m.body, ws, a, m.is_valid).map_err(|x| format!("{:?}", x)),
                    None => FixedTransaction::new(&m.body, ws, m.is_valid).map_err(|x| format!("{:?}", x)),
                }
            }
        });
        let mut ft = match loaded {
            Ok(Ok(ft)) => ft,
            _ => return,
        };
        for op in &ops {
            match guard(|| apply_op(&mut ft, &mut m, *op)) {
                Ok(Ok(())) => {}
                // what an operation itself does wrong is C04's subject
                _ => return,
            }
        }
        ctx.compared();
        let b = match guard(|| ft.to_bytes()) {
            Ok(b) => b,
            Err(p) => return ctx.violation(panic_sig("C01", "FixedTransaction::to_bytes", &p), what()),
        };
        if refcbor::parse(&b).is_err() {
            return ctx.violation("C01/FixedTransaction/to_bytes-not-well-formed".to_string(), format!("{} ; {}", what(), hx(&b)));
        }
        let back = match guard(|| FixedTransaction::from_bytes(b.clone())) {
            Ok(Ok(x)) => x,
            Ok(Err(er)) => return ctx.violation("C01/FixedTransaction/from_bytes-rejects-own-output".to_string(), format!("{:?} ; {} ; {}", er, what(), hx(&b))),
            Err(p) => return ctx.violation(panic_sig("C01", "FixedTransaction::from_bytes", &p), what()),
        };
        if back.to_bytes() != b {
            ctx.violation("C01/FixedTransaction/re-encoding-differs".to_string(), format!("{} ; {}", what(), hx(&b)));
        }
        if ft.to_hex() != hx(&b) || FixedTransaction::from_hex(&ft.to_hex()).map(|x| x.to_bytes()).ok() != Some(b.clone()) {
            ctx.violation("C01/FixedTransaction/hex-entry-points-differ-from-bytes".to_string(), what());
        }
        let part = if back.witness_set() != ft.witness_set() {
            Some("witness-set")
        } else if back.body() != ft.body() || back.raw_body() != ft.raw_body() {
            Some("body")
        } else if back.is_valid() != ft.is_valid() {
            Some("is_valid")
        } else if back.auxiliary_data() != ft.auxiliary_data() || back.raw_auxiliary_data() != ft.raw_auxiliary_data() {
            Some("auxiliary-data")
        } else if back.transaction_hash().to_bytes() != ft.transaction_hash().to_bytes() {
            Some("transaction-hash")
        } else {
            None
        };
        match part {
            Some(p) => ctx.violation(format!("C01/FixedTransaction/decoded-value-differs/{}", p), format!("{} ; {}", what(), hx(&b))),
            None => ctx.hit("fixed-transaction-round-trips-after-history"),
        }
    }
}

// ---------------------------------------------------------------------------------------------
// datums

fn datum_bases() -> Vec<Node> {
    let big = |tag: u64, b: &[u8]| Node::tag(tag, Node::bytes(b));
    vec![
        datum_node(),
        // general constructor form, nested map with repeated and unsorted keys
        Node::tag(102, Node::arr(vec![Node::uint(7), Node::arr(vec![Node::map(vec![(Node::uint(2), Node::uint(0)), (Node::uint(1), Node::uint(0)), (Node::uint(2), Node::uint(9))]), Node::int(-5)])])),
        // integers: edges of the machine range, big numbers (minimal, with leading zeros, small enough for a plain int)
        Node::arr(vec![Node::uint(u64::MAX), Node::nint_arg(u64::MAX), big(2, &[1, 0, 0, 0, 0, 0, 0, 0, 0]), big(3, &[1, 0, 0, 0, 0, 0, 0, 0, 0]), big(2, &[0, 0, 5]), big(3, &[]), big(2, &[0xff; 8])]),
        // byte strings around the 64-byte Plutus chunk limit
        Node::arr(vec![Node::bytes(&[]), Node::bytes(&[0xab; 64]), Node::bytes(&[0xcd; 65]), Node::bytes(&[0xef; 130]).chunked(64)]),
        // constructor tags of the compact ranges
        Node::arr(vec![Node::tag(121, Node::arr(vec![])), Node::tag(127, Node::arr(vec![Node::uint(1)])), Node::tag(1280, Node::arr(vec![])), Node::tag(1400, Node::arr(vec![Node::uint(2)]).indef())]),
        Node::uint(7),
        Node::map(vec![]),
    ]
}

fn sc_datum(ctx: &mut Ctx) {
    let bases = datum_bases();
    let which = ctx.choose_free(bases.len());
    let mut applied = Vec::new();
    let tree = deviate(ctx, &bases[which], &mut applied);
    let e = refcbor::emit(&tree);
    let container = ctx.choose_free(7);
    ctx.observe(&(&e, container));
    let what = || format!("datum base {} container {} bytes {}", which, container, hx(&e));
    ctx.set_sample(|| what());
    let same = |ctx: &mut Ctx, got: &[u8], via: &str| {
        if got != &e[..] {
            ctx.violation(format!("{}/datum-bytes-changed/{}", P, via), format!("got {} ; {}", hx(got), what()));
        } else {
            ctx.hit("datum-preserved");
        }
    };
    let addr = addr_bytes(0x71, 4);
    match container {
        0 => match guard(|| PlutusData::from_bytes(e.clone())) {
            Err(p) => ctx.violation(panic_sig(P, "datum-decode", &p), what()),
            Ok(Err(_)) => ctx.hit("datum-rejected"),
            Ok(Ok(d)) => {
                ctx.compared();
                for a in &applied {
                    ctx.hit(match *a {
                        "dev:wider-head" => "datum-accepted:wider-head",
                        "dev:indefinite-container" => "datum-accepted:indefinite-container",
                        "dev:chunked-string" => "datum-accepted:chunked-string",
                        "dev:unsorted-map-keys" => "datum-accepted:unsorted-map-keys",
                        "dev:duplicate-map-key" => "datum-accepted:duplicate-map-key",
                        _ => "datum-accepted:other",
                    });
                }
                same(ctx, &d.to_bytes(), "PlutusData::to_bytes");
                same(ctx, &d.clone().to_bytes(), "clone");
                if hash_plutus_data(&d).to_bytes() != blake2b256(&e) {
                    ctx.violation(format!("{}/hash_plutus_data-not-over-original-bytes", P), what());
                }
                if let Ok(Ok(d2)) = guard(|| PlutusData::from_hex(&hx(&e))) {
                    same(ctx, &d2.to_bytes(), "from_hex");
                    if d2.to_hex() != hx(&e) {
                        ctx.violation(format!("{}/datum-bytes-changed/to_hex", P), what());
                    }
                }
            }
        },
        1 | 2 => {
            // inside a PlutusList (definite / indefinite), with a second datum
            let mut l = Node::arr(vec![ph(), Node::uint(9)]);
            if container == 2 {
                l = l.indef();
            }
            let lb = splice(&l, 0, &e);
            if let Ok(Ok(pl)) = guard(|| PlutusList::from_bytes(lb.clone())) {
                ctx.compared();
                let ob = pl.to_bytes();
                match refcbor::parse(&ob).ok().and_then(|n| n.as_array().map(|a| a[0].span(&ob).to_vec())) {
                    Some(s) => same(ctx, &s, "PlutusList"),
                    None => ctx.violation(format!("{}/datum-container-malformed/PlutusList", P), hx(&ob)),
                }
                if pl.len() > 0 {
                    same(ctx, &pl.get(0).to_bytes(), "PlutusList::get");
                }
            }
        }
        3 => {
            // witness set field 4
            let w = Node::map(vec![(Node::uint(4), Node::tag(258, Node::arr(vec![ph()])))]);
            let wb = splice(&w, 0, &e);
            if let Ok(Ok(ws)) = guard(|| TransactionWitnessSet::from_bytes(wb.clone())) {
                ctx.compared();
                let ob = ws.to_bytes();
                match refcbor::parse(&ob).ok().and_then(|n| n.map_get(4).and_then(|f| f.set_items().and_then(|i| i.get(0).map(|x| x.span(&ob).to_vec())))) {
                    Some(s) => same(ctx, &s, "TransactionWitnessSet"),
                    None => ctx.violation(format!("{}/datum-container-malformed/TransactionWitnessSet", P), hx(&ob)),
                }
            }
        }
        4 => {
            // redeemer
            let r = Node::arr(vec![Node::uint(0), Node::uint(3), ph(), Node::arr(vec![Node::uint(1), Node::uint(2)])]);
            let rb = splice(&r, 0, &e);
            if let Ok(Ok(red)) = guard(|| Redeemer::from_bytes(rb.clone())) {
                ctx.compared();
                let ob = red.to_bytes();
                match refcbor::parse(&ob).ok().and_then(|n| n.as_array().and_then(|a| a.get(2).map(|x| x.span(&ob).to_vec()))) {
                    Some(s) => same(ctx, &s, "Redeemer"),
                    None => ctx.violation(format!("{}/datum-container-malformed/Redeemer", P), hx(&ob)),
                }
                same(ctx, &red.data().to_bytes(), "Redeemer::data");
            }
        }
        5 => {
            // inline datum of an output
            let o = Node::map(vec![(Node::uint(0), Node::bytes(&addr)), (Node::uint(1), Node::uint(2_000_000)), (Node::uint(2), Node::arr(vec![Node::uint(1), Node::tag(24, Node::bytes(&e))]))]);
            let ob_in = refcbor::emit(&o);
            if let Ok(Ok(out)) = guard(|| TransactionOutput::from_bytes(ob_in.clone())) {
                ctx.compared();
                let ob = out.to_bytes();
                let got = refcbor::parse(&ob).ok().and_then(|n| n.map_get(2).and_then(|d| d.as_array().and_then(|a| a.get(1).and_then(|t| t.as_tag().and_then(|(_, b)| b.as_bytes().map(|x| x.to_vec()))))));
                match got {
                    Some(s) => same(ctx, &s, "TransactionOutput-inline-datum"),
                    None => ctx.violation(format!("{}/datum-container-malformed/TransactionOutput", P), hx(&ob)),
                }
                if let Some(d) = out.plutus_data() {
                    same(ctx, &d.to_bytes(), "TransactionOutput::plutus_data");
                    if hash_plutus_data(&d).to_bytes() != blake2b256(&e) {
                        ctx.violation(format!("{}/hash_plutus_data-not-over-original-bytes/inline-datum", P), what());
                    }
                }
            } else {
                ctx.hit("datum-rejected");
            }
        }
        _ => {
            // whole transaction, plain (not byte-preserving) type: the datum in the witness set
            let body = Node::map(vec![(Node::uint(0), Node::arr(vec![])), (Node::uint(1), Node::arr(vec![])), (Node::uint(2), Node::uint(0))]);
            let t = Node::arr(vec![body, Node::map(vec![(Node::uint(4), Node::arr(vec![ph()]))]), Node::boolean(true), Node::null()]);
            let tb = splice(&t, 0, &e);
            if let Ok(Ok(tx)) = guard(|| Transaction::from_bytes(tb.clone())) {
                ctx.compared();
                let ob = tx.to_bytes();
                let got = refcbor::parse(&ob).ok().and_then(|n| n.as_array().and_then(|a| a.get(1).and_then(|w| w.map_get(4)).and_then(|f| f.set_items().and_then(|i| i.get(0).map(|x| x.span(&ob).to_vec())))));
                match got {
                    Some(s) => same(ctx, &s, "Transaction"),
                    None => ctx.violation(format!("{}/datum-container-malformed/Transaction", P), hx(&ob)),
                }
            }
        }
    }
}

/// emit `n` with its placeholder node replaced by raw bytes
fn ph() -> Node {
    Node::bytes(b"<<placeholder>>")
}
fn splice(n: &Node, _k: usize, raw: &[u8]) -> Vec<u8> {
    let b = refcbor::emit(n);
    let pat = refcbor::emit(&ph());
    let at = b.windows(pat.len()).position(|w| w == &pat[..]).expect("no placeholder");
    let mut out = b[..at].to_vec();
    out.extend_from_slice(raw);
    out.extend_from_slice(&b[at + pat.len()..]);
    out
}

// ---------------------------------------------------------------------------------------------
// bodies inside a block

fn sc_block(ctx: &mut Ctx) {
    thread_local! {
        static BLOCK: (Vec<u8>, Node) = {
            let mut c = Ctx::new(vec![], crate::engine::Mode::Full, 1);
            crate::gen::reset_flags();
            let b = crate::gen::g_block(&mut c).to_bytes();
            let n = refcbor::parse(&b).unwrap();
            (b, n)
        };
    }
    let which = ctx.choose_free(2);
    let body_base = match base_tx(1 + which).kind {
        Kind::Array(a) => a[0].clone(),
        _ => unreachable!(),
    };
    let mut applied = Vec::new();
    let body = deviate(ctx, &body_base, &mut applied);
    let bb = refcbor::emit(&body);
    let (block_bytes, spans) = BLOCK.with(|(b, n)| {
        // [header, [bodies], [witness sets], {aux}, [invalid]] with our two bodies
        let top = n.as_array().unwrap();
        let mut out = vec![0x85];
        out.extend_from_slice(top[0].span(b));
        out.push(0x82);
        let s0 = out.len();
        out.extend_from_slice(&bb);
        let s1 = out.len();
        let second = refcbor::emit(&body_base);
        out.extend_from_slice(&second);
        let s2 = out.len();
        out.extend_from_slice(&[0x82, 0xa0, 0xa0, 0xa0, 0x80]);
        (out, vec![(s0, s1), (s1, s2)])
    });
    ctx.observe(&block_bytes);
    let what = || format!("block with body {}", hx(&bb));
    ctx.set_sample(|| what());
    match guard(|| FixedBlock::from_bytes(block_bytes.clone())) {
        Err(p) => ctx.violation(panic_sig(P, "block-decode", &p), what()),
        Ok(Err(_)) => ctx.hit("block-rejected"),
        Ok(Ok(fb)) => {
            ctx.compared();
            ctx.hit("block-accepted");
            let bodies = fb.transaction_bodies();
            if bodies.len() != 2 {
                return ctx.violation(format!("{}/block/body-count", P), what());
            }
            for (i, (s, e)) in spans.iter().enumerate() {
                let fbody = bodies.get(i);
                if fbody.original_bytes() != &block_bytes[*s..*e] {
                    ctx.violation(format!("{}/block/body-original-bytes-differ", P), format!("body {} ; {}", i, what()));
                }
                if fbody.tx_hash().to_bytes() != blake2b256(&block_bytes[*s..*e]) {
                    ctx.violation(format!("{}/block/tx-hash-not-over-original-bytes", P), format!("body {} ; {}", i, what()));
                }
            }
            match guard(|| FixedTransactionBody::from_bytes(bb.clone())) {
                Ok(Ok(f)) => {
                    if f.original_bytes() != bb || f.tx_hash().to_bytes() != blake2b256(&bb) {
                        ctx.violation(format!("{}/FixedTransactionBody/bytes-or-hash-differ", P), what());
                    }
                }
                _ => ctx.violation(format!("{}/FixedTransactionBody/rejects-what-the-block-decoder-accepts", P), what()),
            }
        }
    }
}

// ---------------------------------------------------------------------------------------------

pub fn scenario(name: &str, tier: Tier) -> Option<BoxedScenario> {
    match name {
        "fixed_tx" => Some(Box::new(sc_fixed_tx(if tier.thorough() { 3 } else { 2 }))),
        "fixed_tx_pairs" => Some(Box::new(sc_fixed_tx(1))),
        "datum" | "datum_pairs" => Some(Box::new(sc_datum)),
        "block" => Some(Box::new(sc_block)),
        _ => None,
    }
}

pub fn run(tier: Tier, seed: u64) -> i32 {
    let mut rep = Report::new(P, tier, seed);
    rep.rule = "fixed_tx: 5 base transactions (the pre-Alonzo 3-element layout with metadata; minimal; full Conway body + all 8 witness fields + tag-259 auxiliary data, sets tagged; the same untagged with is_valid=false; legacy array redeemers + Shelley metadata, witness keys out of order) as refcbor trees x every tree with <= B encoding deviations (menu per node: each wider head, indefinite container, string in 1 / 2 chunks / with an empty first chunk, adjacent map entries swapped, map entry repeated, array element repeated, set emptied, set tag dropped / added) x load path {from_bytes, from_hex, new/new_with_auxiliary from the cut-out parts, new_from_body_bytes from the body span alone} x every history of <= L operations over {add_vkey_witness new x2 / already present, sign_and_add_vkey_signature, add_bootstrap_witness new / present, sign icarus, sign daedalus, set_body (another body / another encoding of the same body), set_auxiliary_data, set_is_valid, set_witness_set}. After load and after every operation: raw_body, raw_auxiliary_data, transaction_hash, and in to_bytes the body span, the auxiliary span, is_valid and every untouched witness field's value span are the input's bytes (or the setter's argument); a touched field holds the old elements then the new ones once each; signatures added by the sign helpers verify (cryptoxide) over Blake2b-256 of the current raw body; the output reloads to itself. datum: 7 base datums x <= B deviations x 7 containers (stand-alone + from_hex, PlutusList definite/indefinite, witness set, redeemer, inline datum of an output, plain Transaction): the datum's bytes come back verbatim and hash_plutus_data == Blake2b-256(input). block: the two rich bodies x <= B deviations inside a block: FixedBlock/FixedTransactionBody original_bytes and tx_hash.".into();
    rep.assume("only inputs the decoder accepts are judged (rejecting an encoding is C01/C02's subject); per deviation kind at least one accepted input is required (required_hits), so acceptance is not vacuous");
    rep.assume("the order of witness-set keys in the output and the encoding of a touched signature field are not constrained by the property");
    rep.trusted_base = vec!["harness/src/refcbor.rs (spans)".into(), "cryptoxide blake2b / ed25519".into()];
    rep.required_hits = vec![
        "loaded-from-body-bytes-only",
        "decoder-accepts",
        "decoder-rejects",
        "accepted:canonical-base",
        "accepted:wider-head",
        "accepted:indefinite-container",
        "accepted:chunked-string",
        "accepted:unsorted-map-keys",
        "accepted:repeated-element",
        "accepted:set-tag-dropped",
        "accepted:set-tag-added",
        "untouched-field-preserved",
        "touched-field-has-old-and-new",
        "history>=2",
        "datum-preserved",
        "datum-accepted:wider-head",
        "datum-accepted:indefinite-container",
        "datum-accepted:chunked-string",
        "datum-accepted:unsorted-map-keys",
        "datum-accepted:duplicate-map-key",
        "block-accepted",
    ];
    let b1 = Opts::new(seed).bound(1);
    let f = scenario("fixed_tx", tier).unwrap();
    rep.add("fixed_tx", "<= 1 encoding deviation x load paths x operation histories", explore("fixed_tx", &*f, &b1));
    let f = scenario("datum", tier).unwrap();
    rep.add("datum", "<= 2 encoding deviations x containers", explore("datum", &*f, &Opts::new(seed).bound(2)));
    let f = scenario("block", tier).unwrap();
    rep.add("block", "<= 1 encoding deviation", explore("block", &*f, &b1));
    if tier.thorough() {
        let f = scenario("fixed_tx_pairs", tier).unwrap();
        rep.add("fixed_tx_pairs", "<= 2 encoding deviations x load paths x histories <= 1", explore("fixed_tx_pairs", &*f, &Opts::new(seed).bound(2)));
        let f = scenario("datum_pairs", tier).unwrap();
        rep.add("datum_pairs", "<= 3 encoding deviations x containers", explore("datum_pairs", &*f, &Opts::new(seed).bound(3)));
    }
    rep.bound("deviations_fixed_tx", serde_json::json!(if tier.thorough() { 2 } else { 1 }));
    rep.bound("deviations_datum", serde_json::json!(if tier.thorough() { 3 } else { 2 }));
    rep.bound("history_length", serde_json::json!(if tier.thorough() { 3 } else { 2 }));
    rep.finish()
}
