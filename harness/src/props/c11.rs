//! C11 — address encodings are lossless and classified by their header.
//!
//! Reference: a classifier written from CIP-19 (header nibble -> kind, network, credential kinds,
//! exact length; pointer = three terminated base-128 naturals that fit 64 bits) and, for Byron,
//! the CBOR layout [#6.24(bytes .cbor [root28, {?1: bytes, ?2: bytes .cbor u32}, type]), crc32].

use crate::alphabet::W;
use crate::engine::{explore, guard, panic_sig, Ctx, Opts};
use crate::fx::*;
use crate::props::BoxedScenario;
use crate::refcbor::{self, Node};
use crate::report::{Report, Tier};
use crate::util::*;
use bech32::ToBase32;
use cardano_serialization_lib as csl;
use csl::*;

const P: &str = "C11";

#[derive(Clone, Debug, PartialEq)]
pub enum RefAddr {
    Base { net: u8, pay_script: bool, pay: Vec<u8>, stake_script: bool, stake: Vec<u8> },
    Pointer { net: u8, pay_script: bool, pay: Vec<u8>, ptr: (u64, u64, u64), canonical: bool },
    Enterprise { net: u8, pay_script: bool, pay: Vec<u8> },
    Reward { net: u8, pay_script: bool, pay: Vec<u8> },
}

fn varnat(b: &[u8]) -> Option<(u64, usize, bool)> {
    // (value, bytes used, canonical i.e. no leading 0x80)
    let mut v: u128 = 0;
    for (i, x) in b.iter().enumerate() {
        v = (v << 7) | (x & 0x7f) as u128;
        if v > u64::MAX as u128 {
            return None;
        }
        if x & 0x80 == 0 {
            let canonical = i == 0 || b[0] != 0x80;
            return Some((v as u64, i + 1, canonical));
        }
    }
    None
}

pub fn varnat_enc(mut v: u64) -> Vec<u8> {
    let mut out = vec![(v & 0x7f) as u8];
    v >>= 7;
    while v > 0 {
        out.push((v & 0x7f) as u8 | 0x80);
        v >>= 7;
    }
    out.reverse();
    out
}

/// CIP-19 classification of Shelley-era address bytes; None = not a valid address.
pub fn classify(b: &[u8]) -> Option<RefAddr> {
    if b.is_empty() {
        return None;
    }
    let h = b[0];
    let net = h & 0x0f;
    let pay_script = h & 0x10 != 0;
    match h >> 4 {
        0..=3 => {
            if b.len() != 57 {
                return None;
            }
            Some(RefAddr::Base { net, pay_script, pay: b[1..29].to_vec(), stake_script: h & 0x20 != 0, stake: b[29..57].to_vec() })
        }
        4 | 5 => {
            if b.len() < 32 {
                return None;
            }
            let mut off = 29;
            let mut vals = [0u64; 3];
            let mut canonical = true;
            for k in 0..3 {
                let (v, n, c) = varnat(&b[off..])?;
                vals[k] = v;
                off += n;
                canonical &= c;
            }
            if off != b.len() {
                return None;
            }
            Some(RefAddr::Pointer { net, pay_script, pay: b[1..29].to_vec(), ptr: (vals[0], vals[1], vals[2]), canonical })
        }
        6 | 7 => {
            if b.len() != 29 {
                return None;
            }
            Some(RefAddr::Enterprise { net, pay_script, pay: b[1..29].to_vec() })
        }
        14 | 15 => {
            if b.len() != 29 {
                return None;
            }
            Some(RefAddr::Reward { net, pay_script, pay: b[1..29].to_vec() })
        }
        _ => None,
    }
}

fn cred_matches(c: &Credential, script: bool, hash: &[u8]) -> bool {
    if script {
        c.to_scripthash().map(|h| h.to_bytes() == hash).unwrap_or(false)
    } else {
        c.to_keyhash().map(|h| h.to_bytes() == hash).unwrap_or(false)
    }
}

/// does the library's view of `a` agree with the reference classification `r`?
fn agrees(a: &Address, r: &RefAddr) -> Result<(), String> {
    let kind = a.kind();
    let net = a.network_id().map_err(|e| format!("network_id: {:?}", e))?;
    match r {
        RefAddr::Base { net: n, pay_script, pay, stake_script, stake } => {
            if kind != AddressKind::Base {
                return Err(format!("kind {:?} expected Base", kind));
            }
            let b = BaseAddress::from_address(a).ok_or("BaseAddress::from_address = None")?;
            if net != *n || b.network_id() != *n {
                return Err(format!("network {} expected {}", net, n));
            }
            if !cred_matches(&b.payment_cred(), *pay_script, pay) || !cred_matches(&b.stake_cred(), *stake_script, stake) {
                return Err("credentials differ from header/payload".into());
            }
            if !cred_matches(&a.payment_cred().ok_or("payment_cred None")?, *pay_script, pay) {
                return Err("Address::payment_cred differs".into());
            }
        }
        RefAddr::Pointer { net: n, pay_script, pay, ptr, .. } => {
            if kind != AddressKind::Pointer {
                return Err(format!("kind {:?} expected Pointer", kind));
            }
            let p = PointerAddress::from_address(a).ok_or("PointerAddress::from_address = None")?;
            if net != *n {
                return Err(format!("network {} expected {}", net, n));
            }
            if !cred_matches(&p.payment_cred(), *pay_script, pay) {
                return Err("credential differs".into());
            }
            let sp = p.stake_pointer();
            let got = (u(&sp.slot_bignum()), u(&sp.tx_index_bignum()), u(&sp.cert_index_bignum()));
            if got != *ptr {
                return Err(format!("pointer {:?} expected {:?}", got, ptr));
            }
        }
        RefAddr::Enterprise { net: n, pay_script, pay } => {
            if kind != AddressKind::Enterprise {
                return Err(format!("kind {:?} expected Enterprise", kind));
            }
            let e = EnterpriseAddress::from_address(a).ok_or("EnterpriseAddress::from_address = None")?;
            if net != *n || !cred_matches(&e.payment_cred(), *pay_script, pay) {
                return Err("network/credential differ".into());
            }
        }
        RefAddr::Reward { net: n, pay_script, pay } => {
            if kind != AddressKind::Reward {
                return Err(format!("kind {:?} expected Reward", kind));
            }
            let e = RewardAddress::from_address(a).ok_or("RewardAddress::from_address = None")?;
            if net != *n || !cred_matches(&e.payment_cred(), *pay_script, pay) {
                return Err("network/credential differ".into());
            }
        }
    }
    Ok(())
}

fn ref_kind_name(r: &RefAddr) -> &'static str {
    match r {
        RefAddr::Base { .. } => "base",
        RefAddr::Pointer { .. } => "pointer",
        RefAddr::Enterprise { .. } => "enterprise",
        RefAddr::Reward { .. } => "reward",
    }
}

fn header_class(h: u8) -> &'static str {
    match h >> 4 {
        0..=3 => "base",
        4 | 5 => "pointer",
        6 | 7 => "enterprise",
        8 => "byron",
        14 | 15 => "reward",
        _ => "reserved",
    }
}

/// bytes of a transaction output holding `addr` (post-Alonzo map form or legacy array form)
fn output_bytes(addr: &[u8], legacy: bool) -> Vec<u8> {
    if legacy {
        refcbor::emit(&Node::arr(vec![Node::bytes(addr), Node::uint(1_000_000)]))
    } else {
        refcbor::emit(&Node::map(vec![(Node::uint(0), Node::bytes(addr)), (Node::uint(1), Node::uint(1_000_000))]))
    }
}

/// Embedded use: must always decode, re-encode verbatim, and carry invalid bytes as Malformed.
fn check_embedded(ctx: &mut Ctx, b: &[u8], valid: bool, strict: Option<&Address>, what: &str) {
    // invalid bytes that are a valid Shelley address followed by extra bytes get one label
    let label: String = if !valid {
        let mut l = what.to_string();
        for n in (1..b.len()).rev() {
            if let Some(r) = classify(&b[..n]) {
                l = format!("{}+trailing", ref_kind_name(&r));
                break;
            }
        }
        l
    } else {
        what.to_string()
    };
    let what = label.as_str();
    // what a valid address is expected to be written back as: its own bytes when canonical,
    // the canonical re-encoding of the same address otherwise (over-long pointer naturals)
    let expect_back: Vec<u8> = match (valid, strict) {
        (true, Some(s)) => s.to_bytes(),
        _ => b.to_vec(),
    };
    let expect_back = expect_back.as_slice();
    for legacy in [false, true] {
        let ob = output_bytes(b, legacy);
        ctx.compared();
        let site = if legacy { "TransactionOutput::from_bytes(legacy)" } else { "TransactionOutput::from_bytes" };
        match guard(|| TransactionOutput::from_bytes(ob.clone())) {
            Err(p) => ctx.violation(panic_sig(P, site, &p), format!("embedded {} address {}: {}", what, hx(b), p.msg)),
            Ok(Err(e)) => ctx.violation(format!("{}/embedded/undecodable/{}", P, what), format!("{} with address bytes {}: {:?}", site, hx(b), e)),
            Ok(Ok(out)) => {
                let a = out.address();
                if valid {
                    if a.is_malformed() {
                        ctx.violation(format!("{}/embedded/valid-address-as-malformed/{}", P, what), hx(b));
                    } else if let Some(s) = strict {
                        if &a != s {
                            ctx.violation(format!("{}/embedded/differs-from-strict-parse/{}", P, what), hx(b));
                        }
                    }
                } else {
                    if a.is_malformed() {
                        ctx.hit("malformed-carrier");
                    }
                    if !a.is_malformed() {
                        // invalid bytes taken for a proper address: it must at least be written back unchanged
                        ctx.hit("invalid-bytes-not-malformed");
                    }
                }
                match guard(|| out.to_bytes()) {
                    Err(p) => ctx.violation(panic_sig(P, "TransactionOutput::to_bytes", &p), hx(b)),
                    Ok(back) => {
                        // the property is about the address bytes inside the re-serialised output
                        // (the library may legitimately pick the array or the map form of the output)
                        let got_addr: Option<Vec<u8>> = refcbor::parse(&back).ok().and_then(|n| match n.as_array() {
                            Some(a) => a.get(0).and_then(|x| x.as_bytes().map(|b| b.to_vec())),
                            None => n.map_get(0).and_then(|x| x.as_bytes().map(|b| b.to_vec())),
                        });
                        if got_addr.as_deref() != Some(expect_back) {
                            let tag = if valid { "valid-reencoded-differently" } else { "invalid-bytes-not-verbatim" };
                            ctx.violation(
                                format!("{}/embedded/{}/{}", P, tag, what),
                                format!("output {} re-serialises as {} (address kind {:?})", hx(&ob), hx(&back), a.kind()),
                            );
                        }
                    }
                }
            }
        }
    }
    // TransactionUnspentOutput
    let ub = refcbor::emit(&Node::arr(vec![
        Node::arr(vec![Node::bytes(&hash32(7)), Node::uint(0)]),
        Node::map(vec![(Node::uint(0), Node::bytes(b)), (Node::uint(1), Node::uint(1_000_000))]),
    ]));
    match guard(|| TransactionUnspentOutput::from_bytes(ub.clone())) {
        Err(p) => ctx.violation(panic_sig(P, "TransactionUnspentOutput::from_bytes", &p), format!("{}: {}", hx(b), p.msg)),
        Ok(Err(e)) => ctx.violation(format!("{}/embedded-utxo/undecodable/{}", P, what), format!("{}: {:?}", hx(b), e)),
        Ok(Ok(uo)) => {
            if let Ok(back) = guard(|| uo.to_bytes()) {
                let got_addr: Option<Vec<u8>> = refcbor::parse(&back).ok().and_then(|n| n.as_array().and_then(|a| a.get(1).cloned())).and_then(|o| match o.as_array() {
                    Some(a) => a.get(0).and_then(|x| x.as_bytes().map(|b| b.to_vec())),
                    None => o.map_get(0).and_then(|x| x.as_bytes().map(|b| b.to_vec())),
                });
                if got_addr.as_deref() != Some(expect_back) {
                    ctx.violation(format!("{}/embedded-utxo/not-verbatim/{}", P, what), format!("{} -> {}", hx(&ub), hx(&back)));
                }
            }
        }
    }
}

fn check_roundtrips(ctx: &mut Ctx, a: &Address, b: &[u8], what: &str) {
    // bytes
    match guard(|| a.to_bytes()) {
        Ok(x) if x == b => {}
        Ok(x) => ctx.violation(format!("{}/to_bytes/differs/{}", P, what), format!("{} -> {}", hx(b), hx(&x))),
        Err(p) => ctx.violation(panic_sig(P, "Address::to_bytes", &p), p.msg.clone()),
    }
    // hex
    match guard(|| Address::from_hex(&a.to_hex())) {
        Ok(Ok(x)) if &x == a => {}
        other => ctx.violation(format!("{}/hex/roundtrip/{}", P, what), format!("{}: {:?}", hx(b), other.map(|r| r.map(|x| x.to_hex())))),
    }
    // bech32, default and arbitrary prefixes
    for prefix in [None, Some("x".to_string()), Some("addr_vk_weird".to_string()), Some("a".repeat(20))] {
        match guard(|| a.to_bech32(prefix.clone())) {
            Err(p) => ctx.violation(panic_sig(P, "Address::to_bech32", &p), p.msg.clone()),
            Ok(Err(e)) => ctx.violation(format!("{}/to_bech32/err/{}", P, what), format!("{} prefix {:?}: {:?}", hx(b), prefix, e)),
            Ok(Ok(s)) => {
                if let Some(p) = &prefix {
                    if !s.starts_with(&format!("{}1", p)) {
                        ctx.violation(format!("{}/to_bech32/prefix-ignored", P), s.clone());
                    }
                } else {
                    let want = match (a.kind(), a.network_id().ok()) {
                        (AddressKind::Reward, Some(0)) => "stake_test1",
                        (AddressKind::Reward, _) => "stake1",
                        (_, Some(0)) => "addr_test1",
                        _ => "addr1",
                    };
                    if !s.starts_with(want) {
                        ctx.violation(format!("{}/to_bech32/default-prefix/{}", P, what), format!("{} expected {}", s, want));
                    }
                }
                match guard(|| Address::from_bech32(&s)) {
                    Ok(Ok(x)) if &x == a => {}
                    other => ctx.violation(format!("{}/bech32/roundtrip/{}", P, what), format!("{}: {:?}", s, other.map(|r| r.map(|x| x.to_hex())))),
                }
            }
        }
    }
    // JSON
    match guard(|| a.to_json().and_then(|j| Address::from_json(&j))) {
        Ok(Ok(x)) if &x == a => {}
        other => ctx.violation(format!("{}/json/roundtrip/{}", P, what), format!("{}: {:?}", hx(b), other.map(|r| r.map(|x| x.to_hex())))),
    }
}

/// strict parsers on arbitrary bytes: accept iff the classifier accepts
fn check_strict(ctx: &mut Ctx, b: &[u8], what: &str) -> Option<Address> {
    let r = classify(b);
    ctx.compared();
    let parsed = match guard(|| Address::from_bytes(b.to_vec())) {
        Err(p) => {
            ctx.violation(panic_sig(P, "Address::from_bytes", &p), format!("{}: {}", hx(b), p.msg));
            return None;
        }
        Ok(x) => x,
    };
    // from_hex and from_bech32 must agree with from_bytes
    let via_hex = guard(|| Address::from_hex(&hx(b)));
    match (&parsed, &via_hex) {
        (Ok(a), Ok(Ok(h))) if a == h => {}
        (Err(_), Ok(Err(_))) => {}
        (_, Err(p)) => ctx.violation(panic_sig(P, "Address::from_hex", p), format!("{}: {}", hx(b), p.msg)),
        _ => ctx.violation(format!("{}/from_hex/disagrees-with-from_bytes/{}", P, what), hx(b)),
    }
    if let Ok(s) = bech32::encode("addr", b.to_base32()) {
        let via_b32 = guard(|| Address::from_bech32(&s));
        match (&parsed, &via_b32) {
            (Ok(a), Ok(Ok(h))) if a == h => {}
            (Err(_), Ok(Err(_))) => {}
            (_, Err(p)) => ctx.violation(panic_sig(P, "Address::from_bech32", p), format!("{}: {}", s, p.msg)),
            _ => ctx.violation(format!("{}/from_bech32/disagrees-with-from_bytes/{}", P, what), s.clone()),
        }
    }
    match (parsed, r) {
        (Ok(a), Some(r)) => {
            ctx.hit("strict-accept");
            if let Err(e) = agrees(&a, &r) {
                ctx.violation(format!("{}/classification/{}/{}", P, ref_kind_name(&r), what), format!("{}: {}", hx(b), e));
            }
            let canonical = !matches!(r, RefAddr::Pointer { canonical: false, .. });
            if canonical {
                check_roundtrips(ctx, &a, b, what);
            } else {
                ctx.hit("pointer-overlong-accepted");
                // same address value, canonical re-encoding
                let cb = a.to_bytes();
                match classify(&cb) {
                    Some(RefAddr::Pointer { ptr, .. }) => {
                        if let RefAddr::Pointer { ptr: p0, .. } = r {
                            if p0 != ptr {
                                ctx.violation(format!("{}/pointer/overlong-changes-value", P), hx(b));
                            }
                        }
                    }
                    _ => ctx.violation(format!("{}/pointer/overlong-reencodes-invalid", P), hx(b)),
                }
            }
            Some(a)
        }
        (Err(_), None) => {
            ctx.hit("strict-reject");
            None
        }
        (Ok(a), None) => {
            ctx.violation(
                format!("{}/strict-accepts-invalid/{}", P, what),
                format!("Address::from_bytes({}) = Ok(kind {:?}) but CIP-19 says invalid ({} bytes, header class {})", hx(b), a.kind(), b.len(), header_class(b[0])),
            );
            None
        }
        (Err(e), Some(r)) => {
            ctx.violation(format!("{}/strict-rejects-valid/{}/{}", P, ref_kind_name(&r), what), format!("{}: {:?}", hx(b), e));
            None
        }
    }
}

fn sc_raw(ctx: &mut Ctx) {
    let header = ctx.choose_free(256) as u8;
    let len = ctx.choose_free(81);
    let fill = ctx.choose_free(3);
    let mut b = Vec::with_capacity(len);
    if len > 0 {
        b.push(header);
        for i in 1..len {
            b.push(match fill {
                0 => 0x00,
                1 => 0xff,
                _ => i as u8,
            });
        }
    }
    if header >> 4 == 8 && len > 0 {
        // Byron-header bytes are handled by sc_byron_raw (separate oracle)
        byron_garbage(ctx, &b);
        return;
    }
    ctx.observe(&b);
    ctx.set_sample(|| format!("raw address bytes {}", hx(&b)));
    let class = if len == 0 { "empty" } else { header_class(header) };
    let exact = match class {
        "base" => 57,
        "enterprise" | "reward" => 29,
        "pointer" => 32,
        _ => 0,
    };
    if exact > 0 {
        if len == exact {
            ctx.hit("len-exact");
        } else if len + 1 == exact {
            ctx.hit("len-one-short");
        } else if len == exact + 1 {
            ctx.hit("len-one-long");
        }
    }
    if len == 0 {
        ctx.hit("len-empty");
    }
    let what: &'static str = match class {
        "base" => "base",
        "pointer" => "pointer",
        "enterprise" => "enterprise",
        "reward" => "reward",
        "empty" => "empty",
        _ => "reserved",
    };
    let strict = check_strict(ctx, &b, what);
    let valid = classify(&b).is_some();
    // trailing-byte / truncated sub-classes for embedded signatures
    let emb_what: String = if valid {
        what.to_string()
    } else if len == 0 {
        "empty".into()
    } else if exact > 0 && len > exact {
        format!("{}+trailing", what)
    } else if exact > 0 && len < exact {
        format!("{}-truncated", what)
    } else {
        what.to_string()
    };
    check_embedded(ctx, &b, valid, strict.as_ref(), &emb_what);
}

fn byron_garbage(ctx: &mut Ctx, b: &[u8]) {
    // bytes with a Byron header nibble that are not CBOR of a Byron address: strict parsers
    // must reject without panicking; embedded use keeps them verbatim.
    ctx.observe(&b);
    ctx.compared();
    let valid = byron_classify(b).is_some();
    for (site, r) in [
        ("Address::from_bytes", guard(|| Address::from_bytes(b.to_vec()).map(|_| ()).map_err(|e| format!("{:?}", e)))),
        ("ByronAddress::from_bytes", guard(|| ByronAddress::from_bytes(b.to_vec()).map(|_| ()).map_err(|e| format!("{:?}", e)))),
    ] {
        match r {
            Err(p) => ctx.violation(panic_sig(P, site, &p), format!("{}: {}", hx(b), p.msg)),
            Ok(Ok(())) if !valid => ctx.violation(format!("{}/byron/strict-accepts-invalid/{}", P, site), hx(b)),
            Ok(Err(e)) if valid => ctx.violation(format!("{}/byron/strict-rejects-valid/{}", P, site), format!("{}: {}", hx(b), e)),
            _ => ctx.hit("byron-garbage-rejected"),
        }
    }
    check_embedded(ctx, b, valid, None, "byron-header-garbage");
}

// ---------------------------------------------------------------------------------------------
// pointers

fn sc_pointer(ctx: &mut Ctx) {
    let a = *ctx.pick_free(&W);
    let b = *ctx.pick_free(&W);
    let c = *ctx.pick_free(&W);
    let script = ctx.choose_free(2) == 1;
    let net = *ctx.pick_free(&[0u8, 1, 15]);
    ctx.observe(&(a, b, c, script, net));
    ctx.set_sample(|| format!("pointer address net={} script={} pointer=({}, {}, {})", net, script, a, b, c));
    let cred = if script { cred_script(0) } else { cred_key(0) };
    let hash = if script { sh_bytes(0) } else { kh_bytes(0) };
    let mut want = vec![0x40 | if script { 0x10 } else { 0 } | net];
    want.extend(&hash);
    want.extend(varnat_enc(a));
    want.extend(varnat_enc(b));
    want.extend(varnat_enc(c));
    ctx.compared();
    let addr = match guard(|| PointerAddress::new(net, &cred, &Pointer::new_pointer(&bn(a), &bn(b), &bn(c))).to_address()) {
        Ok(x) => x,
        Err(p) => {
            ctx.violation(panic_sig(P, "PointerAddress::new", &p), p.msg.clone());
            return;
        }
    };
    let bytes = addr.to_bytes();
    if bytes != want {
        ctx.violation(format!("{}/pointer/to_bytes-differs-from-cip19", P), format!("({},{},{}) -> {} expected {}", a, b, c, hx(&bytes), hx(&want)));
    }
    if let Some(back) = check_strict(ctx, &want, "pointer") {
        if back != addr {
            ctx.violation(format!("{}/pointer/bytes-roundtrip-changes-value", P), format!("({},{},{})", a, b, c));
        }
    }
    check_embedded(ctx, &want, true, Some(&addr), "pointer");
}

/// hand-made natural-number encodings: canonical, over-long, too large, unterminated
fn sc_varint(ctx: &mut Ctx) {
    let enc: Vec<(&str, Vec<u8>)> = vec![
        ("1-byte", vec![0x00]),
        ("1-byte-max", vec![0x7f]),
        ("2-byte", vec![0x81, 0x00]),
        ("10-byte-max", varnat_enc(u64::MAX)),
        ("overlong-1", vec![0x80, 0x00]),
        ("overlong-2", vec![0x80, 0x80, 0x7f]),
        ("overlong-11", { let mut v = vec![0x80]; v.extend(varnat_enc(u64::MAX)); v }),
        ("too-large-2^64", vec![0x82, 0x80, 0x80, 0x80, 0x80, 0x80, 0x80, 0x80, 0x80, 0x00]),
        ("too-large-11", vec![0xff, 0xff, 0xff, 0xff, 0xff, 0xff, 0xff, 0xff, 0xff, 0xff, 0x7f]),
        ("unterminated-1", vec![0x80]),
        ("unterminated-3", vec![0xff, 0xff, 0xff]),
        ("empty", vec![]),
    ];
    let field = ctx.choose_free(3);
    let e = ctx.choose_free(enc.len());
    let trailing = ctx.choose_free(2) == 1;
    let (name, bytes) = &enc[e];
    match *name {
        "1-byte" | "1-byte-max" => ctx.hit("nat-1-byte"),
        "2-byte" => ctx.hit("nat-2-byte"),
        "10-byte-max" => ctx.hit("nat-10-byte"),
        n if n.starts_with("overlong") => ctx.hit("nat-overlong"),
        n if n.starts_with("unterminated") => ctx.hit("nat-unterminated"),
        _ => {}
    }
    let mut b = vec![0x41u8];
    b.extend(kh_bytes(1));
    for k in 0..3 {
        if k == field {
            b.extend(bytes);
        } else {
            b.push(0x05);
        }
    }
    if trailing {
        b.push(0x00);
    }
    ctx.observe(&b);
    ctx.set_sample(|| format!("pointer with {} natural in field {}{}: {}", name, field, if trailing { " + trailing byte" } else { "" }, hx(&b)));
    let strict = check_strict(ctx, &b, "pointer-varint");
    let valid = classify(&b).is_some();
    let what = if valid { "pointer".to_string() } else { format!("pointer-invalid-nat") };
    check_embedded(ctx, &b, valid, strict.as_ref(), &what);
}

// ---------------------------------------------------------------------------------------------
// typed construction of every Shelley kind x network

fn sc_shelley(ctx: &mut Ctx) {
    let kind = ctx.choose_free(10);
    let net = ctx.choose_free(16) as u8;
    ctx.observe(&(kind, net));
    let (addr, want): (Address, Vec<u8>) = match kind {
        0..=3 => {
            let ps = kind & 1 == 1;
            let ss = kind & 2 == 2;
            let pay = if ps { cred_script(0) } else { cred_key(0) };
            let st = if ss { cred_script(1) } else { cred_key(1) };
            let mut w = vec![(if ps { 0x10 } else { 0 }) | (if ss { 0x20 } else { 0 }) | net];
            w.extend(if ps { sh_bytes(0) } else { kh_bytes(0) });
            w.extend(if ss { sh_bytes(1) } else { kh_bytes(1) });
            (BaseAddress::new(net, &pay, &st).to_address(), w)
        }
        4 | 5 => {
            let ps = kind == 5;
            let mut w = vec![0x60 | (if ps { 0x10 } else { 0 }) | net];
            w.extend(if ps { sh_bytes(2) } else { kh_bytes(2) });
            (EnterpriseAddress::new(net, &if ps { cred_script(2) } else { cred_key(2) }).to_address(), w)
        }
        6 | 7 => {
            let ps = kind == 7;
            let mut w = vec![0xe0 | (if ps { 0x10 } else { 0 }) | net];
            w.extend(if ps { sh_bytes(2) } else { kh_bytes(2) });
            (RewardAddress::new(net, &if ps { cred_script(2) } else { cred_key(2) }).to_address(), w)
        }
        _ => {
            let ps = kind == 9;
            let mut w = vec![0x40 | (if ps { 0x10 } else { 0 }) | net];
            w.extend(if ps { sh_bytes(1) } else { kh_bytes(3) });
            w.extend(varnat_enc(2498243));
            w.extend(varnat_enc(27));
            w.extend(varnat_enc(3));
            (PointerAddress::new(net, &if ps { cred_script(1) } else { cred_key(3) }, &Pointer::new_pointer(&bn(2498243), &bn(27), &bn(3))).to_address(), w)
        }
    };
    ctx.set_sample(|| format!("typed address kind#{} network {} -> {}", kind, net, hx(&want)));
    ctx.compared();
    let bytes = addr.to_bytes();
    if bytes != want {
        ctx.violation(format!("{}/typed/to_bytes-differs-from-cip19", P), format!("kind#{} net {}: {} expected {}", kind, net, hx(&bytes), hx(&want)));
    }
    match classify(&want) {
        Some(r) => {
            if let Err(e) = agrees(&addr, &r) {
                ctx.violation(format!("{}/typed/classification", P), e);
            }
        }
        None => crate::engine::machinery("reference classifier rejects a typed address"),
    }
    if let Some(back) = check_strict(ctx, &want, "typed") {
        if back != addr {
            ctx.violation(format!("{}/typed/bytes-roundtrip-changes-value", P), hx(&want));
        }
    }
    check_embedded(ctx, &want, true, Some(&addr), "typed");
}

// ---------------------------------------------------------------------------------------------
// Byron

pub fn crc32(data: &[u8]) -> u32 {
    let mut crc: u32 = 0xffff_ffff;
    for b in data {
        crc ^= *b as u32;
        for _ in 0..8 {
            let mask = (!(crc & 1)).wrapping_add(1);
            crc = (crc >> 1) ^ (0xedb8_8320 & mask);
        }
    }
    !crc
}

#[derive(Clone, Debug, PartialEq)]
pub struct RefByron {
    pub root: Vec<u8>,
    pub payload: Option<Vec<u8>>,
    pub magic: Option<u32>,
    pub typ: u64,
}

pub fn byron_bytes(r: &RefByron) -> Vec<u8> {
    let mut attrs = Vec::new();
    if let Some(p) = &r.payload {
        attrs.push((Node::uint(1), Node::bytes(p)));
    }
    if let Some(m) = r.magic {
        attrs.push((Node::uint(2), Node::bytes(&refcbor::emit(&Node::uint(m as u64)))));
    }
    let inner = refcbor::emit(&Node::arr(vec![Node::bytes(&r.root), Node::map(attrs), Node::uint(r.typ)]));
    refcbor::emit(&Node::arr(vec![Node::tag(24, Node::bytes(&inner)), Node::uint(crc32(&inner) as u64)]))
}

/// structural validity of Byron address bytes (canonical CBOR only)
pub fn byron_classify(b: &[u8]) -> Option<RefByron> {
    let n = refcbor::parse(b).ok()?;
    let a = n.as_array()?;
    if a.len() != 2 || n.indefinite {
        return None;
    }
    let (t, inner) = a[0].as_tag()?;
    if t != 24 {
        return None;
    }
    let ib = inner.as_bytes()?;
    if a[1].as_uint()? != crc32(ib) as u64 {
        return None;
    }
    let i = refcbor::parse(ib).ok()?;
    let ia = i.as_array()?;
    if ia.len() != 3 || i.indefinite {
        return None;
    }
    let root = ia[0].as_bytes()?.to_vec();
    if root.len() != 28 {
        return None;
    }
    let m = ia[1].as_map()?;
    let mut payload = None;
    let mut magic = None;
    for (k, v) in m {
        match k.as_uint()? {
            1 => payload = Some(v.as_bytes()?.to_vec()),
            2 => {
                let mb = refcbor::parse(v.as_bytes()?).ok()?;
                let x = mb.as_uint()?;
                if x > u32::MAX as u64 {
                    return None;
                }
                magic = Some(x as u32);
            }
            _ => return None,
        }
    }
    let typ = ia[2].as_uint()?;
    if typ > 2 {
        return None;
    }
    let r = RefByron { root, payload, magic, typ };
    // only canonical encodings are claimed to re-encode verbatim
    if byron_bytes(&r) != b {
        return None;
    }
    Some(r)
}

fn check_byron_views(ctx: &mut Ctx, ba: &ByronAddress, r: &RefByron, b: &[u8]) {
    if ba.to_bytes() != b {
        ctx.violation(format!("{}/byron/to_bytes-differs", P), format!("{} -> {}", hx(b), hx(&ba.to_bytes())));
    }
    let want_magic = r.magic.unwrap_or(764824073);
    if ba.byron_protocol_magic() != want_magic {
        ctx.violation(format!("{}/byron/protocol-magic", P), format!("{} expected {}", ba.byron_protocol_magic(), want_magic));
    }
    let kind = match ba.byron_address_kind() {
        csl::legacy_address::ByronAddressType::ATPubKey => 0,
        csl::legacy_address::ByronAddressType::ATScript => 1,
        csl::legacy_address::ByronAddressType::ATRedeem => 2,
    };
    if kind != r.typ {
        ctx.violation(format!("{}/byron/address-type", P), format!("{} expected {}", kind, r.typ));
    }
    // attributes() is the CBOR of the attribute map
    let mut attrs = Vec::new();
    if let Some(p) = &r.payload {
        attrs.push((Node::uint(1), Node::bytes(p)));
    }
    if let Some(m) = r.magic {
        attrs.push((Node::uint(2), Node::bytes(&refcbor::emit(&Node::uint(m as u64)))));
    }
    if ba.attributes() != refcbor::emit(&Node::map(attrs)) {
        ctx.violation(format!("{}/byron/attributes", P), hx(&ba.attributes()));
    }
    let net = ba.network_id();
    match (want_magic, &net) {
        (764824073, Ok(1)) | (1, Ok(0)) | (2, Ok(0)) => {}
        (764824073, _) | (1, _) | (2, _) => ctx.violation(format!("{}/byron/network-id", P), format!("magic {} -> {:?}", want_magic, net)),
        (_, Err(_)) => {}
        (_, Ok(x)) => ctx.violation(format!("{}/byron/network-id-for-unknown-magic", P), format!("magic {} -> {}", want_magic, x)),
    }
    // base58
    let s = ba.to_base58();
    match guard(|| ByronAddress::from_base58(&s)) {
        Ok(Ok(x)) if &x == ba => {}
        other => ctx.violation(format!("{}/byron/base58-roundtrip", P), format!("{}: {:?}", s, other.map(|r| r.map(|x| x.to_base58())))),
    }
    if !ByronAddress::is_valid(&s) {
        ctx.violation(format!("{}/byron/is_valid-false-on-own-output", P), s.clone());
    }
    // through Address
    let a = ba.to_address();
    if a.kind() != AddressKind::Byron || a.to_bytes() != b {
        ctx.violation(format!("{}/byron/to_address", P), hx(b));
    }
    match guard(|| Address::from_bytes(b.to_vec())) {
        Ok(Ok(x)) if x == a => {}
        other => ctx.violation(format!("{}/byron/Address::from_bytes", P), format!("{}: {:?}", hx(b), other.map(|r| r.map(|x| x.to_hex())))),
    }
    if ByronAddress::from_address(&a).as_ref() != Some(ba) {
        ctx.violation(format!("{}/byron/from_address", P), hx(b));
    }
    // bech32 + JSON through Address
    match guard(|| a.to_bech32(None).and_then(|s| Address::from_bech32(&s))) {
        Ok(Ok(x)) if x == a => {}
        Ok(Err(_)) if net.is_err() => {} // default prefix needs a known network
        other => ctx.violation(format!("{}/byron/bech32-roundtrip", P), format!("{}: {:?}", hx(b), other.map(|r| r.map(|x| x.to_hex())))),
    }
    match guard(|| a.to_bech32(Some("addr".into())).and_then(|s| Address::from_bech32(&s))) {
        Ok(Ok(x)) if x == a => {}
        other => ctx.violation(format!("{}/byron/bech32-explicit-prefix-roundtrip", P), format!("{}: {:?}", hx(b), other.map(|r| r.map(|x| x.to_hex())))),
    }
}

fn byron_alphabet(ctx: &mut Ctx) -> RefByron {
    let payload = match ctx.choose_free(3) {
        0 => None,
        1 => Some(vec![0x42]),
        _ => Some((0..50u8).collect()),
    };
    let magic = *ctx.pick_free(&[None, Some(1u32), Some(2), Some(1097911063), Some(u32::MAX), Some(764824073), Some(764824072), Some(0), Some(23), Some(24), Some(255), Some(256), Some(65536)]);
    let root = vec![*ctx.pick_free(&[0x00u8, 0x5a, 0xff]); 28];
    let typ = ctx.choose_free(3) as u64;
    if payload.is_some() {
        ctx.hit("byron-with-payload");
    } else {
        ctx.hit("byron-no-payload");
    }
    if magic.is_some() {
        ctx.hit("byron-with-magic");
    } else {
        ctx.hit("byron-no-magic");
    }
    RefByron { root, payload, magic, typ }
}

fn sc_byron(ctx: &mut Ctx) {
    let r = byron_alphabet(ctx);
    let b = byron_bytes(&r);
    ctx.observe(&b);
    ctx.set_sample(|| format!("byron address {:?} = {}", r, hx(&b)));
    ctx.compared();
    match guard(|| ByronAddress::from_bytes(b.clone())) {
        Err(p) => ctx.violation(panic_sig(P, "ByronAddress::from_bytes", &p), format!("{}: {}", hx(&b), p.msg)),
        Ok(Err(e)) => ctx.violation(format!("{}/byron/strict-rejects-valid", P), format!("{:?}: {:?}", r, e)),
        Ok(Ok(ba)) => {
            check_byron_views(ctx, &ba, &r, &b);
            check_embedded(ctx, &b, true, Some(&ba.to_address()), "byron");
        }
    }
    // trailing byte must be rejected by the strict parsers
    let mut t = b.clone();
    t.push(0x00);
    for (site, res) in [
        ("ByronAddress::from_bytes", guard(|| ByronAddress::from_bytes(t.clone()).is_ok())),
        ("Address::from_bytes", guard(|| Address::from_bytes(t.clone()).is_ok())),
        ("ByronAddress::from_base58", guard(|| ByronAddress::from_base58(&base58(&t)).is_ok())),
    ] {
        match res {
            Err(p) => ctx.violation(panic_sig(P, site, &p), p.msg.clone()),
            Ok(true) => ctx.violation(format!("{}/byron/strict-accepts-trailing-bytes/{}", P, site), format!("{} + 00", hx(&b))),
            Ok(false) => ctx.hit("byron-trailing-rejected"),
        }
    }
}

fn sc_byron_icarus(ctx: &mut Ctx) {
    let k = ctx.choose_free(3) as u8;
    let magic = *ctx.pick_free(&[764824073u32, 1, 2, 42]);
    ctx.observe(&(k, magic));
    ctx.compared();
    match guard(|| ByronAddress::icarus_from_key(&bip32_pub(k), magic)) {
        Err(p) => ctx.violation(panic_sig(P, "ByronAddress::icarus_from_key", &p), p.msg.clone()),
        Ok(ba) => {
            let b = ba.to_bytes();
            ctx.set_sample(|| format!("icarus address key#{} magic {} = {}", k, magic, ba.to_base58()));
            match byron_classify(&b) {
                None => ctx.violation(format!("{}/byron/icarus-not-valid-byron-cbor", P), hx(&b)),
                Some(r) => {
                    let want_magic = if magic == 764824073 { None } else { Some(magic) };
                    if r.magic != want_magic || r.payload.is_some() || r.typ != 0 {
                        ctx.violation(format!("{}/byron/icarus-attributes", P), format!("{:?}", r));
                    }
                    check_byron_views(ctx, &ba, &r, &b);
                }
            }
        }
    }
}

/// every single-byte corruption of valid Byron addresses (and, thorough, every pair)
fn sc_byron_corrupt(pairs: bool) -> impl Fn(&mut Ctx) + Sync {
    move |ctx: &mut Ctx| {
        let which = ctx.choose_free(3);
        let r = match which {
            0 => RefByron { root: vec![0x5a; 28], payload: None, magic: None, typ: 0 },
            1 => RefByron { root: vec![0x5a; 28], payload: Some(vec![0x42]), magic: Some(1), typ: 0 },
            _ => RefByron { root: vec![0xff; 28], payload: Some((0..50u8).collect()), magic: Some(u32::MAX), typ: 2 },
        };
        let mut b = byron_bytes(&r);
        const SUBST: [u8; 12] = [0x00, 0x17, 0x18, 0x1a, 0x40, 0x58, 0x5f, 0x80, 0x82, 0x83, 0x9f, 0xff];
        let n_mut = if pairs { 2 } else { 1 };
        let mut desc = Vec::new();
        for _ in 0..n_mut {
            let pos = ctx.choose_free(b.len());
            let m = ctx.choose_free(SUBST.len() + 2);
            let old = b[pos];
            b[pos] = if m < SUBST.len() { SUBST[m] } else if m == SUBST.len() { old ^ 0x01 } else { old ^ 0x80 };
            desc.push((pos, old, b[pos]));
        }
        ctx.observe(&b);
        ctx.set_sample(|| format!("byron address #{} corrupted at {:?}: {}", which, desc, hx(&b)));
        ctx.compared();
        let valid = byron_classify(&b);
        for (site, res) in [
            ("ByronAddress::from_bytes", guard(|| ByronAddress::from_bytes(b.clone()).map(|x| x.to_bytes()).map_err(|e| format!("{:?}", e)))),
            ("Address::from_bytes", guard(|| Address::from_bytes(b.clone()).map(|x| x.to_bytes()).map_err(|e| format!("{:?}", e)))),
            ("ByronAddress::from_base58", guard(|| ByronAddress::from_base58(&base58(&b)).map(|x| x.to_bytes()).map_err(|e| format!("{:?}", e)))),
        ] {
            match res {
                Err(p) => ctx.violation(panic_sig(P, site, &p), format!("{}: {}", hx(&b), p.msg)),
                Ok(Ok(back)) => {
                    if valid.is_some() {
                        ctx.hit("byron-corruption-still-valid");
                        if back != b {
                            ctx.violation(format!("{}/byron/corrupt/valid-not-verbatim/{}", P, site), format!("{} -> {}", hx(&b), hx(&back)));
                        }
                    } else if site == "Address::from_bytes" && b[0] >> 4 != 8 {
                        // the corruption moved the first byte out of the Byron class; judged by sc_raw
                    } else {
                        ctx.violation(format!("{}/byron/corrupt/strict-accepts-invalid/{}", P, site), format!("{} accepted, re-encodes as {}", hx(&b), hx(&back)));
                    }
                }
                Ok(Err(_)) => {
                    ctx.hit("byron-corruption-rejected");
                    if valid.is_some() {
                        ctx.violation(format!("{}/byron/corrupt/strict-rejects-valid/{}", P, site), hx(&b));
                    }
                }
            }
        }
        if !pairs {
            check_embedded(ctx, &b, valid.is_some(), None, "byron-corrupted");
        }
    }
}

/// own base58 (Bitcoin alphabet) encoder
pub fn base58(data: &[u8]) -> String {
    const ALPHA: &[u8] = b"123456789ABCDEFGHJKLMNPQRSTUVWXYZabcdefghijkmnopqrstuvwxyz";
    let mut digits: Vec<u8> = vec![0];
    for &byte in data {
        let mut carry = byte as u32;
        for d in digits.iter_mut() {
            carry += (*d as u32) << 8;
            *d = (carry % 58) as u8;
            carry /= 58;
        }
        while carry > 0 {
            digits.push((carry % 58) as u8);
            carry /= 58;
        }
    }
    let mut s = String::new();
    for &b in data {
        if b == 0 {
            s.push('1');
        } else {
            break;
        }
    }
    if !(digits.len() == 1 && digits[0] == 0 && !data.is_empty() && data.iter().all(|x| *x == 0)) {
        for d in digits.iter().rev() {
            s.push(ALPHA[*d as usize] as char);
        }
    }
    s
}

fn sc_base58_text(ctx: &mut Ctx) {
    // malformed base58 text for the Byron parser
    let good = base58(&byron_bytes(&RefByron { root: vec![0x5a; 28], payload: None, magic: None, typ: 0 }));
    let cases: Vec<String> = vec![
        String::new(),
        "0".into(),
        "O".into(),
        "l".into(),
        "I".into(),
        " ".into(),
        "1".into(),
        "1111".into(),
        format!("{}0", good),
        format!("0{}", good),
        format!("{} ", good),
        good[..good.len() - 1].to_string(),
        good.to_uppercase(),
        "é".into(),
        "Ae2tdPwUPEZ".into(),
    ];
    let i = ctx.choose_free(cases.len());
    let s = &cases[i];
    ctx.observe(s);
    ctx.compared();
    match guard(|| (ByronAddress::from_base58(s).is_ok(), ByronAddress::is_valid(s))) {
        Err(p) => ctx.violation(panic_sig(P, "ByronAddress::from_base58", &p), format!("{:?}: {}", s, p.msg)),
        Ok((ok, valid)) => {
            if ok || valid {
                ctx.violation(format!("{}/byron/base58-accepts-malformed", P), format!("{:?}", s));
            } else {
                ctx.hit("base58-text-rejected");
            }
        }
    }
    match guard(|| ByronAddress::from_base58(&good)) {
        Ok(Ok(_)) => {}
        other => ctx.violation(format!("{}/byron/base58-rejects-good", P), format!("{:?}", other.map(|r| r.map(|x| x.to_base58())))),
    }
}

fn sc_bech32_text(ctx: &mut Ctx) {
    let a = base_addr(0, 1);
    let good = a.to_bech32(None).unwrap();
    let mut flipped = good.clone().into_bytes();
    let l = flipped.len();
    flipped[l - 1] = if flipped[l - 1] == b'q' { b'p' } else { b'q' };
    let cases: Vec<String> = vec![
        String::new(),
        "addr1".into(),
        "addr".into(),
        "1".into(),
        String::from_utf8(flipped).unwrap(),
        good.to_uppercase(),
        { let mut s = good.clone(); s.replace_range(6..7, "Q"); s },
        good.replace("addr1", "addr2"),
        format!("{}q", good),
        good[..good.len() - 1].to_string(),
        bech32::encode("addr", vec![0u8; 3].to_base32()).unwrap(),
        bech32::encode("addr", Vec::<u8>::new().to_base32()).unwrap(),
        "addr1é".into(),
    ];
    let i = ctx.choose_free(cases.len());
    let s = &cases[i];
    ctx.observe(s);
    ctx.compared();
    match guard(|| Address::from_bech32(s)) {
        Err(p) => ctx.violation(panic_sig(P, "Address::from_bech32", &p), format!("{:?}: {}", s, p.msg)),
        Ok(Ok(x)) => {
            // an all-upper-case bech32 string is legal bech32 and must decode to the same address
            if *s == good.to_uppercase() && x == a {
                ctx.hit("bech32-uppercase-accepted");
            } else {
                ctx.violation(format!("{}/bech32-accepts-malformed", P), format!("{:?} -> {}", s, x.to_hex()));
            }
        }
        Ok(Err(_)) => ctx.hit("bech32-text-rejected"),
    }
}

pub fn scenario(name: &str, _tier: Tier) -> Option<BoxedScenario> {
    Some(match name {
        "raw" => Box::new(sc_raw),
        "pointer" => Box::new(sc_pointer),
        "varint" => Box::new(sc_varint),
        "shelley" => Box::new(sc_shelley),
        "byron" => Box::new(sc_byron),
        "byron_icarus" => Box::new(sc_byron_icarus),
        "byron_corrupt" => Box::new(sc_byron_corrupt(false)),
        "byron_corrupt_pairs" => Box::new(sc_byron_corrupt(true)),
        "base58_text" => Box::new(sc_base58_text),
        "bech32_text" => Box::new(sc_bech32_text),
        _ => return None,
    })
}

pub fn run(tier: Tier, seed: u64) -> i32 {
    let mut rep = Report::new(P, tier, seed);
    if let Err(e) = refcbor::self_test() {
        crate::engine::machinery(format!("refcbor self-test failed: {}", e));
    }
    if crc32(b"123456789") != 0xcbf4_3926 {
        crate::engine::machinery("crc32 self-test failed");
    }
    rep.rule = "all 256 header bytes x payload lengths 0..=80 x 3 fill patterns through the strict parsers and embedded in outputs; all pointer triples over the width classes; hand-made natural-number encodings x field x trailing; every Shelley kind x network 0..15; Byron attribute combinations, every single-byte (thorough: pair) corruption; malformed Base58/Bech32 text. distinct = distinct byte strings".into();
    rep.assume("hash content is one of three fill patterns (content never influences classification)");
    rep.assume("over-long (leading 0x80) pointer naturals are valid addresses whose canonical re-encoding differs; only value identity is demanded for them");
    rep.assume("Byron: only canonical CBOR is claimed to re-encode verbatim; a corrupted Byron string that a strict parser accepts although it is not the canonical encoding of any address is reported");
    rep.trusted_base = vec!["CIP-19 transcription (classify)".into(), "Byron address CBOR layout + CRC32 (own implementation, test vector checked at start-up)".into(), "bech32 crate (text encoding of test inputs)".into()];
    rep.required_hits = vec![
        "len-exact", "len-one-short", "len-one-long", "len-empty", "strict-accept", "strict-reject", "malformed-carrier", "nat-1-byte", "nat-2-byte", "nat-10-byte",
        "nat-overlong", "nat-unterminated", "byron-with-payload", "byron-no-payload", "byron-with-magic", "byron-no-magic", "byron-corruption-rejected",
        "base58-text-rejected", "bech32-text-rejected",
    ];
    let opts = Opts::new(seed);
    let mut names = vec!["raw", "pointer", "varint", "shelley", "byron", "byron_icarus", "byron_corrupt", "base58_text", "bech32_text"];
    if tier.thorough() {
        names.push("byron_corrupt_pairs");
    }
    for name in names {
        let f = scenario(name, tier).unwrap();
        let st = explore(name, &*f, &opts);
        rep.add(name, "full product", st);
    }
    rep.finish()
}
