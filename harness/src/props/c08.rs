//! C08 — coin selection is sound under every random outcome.
//!
//! E1 with the RNG seam: every `gen_range(0..n)` of the random-improve strategies is a choice
//! point, so every sequence of random answers is executed. Space: offered UTxO sets (subsets of a
//! 7-entry table incl. two equal ADA values and asset carriers), pre-existing inputs (none /
//! foreign / one that is also offered), 4 output configurations, implicit input (withdrawal),
//! 4 strategies, offered order (as listed / reversed).

use crate::builder::with_rng;
use crate::engine::{explore, guard, panic_sig, Ctx, Opts};
use crate::fx::*;
use crate::props::BoxedScenario;
use crate::report::{Report, Tier};
use crate::util::*;
use cardano_serialization_lib as csl;
use csl::*;
use std::collections::{BTreeMap, BTreeSet};

const P: &str = "C08";

struct Entry {
    coin: u64,
    a: u64,
    b: u64,
}
const TABLE: [Entry; 8] = [
    Entry { coin: 3_000_000, a: 0, b: 0 },
    Entry { coin: 3_000_000, a: 0, b: 0 },
    Entry { coin: 10_000_000, a: 0, b: 0 },
    Entry { coin: 2_000_000, a: 20, b: 0 },
    Entry { coin: 2_000_000, a: 0, b: 70 },
    Entry { coin: 4_000_000, a: 20, b: 40 },
    Entry { coin: 1_200_000, a: 0, b: 0 },
    // index 7: the foreign pre-existing input (never offered)
    Entry { coin: 1_500_000, a: 0, b: 0 },
];
const N_OFFERABLE: usize = 7;

fn pol_a() -> ScriptHash {
    sh(0)
}
fn pol_b() -> ScriptHash {
    sh(1)
}
fn an() -> AssetName {
    AssetName::new(b"x".to_vec()).unwrap()
}

fn value_of(coin: u64, a: u64, b: u64) -> Value {
    let mut v = Value::new(&bn(coin));
    if a > 0 || b > 0 {
        let mut ma = MultiAsset::new();
        if a > 0 {
            ma.set_asset(&pol_a(), &an(), &bn(a));
        }
        if b > 0 {
            ma.set_asset(&pol_b(), &an(), &bn(b));
        }
        v.set_multiasset(&ma);
    }
    v
}

thread_local! {
    /// boundary mode: the lovelace of table entry 2 for this execution (0 = table value)
    static OVERRIDE2: std::cell::Cell<u64> = std::cell::Cell::new(0);
}
const DELTAS: [u64; 7] = [0, 1, 100, 3_000, 6_500, 9_000, 12_500];
fn coin(i: usize) -> u64 {
    let o = OVERRIDE2.with(|c| c.get());
    if i == 2 && o > 0 {
        o
    } else {
        TABLE[i].coin
    }
}

fn utxo(i: usize) -> TransactionUnspentOutput {
    let e = Entry { coin: coin(i), a: TABLE[i].a, b: TABLE[i].b };
    let addr = if i % 2 == 0 { enterprise_addr(i % 4) } else { base_addr(i % 4, 0) };
    TransactionUnspentOutput::new(&crate::builder::op_outpoint(i), &TransactionOutput::new(&addr, &value_of(e.coin, e.a, e.b)))
}

// the last configuration asks for one asset in three outputs (10 + 8 + 8 of A against UTxOs holding
// 20 each): the surplus of one pick covers the next output entirely but not the one after
// the one before it mixes a pure-ADA output with a token-carrying one (both orders)
const OUTS: [&[(u64, u64, u64)]; 8] = [&[(2_000_000, 0, 0), (2_000_000, 20, 0)], &[(2_000_000, 0, 10), (2_000_000, 0, 0)], &[(2_000_000, 0, 0)], &[(2_000_000, 0, 0), (5_000_000, 0, 0)], &[(2_000_000, 20, 0)], &[(3_000_000, 10, 10)], &[(2_500_000, 0, 0), (2_500_000, 0, 0)], &[(1_500_000, 10, 0), (1_500_000, 8, 0), (1_500_000, 8, 0)]];
const IMPLICIT: [u64; 3] = [0, 1_000_000, 20_000_000];

fn strategy(i: usize) -> CoinSelectionStrategyCIP2 {
    crate::builder::strategy(i as u8)
}
fn strategy_name(i: usize) -> &'static str {
    ["LargestFirst", "RandomImprove", "LargestFirstMultiAsset", "RandomImproveMultiAsset"][i]
}

/// builder with outputs, implicit input and pre-existing inputs set up
fn base_builder(outs: usize, implicit: usize, pre: &[usize]) -> TransactionBuilder {
    let mut tb = TransactionBuilder::new(&Params::mainnet().config());
    for (c, a, b) in OUTS[outs] {
        tb.add_output(&TransactionOutput::new(&enterprise_addr(3), &value_of(*c, *a, *b))).unwrap();
    }
    if IMPLICIT[implicit] > 0 {
        let mut w = WithdrawalsBuilder::new();
        w.add(&reward_key(1), &bn(IMPLICIT[implicit])).unwrap();
        tb.set_withdrawals_builder(&w);
    }
    let mut ib = TxInputsBuilder::new();
    for i in pre {
        ib.add_regular_utxo(&utxo(*i)).unwrap();
    }
    tb.set_inputs(&ib);
    tb
}

fn inputs_of(tb: &TransactionBuilder) -> Option<BTreeSet<(Vec<u8>, u64)>> {
    let mut c = tb.clone();
    c.set_fee(&bn(0));
    let body = guard(|| c.build()).ok()?.ok()?;
    let ins = body.inputs();
    Some((0..ins.len()).map(|i| (ins.get(i).transaction_id().to_bytes(), ins.get(i).index() as u64)).collect())
}

fn table_sum(idx: &BTreeSet<usize>) -> (u128, u128, u128) {
    let mut s = (0u128, 0u128, 0u128);
    for i in idx {
        s.0 += coin(*i) as u128;
        s.1 += TABLE[*i].a as u128;
        s.2 += TABLE[*i].b as u128;
    }
    s
}

fn required(tb: &TransactionBuilder) -> Option<(u128, u128, u128)> {
    let out = guard(|| tb.get_total_output()).ok()?.ok()?;
    let fee = guard(|| tb.min_fee()).ok()?.ok()?;
    let ma = out.multiasset();
    let a = ma.as_ref().map(|m| u(&m.get_asset(&pol_a(), &an()))).unwrap_or(0);
    let b = ma.as_ref().map(|m| u(&m.get_asset(&pol_b(), &an()))).unwrap_or(0);
    Some((u(&out.coin()) as u128 + u(&fee) as u128, a as u128, b as u128))
}

fn covered(have: (u128, u128, u128), implicit: u64, need: (u128, u128, u128)) -> bool {
    have.0 + implicit as u128 >= need.0 && have.1 >= need.1 && have.2 >= need.2
}

fn sc_select(max_offered: usize) -> impl Fn(&mut Ctx) + Sync {
    move |ctx: &mut Ctx| {
        let si = ctx.choose_free(4);
        let oi = ctx.choose_free(OUTS.len());
        let ii = ctx.choose_free(IMPLICIT.len());
        let pre_kind = ctx.choose_free(3);
        let mask = ctx.choose_free(1 << N_OFFERABLE);
        let reversed = ctx.choose_free(2) == 1;
        let mut offered: Vec<usize> = (0..N_OFFERABLE).filter(|i| mask & (1 << i) != 0).collect();
        if offered.len() > max_offered || (reversed && offered.len() < 2) {
            return;
        }
        let pre: Vec<usize> = match pre_kind {
            0 => vec![],
            1 => vec![7],
            _ => match offered.first() {
                Some(f) => vec![*f],
                None => return,
            },
        };
        if reversed {
            offered.reverse();
        }
        // boundary mode: entry 2 is worth exactly what is still missing before selection (outputs +
        // the minimum fee of the builder as it stands) plus a small delta, so that whether the fee of
        // the selected inputs themselves is accounted for decides the outcome
        OVERRIDE2.with(|c| c.set(0));
        let bd = ctx.choose_free(1 + DELTAS.len());
        if bd > 0 {
            if pre.contains(&2) || !offered.contains(&2) {
                return;
            }
            let tb0 = base_builder(oi, ii, &pre);
            let held: BTreeSet<usize> = pre.iter().cloned().collect();
            let v = match required(&tb0) {
                Some(need) => (need.0 + DELTAS[bd - 1] as u128).saturating_sub(table_sum(&held).0 + IMPLICIT[ii] as u128),
                None => return,
            };
            if v < 1_000_000 || v > 40_000_000 {
                return;
            }
            OVERRIDE2.with(|c| c.set(v as u64));
            ctx.hit("boundary-valued-utxo");
        }
        ctx.observe(&(si, oi, ii, pre_kind, mask, reversed, bd));
        ctx.set_sample(|| format!("{} ; outputs#{} ; implicit {} ; pre-existing {:?} ; offered {:?} ; entry2 {}", strategy_name(si), oi, IMPLICIT[ii], pre, offered, coin(2)));
        let mut tb = base_builder(oi, ii, &pre);
        let need_before = required(&tb);
        let pre_set: BTreeSet<usize> = pre.iter().cloned().collect();
        let held_before = table_sum(&pre_set);
        let mut pool = TransactionUnspentOutputs::new();
        for i in &offered {
            pool.add(&utxo(*i));
        }
        let res = with_rng(ctx, true, || guard(|| tb.add_inputs_from(&pool, strategy(si))));
        let calls = crate::builder::rng_calls();
        ctx.hit(match calls {
            0 => "rng:0-calls",
            1 => "rng:1-call",
            2..=3 => "rng:2-3-calls",
            _ => "rng:4+-calls",
        });
        ctx.observe(&calls);
        ctx.compared();
        let what = |tb: &TransactionBuilder| format!("{} outputs#{} implicit {} pre-existing {:?} offered {:?} entry2={} -> inputs {:?}", strategy_name(si), oi, IMPLICIT[ii], pre, offered, coin(2), inputs_of(tb).map(|s| s.iter().map(|o| crate::builder::WORLD.with(|_| (0..8).find(|i| &crate::builder::op_outpoint_key(*i) == o))).collect::<Vec<_>>()));
        if pre_kind == 2 {
            ctx.hit("offered-overlaps-pre-existing");
        }
        match res {
            Err(p) => ctx.violation(panic_sig(P, "add_inputs_from", &p), format!("{} : {}", what(&tb), p.msg)),
            Ok(Err(e)) => {
                ctx.hit("selection-err");
                let msg = format!("{:?}", e);
                if msg.contains("Insufficient") || msg.contains("insufficient") {
                    // insufficiency may be reported only if everything offered does not suffice
                    let mut all = base_builder(oi, ii, &pre);
                    let mut ib = TxInputsBuilder::new();
                    let mut everything: BTreeSet<usize> = pre_set.clone();
                    for i in pre.iter().chain(offered.iter()) {
                        let _ = ib.add_regular_utxo(&utxo(*i));
                        everything.insert(*i);
                    }
                    all.set_inputs(&ib);
                    if let Some(need) = required(&all) {
                        if covered(table_sum(&everything), IMPLICIT[ii], need) && (si == 0 || si == 2) {
                            // largest-first family: must not give up while the whole set covers
                            ctx.violation(format!("{}/{}/reports-insufficient-although-all-offered-suffice", P, strategy_name(si)), format!("{} ; error {}", what(&tb), short(&msg, 100)));
                        } else if covered(table_sum(&everything), IMPLICIT[ii], need) {
                            ctx.hit("random-gives-up-although-all-suffice");
                        } else {
                            ctx.hit("insufficient-confirmed");
                        }
                    }
                }
            }
            Ok(Ok(())) => {
                ctx.hit("selection-ok");
                let ins = match inputs_of(&tb) {
                    Some(x) => x,
                    None => {
                        ctx.violation(format!("{}/cannot-read-inputs-after-selection", P), what(&tb));
                        return;
                    }
                };
                // map back to table indices
                let mut idx: BTreeSet<usize> = BTreeSet::new();
                for o in &ins {
                    match (0..8).find(|i| &crate::builder::op_outpoint_key(*i) == o) {
                        Some(i) => {
                            idx.insert(i);
                        }
                        None => ctx.violation(format!("{}/input-not-from-offered-set", P), what(&tb)),
                    }
                }
                for p0 in &pre {
                    if !idx.contains(p0) {
                        ctx.violation(format!("{}/pre-existing-input-removed", P), what(&tb));
                    }
                }
                let selected: BTreeSet<usize> = idx.difference(&pre_set).cloned().collect();
                for s in &selected {
                    if !offered.contains(s) {
                        ctx.violation(format!("{}/selected-input-was-not-offered", P), what(&tb));
                    }
                }
                if selected.len() >= 2 {
                    ctx.hit(">=2-selected");
                }
                // the builder's own bookkeeping must equal the table (an input recorded twice or
                // with another value would show here)
                if let Ok(Ok(ei)) = guard(|| tb.get_explicit_input()) {
                    let have = table_sum(&idx);
                    let ma = ei.multiasset();
                    let got = (u(&ei.coin()) as u128, ma.as_ref().map(|m| u(&m.get_asset(&pol_a(), &an()))).unwrap_or(0) as u128, ma.as_ref().map(|m| u(&m.get_asset(&pol_b(), &an()))).unwrap_or(0) as u128);
                    if got != have {
                        ctx.violation(format!("{}/explicit-input-differs-from-utxo-table", P), format!("builder says {:?}, table says {:?} ; {}", got, have, what(&tb)));
                    }
                }
                // coverage, judged on the table values of the actual inputs
                match required(&tb) {
                    None => ctx.violation(format!("{}/cannot-evaluate-requirement", P), what(&tb)),
                    Some(need) => {
                        let have = table_sum(&idx);
                        if !covered(have, IMPLICIT[ii], need) {
                            let which = if have.0 + (IMPLICIT[ii] as u128) < need.0 { "lovelace" } else { "asset" };
                            let cause = if pre_kind == 2 { "offered-utxo-already-in-builder" } else { "plain" };
                            ctx.violation(format!("{}/{}/success-but-not-covered/{}/{}", P, strategy_name(si), which, cause), format!("have {:?} + implicit {} need {:?} ; {}", have, IMPLICIT[ii], need, what(&tb)));
                        } else {
                            ctx.hit("covered");
                        }
                    }
                }
                // largest-first (ADA) specifics
                if si == 0 && pre_kind != 2 {
                    if let Some(nb) = need_before {
                        let needed_more = held_before.0 + (IMPLICIT[ii] as u128) < nb.0;
                        if needed_more && !selected.is_empty() {
                            ctx.hit("largest-first-had-to-select");
                            let min_sel = selected.iter().map(|i| coin(*i)).min().unwrap();
                            let max_unsel = offered.iter().filter(|i| !selected.contains(i)).map(|i| coin(*i)).max();
                            if let Some(mu) = max_unsel {
                                if mu > min_sel {
                                    ctx.violation(format!("{}/LargestFirst/not-in-non-increasing-order", P), format!("selected an input of {} while one of {} was left ; {}", min_sel, mu, what(&tb)));
                                }
                            }
                            // stops as soon as covered: without its smallest pick it is not covered
                            if selected.len() >= 1 {
                                let drop = *selected.iter().min_by_key(|i| (coin(**i), std::cmp::Reverse(**i))).unwrap();
                                let mut fewer = base_builder(oi, ii, &pre);
                                let mut ib = TxInputsBuilder::new();
                                let mut rest: BTreeSet<usize> = pre_set.clone();
                                for i in pre.iter().chain(selected.iter().filter(|i| **i != drop)) {
                                    let _ = ib.add_regular_utxo(&utxo(*i));
                                    rest.insert(*i);
                                }
                                fewer.set_inputs(&ib);
                                if let Some(need) = required(&fewer) {
                                    if covered(table_sum(&rest), IMPLICIT[ii], need) {
                                        ctx.violation(format!("{}/LargestFirst/does-not-stop-when-covered", P), format!("without input {} the requirement {:?} is already covered ; {}", drop, need, what(&tb)));
                                    } else {
                                        ctx.hit("largest-first-minimal");
                                    }
                                }
                            }
                            if selected.len() == offered.len() {
                                ctx.hit("largest-first-took-everything");
                            } else {
                                ctx.hit("largest-first-stopped-early");
                            }
                        } else if !needed_more {
                            ctx.hit("already-covered-before-selection");
                        }
                    }
                }
            }
        }
    }
}

pub fn scenario(name: &str, tier: Tier) -> Option<BoxedScenario> {
    match name {
        "select" => Some(Box::new(sc_select(if tier.thorough() { 7 } else { 6 }))),
        _ => None,
    }
}

pub fn run(tier: Tier, seed: u64) -> i32 {
    let mut rep = Report::new(P, tier, seed);
    let n = if tier.thorough() { 7 } else { 6 };
    rep.rule = format!("4 strategies x 6 output configurations (incl. two identical outputs, and one asset asked for by three outputs) x 3 implicit inputs x 3 pre-existing-input situations x every offered subset of size <= {} of a 7-entry table x offered order as listed / reversed x (table values | entry 2 worth exactly (outputs + min fee before selection - held) + delta for delta in 0,1,100,3000,6500,9000,12500) x EVERY sequence of RNG answers (selection, improvement swaps, fee top-up); distinct = distinct (scenario, RNG sequence, resulting input set)", n);
    rep.bound("max_offered", serde_json::json!(n));
    rep.assume("a UTxO set is a function: every offered outpoint has one owner and one value");
    rep.assume("the left side of the coverage inequality is computed from the scenario's table by outpoint, never from the builder's own totals");
    rep.trusted_base = vec!["min_fee() and get_total_output() of the builder for the right side of the coverage inequality (their correctness is C06 / C05)".into()];
    rep.required_hits = vec!["selection-ok", "selection-err", "covered", ">=2-selected", "rng:4+-calls", "largest-first-stopped-early", "largest-first-took-everything", "insufficient-confirmed", "offered-overlaps-pre-existing", "already-covered-before-selection", "boundary-valued-utxo"];
    let f = scenario("select", tier).unwrap();
    let st = explore("select", &*f, &Opts::new(seed));
    rep.add("select", "full product, RNG tree unbounded", st);
    let _: BTreeMap<u8, u8> = BTreeMap::new();
    rep.finish()
}
