//! C03 — emitted bytes conform to the Conway-era CDDL wire format.
//!
//! Space: the C01 value space (generators restricted to what validating constructors accept and
//! in-range arguments for plain setters) validated byte-by-byte by cddl.rs; the validating
//! constructors probed at and just beyond their bounds; every transaction produced by the builder
//! exploration (builder-output mode: additionally no zero-quantity asset / empty policy bundle).

use crate::cddl;
use crate::engine::{explore, guard, panic_sig, Ctx, Opts};
use crate::gen::{self, Codec, Mode};
use crate::props::BoxedScenario;
use crate::report::{Report, Tier};
use crate::util::*;
use cardano_serialization_lib as csl;
use csl::*;

const P: &str = "C03";

pub fn check<T: Codec>(ctx: &mut Ctx, v: &T) {
    let name = T::NAME;
    if matches!(name, "Address" | "Ed25519KeyHash" | "ScriptHash" | "TransactionHash" | "DataHash" | "AuxiliaryDataHash") {
        // to_bytes of these types is a raw byte string, not a CBOR item
        return;
    }
    let b = match guard(|| v.enc()) {
        Ok(b) => b,
        Err(p) => {
            ctx.violation(panic_sig(P, &format!("{}::to_bytes", name), &p), p.msg.clone());
            return;
        }
    };
    check_bytes(ctx, name, &b, false);
}

pub fn check_bytes(ctx: &mut Ctx, name: &str, b: &[u8], builder_mode: bool) {
    match cddl::validate(name, b, builder_mode) {
        None => ctx.hit("no-rule-for-type"),
        Some((errs, legacy)) => {
            ctx.compared();
            ctx.observe(&(name, b));
            if legacy {
                ctx.hit("legacy-shape");
            }
            if errs.is_empty() {
                ctx.hit("conforms");
            }
            for (kind, msg) in errs {
                ctx.violation(format!("{}/{}/{}", P, name, kind), format!("{} : {}", msg, short(&hx(b), 240)));
            }
        }
    }
}

/// validating constructors at and just beyond their bounds: beyond must be refused
fn sc_constructor_bounds(ctx: &mut Ctx) {
    let case = ctx.choose_free(9);
    let delta = ctx.choose_free(3) as i64 - 1; // -1, 0, +1 around the bound
    let fill = ctx.choose_free(2);
    ctx.observe(&(case, delta, fill));
    let (what, bound): (&str, i64) = [("AssetName", 32), ("URL", 128), ("DNSRecordAorAAAA", 128), ("DNSRecordSRV", 128), ("metadatum text", 64), ("metadatum bytes", 64), ("Ipv4", 4), ("Ipv6", 16), ("metadatum text (multi-byte)", 64)][case];
    let len = (bound + delta) as usize;
    ctx.set_sample(|| format!("{} of length {} (bound {})", what, len, bound));
    let s = if fill == 0 { "a".repeat(len) } else { "z".repeat(len) };
    let bytes = vec![if fill == 0 { 0u8 } else { 0xff }; len];
    let exact_only = case == 6 || case == 7;
    let expect_ok = if exact_only { delta == 0 } else { delta <= 0 };
    ctx.compared();
    let (ok, emitted): (bool, Option<(&'static str, Vec<u8>)>) = match case {
        0 => match guard(|| AssetName::new(bytes.clone())) { Ok(Ok(x)) => (true, Some(("AssetName", x.to_bytes()))), Ok(Err(_)) => (false, None), Err(p) => { ctx.violation(panic_sig(P, "AssetName::new", &p), p.msg.clone()); return; } },
        1 => match guard(|| URL::new(s.clone())) { Ok(Ok(x)) => (true, Some(("URL", x.to_bytes()))), Ok(Err(_)) => (false, None), Err(p) => { ctx.violation(panic_sig(P, "URL::new", &p), p.msg.clone()); return; } },
        2 => match guard(|| DNSRecordAorAAAA::new(s.clone())) { Ok(Ok(x)) => (true, Some(("DNSRecordAorAAAA", x.to_bytes()))), Ok(Err(_)) => (false, None), Err(p) => { ctx.violation(panic_sig(P, "DNSRecordAorAAAA::new", &p), p.msg.clone()); return; } },
        3 => match guard(|| DNSRecordSRV::new(s.clone())) { Ok(Ok(x)) => (true, Some(("DNSRecordSRV", x.to_bytes()))), Ok(Err(_)) => (false, None), Err(p) => { ctx.violation(panic_sig(P, "DNSRecordSRV::new", &p), p.msg.clone()); return; } },
        4 => match guard(|| TransactionMetadatum::new_text(s.clone())) { Ok(Ok(x)) => (true, Some(("TransactionMetadatum", x.to_bytes()))), Ok(Err(_)) => (false, None), Err(p) => { ctx.violation(panic_sig(P, "TransactionMetadatum::new_text", &p), p.msg.clone()); return; } },
        5 => match guard(|| TransactionMetadatum::new_bytes(bytes.clone())) { Ok(Ok(x)) => (true, Some(("TransactionMetadatum", x.to_bytes()))), Ok(Err(_)) => (false, None), Err(p) => { ctx.violation(panic_sig(P, "TransactionMetadatum::new_bytes", &p), p.msg.clone()); return; } },
        6 => match guard(|| Ipv4::new(bytes.clone())) { Ok(Ok(x)) => (true, Some(("Ipv4", x.to_bytes()))), Ok(Err(_)) => (false, None), Err(p) => { ctx.violation(panic_sig(P, "Ipv4::new", &p), p.msg.clone()); return; } },
        7 => match guard(|| Ipv6::new(bytes.clone())) { Ok(Ok(x)) => (true, Some(("Ipv6", x.to_bytes()))), Ok(Err(_)) => (false, None), Err(p) => { ctx.violation(panic_sig(P, "Ipv6::new", &p), p.msg.clone()); return; } },
        _ => {
            // the CDDL bounds the UTF-8 byte size, not the number of characters
            let chars = (len + 1) / 2;
            let t: String = "é".repeat(chars); // 2 bytes each
            let blen = t.len();
            match guard(|| TransactionMetadatum::new_text(t.clone())) {
                Ok(Ok(x)) => {
                    if blen > 64 {
                        ctx.violation(format!("{}/constructor-accepts-beyond-bound/metadatum text (multi-byte)", P), format!("{} characters = {} bytes accepted", chars, blen));
                    }
                    check_bytes(ctx, "TransactionMetadatum", &x.to_bytes(), false);
                }
                Ok(Err(_)) => {
                    if blen <= 64 {
                        ctx.violation(format!("{}/constructor-rejects-within-bound/metadatum text (multi-byte)", P), format!("{} bytes rejected", blen));
                    }
                }
                Err(p) => ctx.violation(panic_sig(P, "TransactionMetadatum::new_text", &p), p.msg.clone()),
            }
            return;
        }
    };
    if ok && !expect_ok {
        ctx.violation(format!("{}/constructor-accepts-beyond-bound/{}", P, what), format!("length {} accepted, bound {}", len, bound));
    }
    if !ok && expect_ok {
        ctx.violation(format!("{}/constructor-rejects-within-bound/{}", P, what), format!("length {} rejected, bound {}", len, bound));
    }
    ctx.hit(if ok { "constructor-accepts" } else { "constructor-rejects" });
    if let Some((name, b)) = emitted {
        check_bytes(ctx, name, &b, false);
    }
}

pub fn scenario(name: &str, tier: Tier) -> Option<BoxedScenario> {
    match name {
        "constructor_bounds" => Some(Box::new(sc_constructor_bounds)),
        _ => crate::props::c01::scenario_for(Mode::C03, name).or_else(|| crate::builder::scenario_for(P, name, tier)),
    }
}

pub fn run(tier: Tier, seed: u64) -> i32 {
    let mut rep = Report::new(P, tier, seed);
    if let Err(e) = crate::refcbor::self_test() {
        crate::engine::machinery(format!("refcbor self-test failed: {}", e));
    }
    rep.rule = "every generated value of every root type (as C01: all values within D deviations, presence products, PPU corners), every nested codec value that has a CDDL rule, validated by cddl.rs; validating constructors at bound-1/bound/bound+1; every transaction of the builder exploration in builder-output mode. distinct = distinct (type, bytes)".into();
    rep.assume("plain (non-validating) setters are given in-range arguments (tx index <= 65535, donation >= 1, network id 0/1, ...)");
    rep.assume("pre-Conway shapes the library still offers (update, MIR, genesis delegation, legacy registration certificates, array redeemers, legacy outputs, PPU keys 12-15) are validated against their Babbage shapes and counted as legacy-shape");
    rep.assume("the CDDL does not constrain map key order; canonical ordering is C16's subject. Blocks and headers are not parts of a transaction and have no rule here");
    rep.trusted_base = vec!["harness/src/cddl.rs = hand transcription of the Conway CDDL (notes/conway.cddl)".into(), "harness/src/refcbor.rs".into()];
    rep.required_hits = vec!["conforms", "legacy-shape", "constructor-accepts", "constructor-rejects"];
    crate::props::c01::run_generators(&mut rep, Mode::C03, tier, seed);
    let f = scenario("constructor_bounds", tier).unwrap();
    let st = explore("constructor_bounds", &*f, &Opts::new(seed));
    rep.add("constructor_bounds", "full product", st);
    crate::builder::explore_for(P, tier, seed, &mut rep);
    rep.finish()
}
