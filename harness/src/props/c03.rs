//! C03 — emitted bytes conform to the Conway CDDL (filled in below).
use crate::engine::Ctx;
use crate::gen::Codec;
pub fn check<T: Codec>(_ctx: &mut Ctx, _v: &T) {}
