//! C17 — JSON forms and schema conversions (filled in below).
use crate::engine::Ctx;
use crate::gen::Codec;
pub fn check_typed<T: Codec>(_ctx: &mut Ctx, _v: &T) {}
