//! C17 — JSON forms round-trip and schema conversions behave as documented.

use crate::engine::{explore, guard, panic_sig, Ctx, Opts};
use crate::gen::{self, Codec, Mode};
use crate::props::BoxedScenario;
use crate::report::{Report, Tier};
use crate::util::*;
use cardano_serialization_lib as csl;
use csl::*;
use serde_json::{json, Value as J};

const P: &str = "C17";

// ---------------------------------------------------------------------------------------------
// (a) typed values

pub fn check_typed<T: Codec>(ctx: &mut Ctx, v: &T) {
    if !T::HAS_JSON {
        return;
    }
    let name = T::NAME;
    ctx.compared();
    let js = match guard(|| v.to_json_()) {
        Err(p) => {
            ctx.violation(panic_sig(P, &format!("{}::to_json", name), &p), p.msg.clone());
            return;
        }
        Ok(Err(e)) => {
            // the JSON form of metadata is the schema conversion, which the property makes conditional
            // ("whenever the first conversion succeeds"): a metadatum integer below -2^63 has no JSON
            // number; refusing it is the sanctioned outcome, for this reason only
            let bytes = v.enc();
            let beyond = crate::refcbor::parse(&bytes).map(|n| {
                let mut found = false;
                n.walk(&mut |x| {
                    if let crate::refcbor::Kind::NInt(a) = &x.kind {
                        if *a > i64::MAX as u64 {
                            found = true;
                        }
                    }
                });
                found
            }).unwrap_or(false);
            if beyond && e.contains("out of range integral type conversion") {
                ctx.hit("to_json-refuses-metadatum-int-below-i64-min");
            } else {
                ctx.violation(format!("{}/{}/to_json-fails", P, name), format!("{} : {}", short(&format!("{:?}", v), 200), short(&e, 200)));
            }
            return;
        }
        Ok(Ok(s)) => s,
    };
    ctx.observe(&(name, &js));
    let back = match guard(|| T::from_json_(&js)) {
        Err(p) => {
            ctx.violation(panic_sig(P, &format!("{}::from_json", name), &p), format!("{}: {}", short(&js, 200), p.msg));
            return;
        }
        Ok(Err(e)) => {
            ctx.violation(format!("{}/{}/from_json-rejects-own-output", P, name), format!("{} : {}", short(&js.replace('\n', " "), 300), short(&e, 200)));
            return;
        }
        Ok(Ok(x)) => x,
    };
    let relaxed = gen::EMPTY_OPTIONAL.with(|c| c.get());
    let vb = guard(|| v.enc());
    let bb = guard(|| back.enc());
    if !relaxed {
        if !back.same(v) {
            ctx.violation(
                format!("{}/{}/json-roundtrip-value-differs", P, name),
                format!("json {} ; original {} ; back {}", short(&js.replace('\n', " "), 200), short(&format!("{:?}", v), 250), short(&format!("{:?}", back), 250)),
            );
        }
        match (&vb, &bb) {
            (Ok(a), Ok(b)) if a == b => {}
            (Ok(a), Ok(b)) => ctx.violation(format!("{}/{}/json-roundtrip-bytes-differ", P, name), format!("{} vs {}", short(&hx(a), 160), short(&hx(b), 160))),
            _ => {}
        }
    }
    // JSON is a fixpoint after one pass, whatever the insertion order was
    match guard(|| back.to_json_()) {
        Ok(Ok(js2)) => {
            let a: Result<J, _> = serde_json::from_str(&js);
            let b: Result<J, _> = serde_json::from_str(&js2);
            match (a, b) {
                (Ok(a), Ok(b)) => {
                    if a != b {
                        ctx.violation(format!("{}/{}/json-not-a-fixpoint", P, name), format!("{} vs {}", short(&js.replace('\n', " "), 200), short(&js2.replace('\n', " "), 200)));
                    }
                }
                _ => ctx.violation(format!("{}/{}/to_json-not-json", P, name), short(&js, 200)),
            }
        }
        Ok(Err(e)) => ctx.violation(format!("{}/{}/to_json-fails-after-roundtrip", P, name), e),
        Err(p) => ctx.violation(panic_sig(P, &format!("{}::to_json", name), &p), p.msg.clone()),
    }
}

// ---------------------------------------------------------------------------------------------
// reference view of a metadatum

#[derive(Clone, Debug, PartialEq)]
enum RefMd {
    Int(i128),
    Bytes(Vec<u8>),
    Text(String),
    List(Vec<RefMd>),
    Map(Vec<(RefMd, RefMd)>),
}

fn view(m: &TransactionMetadatum) -> RefMd {
    match m.kind() {
        TransactionMetadatumKind::Int => RefMd::Int(m.as_int().unwrap().to_str().parse().unwrap()),
        TransactionMetadatumKind::Bytes => RefMd::Bytes(m.as_bytes().unwrap()),
        TransactionMetadatumKind::Text => RefMd::Text(m.as_text().unwrap()),
        TransactionMetadatumKind::MetadataList => {
            let l = m.as_list().unwrap();
            RefMd::List((0..l.len()).map(|i| view(&l.get(i))).collect())
        }
        TransactionMetadatumKind::MetadataMap => {
            let mm = m.as_map().unwrap();
            let keys = mm.keys();
            RefMd::Map((0..keys.len()).map(|i| (view(&keys.get(i)), view(&mm.get(&keys.get(i)).unwrap()))).collect())
        }
    }
}

fn ref_int(n: &serde_json::Number) -> Option<RefMd> {
    let s = n.to_string();
    if s.contains('.') || s.contains('e') || s.contains('E') {
        return None;
    }
    let v: i128 = s.parse().ok()?;
    if v > u64::MAX as i128 || v < i64::MIN as i128 {
        return None;
    }
    Some(RefMd::Int(v))
}
fn ref_text(s: &str) -> Option<RefMd> {
    if s.len() > 64 {
        None
    } else {
        Some(RefMd::Text(s.to_string()))
    }
}
fn ref_bytes(b: Vec<u8>) -> Option<RefMd> {
    if b.len() > 64 {
        None
    } else {
        Some(RefMd::Bytes(b))
    }
}
fn basic_string(s: &str) -> Option<RefMd> {
    if let Some(h) = s.strip_prefix("0x") {
        if let Ok(b) = hex::decode(h) {
            return ref_bytes(b);
        }
    }
    ref_text(s)
}

/// reference JSON -> metadata conversion; None = the document is outside the schema
fn ref_encode(j: &J, schema: MetadataJsonSchema) -> Option<RefMd> {
    match schema {
        MetadataJsonSchema::NoConversions | MetadataJsonSchema::BasicConversions => {
            let basic = schema == MetadataJsonSchema::BasicConversions;
            match j {
                J::Null | J::Bool(_) => None,
                J::Number(n) => ref_int(n),
                J::String(s) => {
                    if basic {
                        basic_string(s)
                    } else {
                        ref_text(s)
                    }
                }
                J::Array(a) => Some(RefMd::List(a.iter().map(|x| ref_encode(x, schema)).collect::<Option<Vec<_>>>()?)),
                J::Object(o) => {
                    let mut out: Vec<(RefMd, RefMd)> = Vec::new();
                    for (k, v) in o {
                        let key = if basic {
                            match k.parse::<i128>() {
                                Ok(x) if x <= u64::MAX as i128 && x >= -(u64::MAX as i128) - 1 => RefMd::Int(x),
                                _ => basic_string(k)?,
                            }
                        } else {
                            ref_text(k)?
                        };
                        let val = ref_encode(v, schema)?;
                        if let Some(e) = out.iter_mut().find(|e| e.0 == key) {
                            e.1 = val;
                        } else {
                            out.push((key, val));
                        }
                    }
                    Some(RefMd::Map(out))
                }
            }
        }
        MetadataJsonSchema::DetailedSchema => {
            let o = j.as_object()?;
            if o.len() != 1 {
                return None;
            }
            let (k, v) = o.iter().next().unwrap();
            match k.as_str() {
                "int" => ref_int(v.as_number()?),
                "string" => ref_text(v.as_str()?),
                "bytes" => ref_bytes(hex::decode(v.as_str()?).ok()?),
                "list" => Some(RefMd::List(v.as_array()?.iter().map(|x| ref_encode(x, schema)).collect::<Option<Vec<_>>>()?)),
                "map" => {
                    let mut out: Vec<(RefMd, RefMd)> = Vec::new();
                    for e in v.as_array()? {
                        let eo = e.as_object()?;
                        let key = ref_encode(eo.get("k")?, schema)?;
                        let val = ref_encode(eo.get("v")?, schema)?;
                        if let Some(x) = out.iter_mut().find(|x| x.0 == key) {
                            x.1 = val;
                        } else {
                            out.push((key, val));
                        }
                    }
                    Some(RefMd::Map(out))
                }
                _ => None,
            }
        }
    }
}

const SCHEMAS: [MetadataJsonSchema; 3] = [MetadataJsonSchema::NoConversions, MetadataJsonSchema::BasicConversions, MetadataJsonSchema::DetailedSchema];
fn schema_name(s: MetadataJsonSchema) -> &'static str {
    match s {
        MetadataJsonSchema::NoConversions => "NoConversions",
        MetadataJsonSchema::BasicConversions => "BasicConversions",
        MetadataJsonSchema::DetailedSchema => "DetailedSchema",
    }
}

// ---------------------------------------------------------------------------------------------
// (b) metadata -> JSON -> metadata

/// maps filled in ascending key order (the JSON object forms do not record order)
fn sorted_maps(m: &TransactionMetadatum) -> bool {
    match view(m) {
        RefMd::Map(_) | RefMd::List(_) => {}
        _ => return true,
    }
    fn go(r: &RefMd) -> bool {
        match r {
            RefMd::List(l) => l.iter().all(go),
            RefMd::Map(m) => {
                let keys: Vec<String> = m
                    .iter()
                    .map(|(k, _)| match k {
                        RefMd::Text(s) => s.clone(),
                        RefMd::Int(i) => i.to_string(),
                        RefMd::Bytes(b) => format!("0x{}", hex::encode(b)),
                        _ => String::new(),
                    })
                    .collect();
                keys.windows(2).all(|w| w[0] < w[1]) && m.iter().all(|(k, v)| go(k) && go(v))
            }
            _ => true,
        }
    }
    go(&view(m))
}

fn sc_md_to_json(ctx: &mut Ctx) {
    gen::MODE.with(|m| m.set(Mode::Off));
    let md = gen::g_metadatum(ctx, 3);
    let detailed = ctx.choose_free(2) == 1;
    let schema = if detailed { MetadataJsonSchema::DetailedSchema } else { MetadataJsonSchema::NoConversions };
    ctx.observe(&(md.to_bytes(), detailed));
    ctx.set_sample(|| format!("metadatum {:?} under {}", view(&md), schema_name(schema)));
    ctx.compared();
    match guard(|| decode_metadatum_to_json_str(&md, schema)) {
        Err(p) => ctx.violation(panic_sig(P, "decode_metadatum_to_json_str", &p), format!("{:?}: {}", view(&md), p.msg)),
        Ok(Err(_)) => ctx.hit("md->json-err"),
        Ok(Ok(js)) => {
            ctx.hit(if detailed { "md->json-ok-detailed" } else { "md->json-ok-noconv" });
            match guard(|| encode_json_str_to_metadatum(js.clone(), schema)) {
                Err(p) => ctx.violation(panic_sig(P, "encode_json_str_to_metadatum", &p), format!("{}: {}", js, p.msg)),
                Ok(Err(e)) => ctx.violation(format!("{}/metadata/{}/json-of-metadatum-rejected", P, schema_name(schema)), format!("{:?} -> {} -> {:?}", view(&md), js, e)),
                Ok(Ok(back)) => {
                    // object forms cannot record insertion order: identity is claimed for maps in ascending key order
                    if detailed || sorted_maps(&md) {
                        if view(&back) != view(&md) || back.to_bytes() != md.to_bytes() {
                            ctx.violation(format!("{}/metadata/{}/md-json-md-differs", P, schema_name(schema)), format!("{:?} -> {} -> {:?}", view(&md), js, view(&back)));
                        }
                    } else {
                        ctx.hit("md-unsorted-map-skipped");
                    }
                }
            }
        }
    }
}

// ---------------------------------------------------------------------------------------------
// (c) JSON -> metadata -> JSON

fn g_json_int(ctx: &mut Ctx) -> J {
    let s: &str = *ctx.pick(&["0", "1", "-1", "23", "9223372036854775807", "9223372036854775808", "18446744073709551615", "-9223372036854775808"]);
    serde_json::from_str(s).unwrap()
}
fn g_json_string(ctx: &mut Ctx) -> String {
    (*ctx.pick(&["a", "", "0xab", "0x", "12", "0xzz", "héllo wörld", "ssssssssssssssssssssssssssssssssssssssssssssssssssssssssssssssss"])).to_string()
}
fn g_json_key(ctx: &mut Ctx, schema: MetadataJsonSchema) -> String {
    if schema == MetadataJsonSchema::BasicConversions {
        (*ctx.pick(&["k", "", "12", "-7", "0xabcd", "18446744073709551615", "-18446744073709551616", "99999999999999999999999999", "0xzz"])).to_string()
    } else {
        (*ctx.pick(&["k", "", "12", "0xabcd", "kkkkkkkkkkkkkkkkkkkkkkkkkkkkkkkkkkkkkkkkkkkkkkkkkkkkkkkkkkkkkkkk"])).to_string()
    }
}
/// a document in the schema's normal form
fn g_json(ctx: &mut Ctx, schema: MetadataJsonSchema, depth: u32) -> J {
    let detailed = schema == MetadataJsonSchema::DetailedSchema;
    let kinds = if depth == 0 { 3 } else { 5 };
    let k = ctx.choose(kinds);
    let tag = |t: &str, v: J| -> J {
        if detailed {
            let mut m = serde_json::Map::new();
            m.insert(t.to_string(), v);
            J::Object(m)
        } else {
            v
        }
    };
    match k {
        0 => tag("int", g_json_int(ctx)),
        1 => tag("string", J::String(g_json_string(ctx))),
        2 => {
            // bytes: only the schemas that have them
            match schema {
                MetadataJsonSchema::DetailedSchema => tag("bytes", J::String((*ctx.pick(&["ab", "", "00ff00"])).to_string())),
                MetadataJsonSchema::BasicConversions => J::String((*ctx.pick(&["0xab", "0x", "0x00ff00"])).to_string()),
                MetadataJsonSchema::NoConversions => J::String("plain".into()),
            }
        }
        3 => {
            let n = ctx.choose(3);
            let mut a = Vec::new();
            for i in 0..n {
                a.push(if i == 0 { g_json(ctx, schema, depth - 1) } else { tag("int", json!(i)) });
            }
            tag("list", J::Array(a))
        }
        _ => {
            let n = ctx.choose(3);
            if detailed {
                let mut entries = Vec::new();
                for i in 0..n {
                    let (k, v) = if i == 0 { (g_json(ctx, schema, depth - 1), g_json(ctx, schema, depth - 1)) } else { (json!({"string": format!("z{}", i)}), json!({"int": i})) };
                    entries.push(json!({"k": k, "v": v}));
                }
                tag("map", J::Array(entries))
            } else {
                let mut m = serde_json::Map::new();
                for i in 0..n {
                    if i == 0 {
                        let key = g_json_key(ctx, schema);
                        let v = g_json(ctx, schema, depth - 1);
                        m.insert(key, v);
                    } else {
                        m.insert(format!("z{}", i), json!(i));
                    }
                }
                J::Object(m)
            }
        }
    }
}

fn sc_json_to_md(ctx: &mut Ctx) {
    let si = ctx.choose_free(3);
    let schema = SCHEMAS[si];
    let j = g_json(ctx, schema, 3);
    let text = serde_json::to_string(&j).unwrap();
    ctx.observe(&(si, &text));
    ctx.set_sample(|| format!("{} under {}", text, schema_name(schema)));
    let want = ref_encode(&j, schema);
    ctx.compared();
    match guard(|| encode_json_str_to_metadatum(text.clone(), schema)) {
        Err(p) => ctx.violation(panic_sig(P, "encode_json_str_to_metadatum", &p), format!("{}: {}", text, p.msg)),
        Ok(Err(e)) => match want {
            None => ctx.hit("json->md-err"),
            Some(w) => ctx.violation(format!("{}/metadata/{}/in-schema-json-rejected", P, schema_name(schema)), format!("{} (reference: {:?}): {:?}", text, w, e)),
        },
        Ok(Ok(md)) => match want {
            None => ctx.violation(format!("{}/metadata/{}/out-of-schema-json-accepted", P, schema_name(schema)), format!("{} -> {:?}", text, view(&md))),
            Some(w) => {
                ctx.hit("json->md-ok");
                if view(&md) != w {
                    ctx.violation(format!("{}/metadata/{}/json-converted-to-different-value", P, schema_name(schema)), format!("{} -> {:?} expected {:?}", text, view(&md), w));
                    return;
                }
                // and back: identity on the parsed JSON (normal form)
                match guard(|| decode_metadatum_to_json_str(&md, schema)) {
                    Err(p) => ctx.violation(panic_sig(P, "decode_metadatum_to_json_str", &p), p.msg.clone()),
                    Ok(Err(e)) => {
                        // e.g. an integer key below i64::MIN has no JSON form: explicit error
                        ctx.hit("json->md->json-err");
                        let _ = e;
                    }
                    Ok(Ok(back)) => {
                        let bj: J = serde_json::from_str(&back).unwrap_or(J::Null);
                        if bj != j {
                            // keys that collapse (e.g. "12" given twice in different spellings) are not normal form; our generator never does that
                            ctx.violation(format!("{}/metadata/{}/json-md-json-differs", P, schema_name(schema)), format!("{} -> {:?} -> {}", text, view(&md), back));
                        }
                    }
                }
            }
        },
    }
}

/// documents one step outside each schema: must be an error, never a value
fn sc_json_outside(ctx: &mut Ctx) {
    let si = ctx.choose_free(3);
    let schema = SCHEMAS[si];
    let s65 = "s".repeat(65);
    let common: Vec<String> = vec![
        "true".into(),
        "null".into(),
        "1.5".into(),
        "1e3".into(),
        "18446744073709551616".into(),
        "-9223372036854775809".into(),
        format!("\"{}\"", s65),
        "[true]".into(),
        "[1, null]".into(),
        "{\"a\": null}".into(),
        "{\"a\": [false]}".into(),
        format!("{{\"{}\": 1}}", s65),
        "".into(),
        "{".into(),
        "[1,]".into(),
    ];
    let detailed: Vec<String> = vec![
        "5".into(),
        "\"a\"".into(),
        "[]".into(),
        "{}".into(),
        "{\"int\": \"1\"}".into(),
        "{\"int\": 1.5}".into(),
        "{\"int\": 18446744073709551616}".into(),
        "{\"bytes\": \"abc\"}".into(),
        "{\"bytes\": \"zz\"}".into(),
        "{\"bytes\": 5}".into(),
        "{\"bytes\": \"0xab\"}".into(),
        format!("{{\"bytes\": \"{}\"}}", "ab".repeat(65)),
        "{\"string\": 1}".into(),
        format!("{{\"string\": \"{}\"}}", s65),
        "{\"list\": {}}".into(),
        "{\"list\": [5]}".into(),
        "{\"map\": {}}".into(),
        "{\"map\": [{\"k\": {\"int\": 1}}]}".into(),
        "{\"map\": [{\"v\": {\"int\": 1}}]}".into(),
        "{\"map\": [[1, 2]]}".into(),
        "{\"map\": [{\"k\": 1, \"v\": {\"int\": 1}}]}".into(),
        "{\"int\": 1, \"string\": \"a\"}".into(),
        "{\"foo\": 1}".into(),
        "{\"Int\": 1}".into(),
    ];
    let mut docs = common;
    if schema == MetadataJsonSchema::DetailedSchema {
        docs.extend(detailed);
    } else if schema == MetadataJsonSchema::BasicConversions {
        docs.push(format!("\"0x{}\"", "ab".repeat(65)));
        docs.push(format!("{{\"0x{}\": 1}}", "ab".repeat(65)));
    }
    let i = ctx.choose_free(docs.len().max(40));
    if i >= docs.len() {
        return;
    }
    let text = &docs[i];
    ctx.observe(&(si, text));
    ctx.set_sample(|| format!("outside {}: {}", schema_name(schema), short(text, 100)));
    // the reference must agree that the document is outside (guards the harness, not the library)
    if let Ok(j) = serde_json::from_str::<J>(text) {
        if ref_encode(&j, schema).is_some() {
            crate::engine::machinery(format!("harness error: reference accepts 'outside' document {} under {}", text, schema_name(schema)));
        }
    }
    ctx.compared();
    match guard(|| encode_json_str_to_metadatum(text.clone(), schema)) {
        Err(p) => ctx.violation(panic_sig(P, "encode_json_str_to_metadatum", &p), format!("{}: {}", short(text, 100), p.msg)),
        Ok(Err(_)) => ctx.hit("outside-rejected"),
        Ok(Ok(md)) => ctx.violation(format!("{}/metadata/{}/out-of-schema-json-accepted", P, schema_name(schema)), format!("{} -> {:?}", short(text, 120), view(&md))),
    }
}

// ---------------------------------------------------------------------------------------------
// (d) Plutus datum <-> detailed JSON

fn sc_datum_json(ctx: &mut Ctx) {
    gen::MODE.with(|m| m.set(Mode::Off));
    let d = gen::g_plutus_data(ctx, 3);
    let bytes = d.to_bytes();
    ctx.observe(&bytes);
    ctx.set_sample(|| format!("datum {}", short(&hx(&bytes), 120)));
    ctx.compared();
    match guard(|| decode_plutus_datum_to_json_str(&d, PlutusDatumSchema::DetailedSchema)) {
        Err(p) => ctx.violation(panic_sig(P, "decode_plutus_datum_to_json_str", &p), format!("{}: {}", short(&hx(&bytes), 100), p.msg)),
        Ok(Err(e)) => ctx.violation(format!("{}/datum/detailed/to-json-fails", P), format!("{}: {:?}", short(&hx(&bytes), 100), e)),
        Ok(Ok(js)) => match guard(|| encode_json_str_to_plutus_datum(&js, PlutusDatumSchema::DetailedSchema)) {
            Err(p) => ctx.violation(panic_sig(P, "encode_json_str_to_plutus_datum", &p), format!("{}: {}", short(&js, 160), p.msg)),
            Ok(Err(e)) => ctx.violation(format!("{}/datum/detailed/own-json-rejected", P), format!("{} : {:?}", short(&js, 200), e)),
            Ok(Ok(back)) => {
                ctx.hit("datum-json-ok");
                if back.to_bytes() != bytes {
                    ctx.violation(format!("{}/datum/detailed/roundtrip-differs", P), format!("{} -> {} -> {}", short(&hx(&bytes), 120), short(&js, 160), short(&hx(&back.to_bytes()), 120)));
                }
            }
        },
    }
    // the method form must agree with the free functions
    if let (Ok(Ok(a)), Ok(Ok(b))) = (guard(|| d.to_json(PlutusDatumSchema::DetailedSchema)), guard(|| decode_plutus_datum_to_json_str(&d, PlutusDatumSchema::DetailedSchema))) {
        if a != b {
            ctx.violation(format!("{}/datum/to_json-differs-from-free-function", P), short(&a, 100));
        }
    }
}

// ---------------------------------------------------------------------------------------------
// (e) arbitrary bytes through the chunk helpers

fn sc_chunks(ctx: &mut Ctx) {
    let len = ctx.choose_free(201);
    let fill = ctx.choose_free(2);
    let b: Vec<u8> = (0..len).map(|i| if fill == 0 { i as u8 } else { 0xff }).collect();
    ctx.observe(&(len, fill));
    ctx.set_sample(|| format!("{} arbitrary bytes through encode/decode_arbitrary_bytes", len));
    ctx.compared();
    match guard(|| encode_arbitrary_bytes_as_metadatum(&b)) {
        Err(p) => ctx.violation(panic_sig(P, "encode_arbitrary_bytes_as_metadatum", &p), p.msg.clone()),
        Ok(md) => {
            if let RefMd::List(l) = view(&md) {
                for c in &l {
                    match c {
                        RefMd::Bytes(x) if x.len() <= 64 && !x.is_empty() => {}
                        other => ctx.violation(format!("{}/chunks/bad-chunk", P), format!("len {}: {:?}", len, other)),
                    }
                }
                if l.len() != (len + 63) / 64 {
                    ctx.violation(format!("{}/chunks/chunk-count", P), format!("len {} -> {} chunks", len, l.len()));
                }
            } else {
                ctx.violation(format!("{}/chunks/not-a-list", P), format!("len {}", len));
            }
            match guard(|| decode_arbitrary_bytes_from_metadatum(&md)) {
                Ok(Ok(back)) if back == b => ctx.hit("chunks-ok"),
                other => ctx.violation(format!("{}/chunks/roundtrip", P), format!("len {}: {:?}", len, other.map(|r| r.map(|v| v.len())))),
            }
            // the chunked metadatum is itself valid metadata (serialises and parses back)
            match guard(|| TransactionMetadatum::from_bytes(md.to_bytes())) {
                Ok(Ok(x)) if x == md => {}
                _ => ctx.violation(format!("{}/chunks/metadatum-roundtrip", P), format!("len {}", len)),
            }
        }
    }
}

// ---------------------------------------------------------------------------------------------
// the three places where the typed JSON form is known not to carry the whole value; kept out of
// the generator sweep so that they have one precise signature each

fn json_rt<T: Codec>(v: &T) -> Result<T, String> {
    let js = v.to_json_().map_err(|e| format!("to_json: {}", e))?;
    T::from_json_(&js).map_err(|e| format!("from_json: {}", e))
}

fn sc_json_gaps(ctx: &mut Ctx) {
    let case = ctx.choose_free(6);
    ctx.observe(&case);
    ctx.compared();
    match case {
        0 | 1 => {
            let ps = if case == 0 { PlutusScript::new_v2(vec![1, 2, 3]) } else { PlutusScript::new_v3(vec![1, 2, 3]) };
            let sr = ScriptRef::new_plutus_script(&ps);
            ctx.set_sample(|| format!("ScriptRef with {:?} through JSON", ps.language_version().kind()));
            match guard(|| json_rt(&sr)) {
                Ok(Ok(back)) => {
                    if back.to_bytes() != sr.to_bytes() {
                        ctx.violation(format!("{}/json/plutus-script-language-lost/ScriptRef", P), format!("{} -> {}", hx(&sr.to_bytes()), hx(&back.to_bytes())));
                    }
                }
                Ok(Err(e)) => ctx.violation(format!("{}/json/ScriptRef-roundtrip-fails", P), e),
                Err(p) => ctx.violation(panic_sig(P, "ScriptRef json", &p), p.msg.clone()),
            }
        }
        2 => {
            let mut w = TransactionWitnessSet::new();
            let mut x = PlutusScripts::new();
            x.add(&PlutusScript::new(vec![1]));
            x.add(&PlutusScript::new_v2(vec![2]));
            x.add(&PlutusScript::new_v3(vec![3]));
            w.set_plutus_scripts(&x);
            ctx.set_sample(|| "witness set with V1+V2+V3 scripts through JSON".to_string());
            match guard(|| json_rt(&w)) {
                Ok(Ok(back)) => {
                    if back.to_bytes() != w.to_bytes() {
                        ctx.violation(format!("{}/json/plutus-script-language-lost/TransactionWitnessSet", P), format!("{} -> {}", hx(&w.to_bytes()), hx(&back.to_bytes())));
                    }
                }
                Ok(Err(e)) => ctx.violation(format!("{}/json/TransactionWitnessSet-roundtrip-fails", P), e),
                Err(p) => ctx.violation(panic_sig(P, "TransactionWitnessSet json", &p), p.msg.clone()),
            }
        }
        3 => {
            let mut a = AuxiliaryData::new();
            let mut x = PlutusScripts::new();
            x.add(&PlutusScript::new_v2(vec![2]));
            a.set_plutus_scripts(&x);
            match guard(|| json_rt(&a)) {
                Ok(Ok(back)) => {
                    if back.to_bytes() != a.to_bytes() {
                        ctx.violation(format!("{}/json/plutus-script-language-lost/AuxiliaryData", P), format!("{} -> {}", hx(&a.to_bytes()), hx(&back.to_bytes())));
                    }
                }
                Ok(Err(e)) => ctx.violation(format!("{}/json/AuxiliaryData-roundtrip-fails", P), e),
                Err(p) => ctx.violation(panic_sig(P, "AuxiliaryData json", &p), p.msg.clone()),
            }
        }
        4 => {
            let ob = crate::refcbor::emit(&crate::refcbor::Node::arr(vec![crate::refcbor::Node::bytes(&[0x9f, 1, 2]), crate::refcbor::Node::uint(5)]));
            let o = TransactionOutput::from_bytes(ob).unwrap();
            ctx.set_sample(|| "output decoded with a malformed address through JSON".to_string());
            match guard(|| json_rt(&o)) {
                Ok(Ok(back)) => {
                    if back.to_bytes() != o.to_bytes() {
                        ctx.violation(format!("{}/json/malformed-address-changed", P), hx(&back.to_bytes()));
                    }
                }
                Ok(Err(e)) => ctx.violation(format!("{}/json/malformed-address-own-json-rejected", P), e),
                Err(p) => ctx.violation(panic_sig(P, "TransactionOutput json", &p), p.msg.clone()),
            }
        }
        _ => {
            let a = ByronAddress::icarus_from_key(&crate::fx::bip32_pub(2), 42).to_address();
            ctx.set_sample(|| "Byron address with protocol magic 42 through JSON".to_string());
            match guard(|| json_rt(&a)) {
                Ok(Ok(back)) => {
                    if back != a {
                        ctx.violation(format!("{}/json/byron-address-changed", P), back.to_hex());
                    }
                }
                Ok(Err(e)) => ctx.violation(format!("{}/json/byron-unknown-network-to_json-fails", P), e),
                Err(p) => ctx.violation(panic_sig(P, "Address json", &p), p.msg.clone()),
            }
        }
    }
}

pub fn scenario(name: &str, _tier: Tier) -> Option<BoxedScenario> {
    Some(match name {
        "md_to_json" => Box::new(sc_md_to_json),
        "json_to_md" => Box::new(sc_json_to_md),
        "json_outside" => Box::new(sc_json_outside),
        "datum_json" => Box::new(sc_datum_json),
        "chunks" => Box::new(sc_chunks),
        "json_gaps" => Box::new(sc_json_gaps),
        _ => return crate::props::c01::scenario_for(Mode::C17, name),
    })
}

pub fn run(tier: Tier, seed: u64) -> i32 {
    let mut rep = Report::new(P, tier, seed);
    rep.rule = "(a) every generated typed value (as C01) through to_json/from_json; (b) metadata trees to depth 3 under NoConversions and DetailedSchema; (c) JSON documents in each schema's normal form to depth 3 and a list of documents one step outside each schema; (d) Plutus data to depth 3 through detailed JSON; (e) byte strings of every length 0..=200 through the chunk helpers. distinct = distinct (type, JSON) / (document, schema) pairs".into();
    rep.assume("insertion-ordered maps are filled in ascending key order by the generators (the JSON forms do not record insertion order)");
    rep.assume("object-form metadata maps (NoConversions/BasicConversions) are compared only when their keys are in ascending order of the JSON key string");
    rep.trusted_base = vec!["serde_json (parsing of test documents)".into(), "reference JSON->metadata conversion in props/c17.rs (ref_encode), written from the schema descriptions".into()];
    rep.required_hits = vec!["md->json-ok-detailed", "md->json-ok-noconv", "md->json-err", "json->md-ok", "outside-rejected", "datum-json-ok", "chunks-ok"];
    crate::props::c01::run_generators(&mut rep, Mode::C17, tier, seed);
    let d = if tier.thorough() { 4 } else { 3 };
    for (name, bound) in [("md_to_json", Some(d)), ("json_to_md", Some(d)), ("json_outside", None), ("datum_json", Some(d)), ("chunks", None), ("json_gaps", None)] {
        let f = scenario(name, tier).unwrap();
        let mut opts = Opts::new(seed);
        if let Some(b) = bound {
            opts = opts.bound(b);
        }
        let st = explore(name, &*f, &opts);
        rep.add(name, &bound.map(|b| format!("<= {} deviations", b)).unwrap_or("full product".into()), st);
    }
    rep.finish()
}
