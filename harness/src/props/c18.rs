//! C18 — see builder.rs / builder_oracles.rs (shared builder exploration, E2).
use crate::props::BoxedScenario;
use crate::report::{Report, Tier};

const P: &str = "C18";

pub fn scenario(name: &str, tier: Tier) -> Option<BoxedScenario> {
    crate::builder::scenario_for(P, name, tier)
}

pub fn run(tier: Tier, seed: u64) -> i32 {
    let mut rep = Report::new(P, tier, seed);
    describe(&mut rep);
    crate::builder::explore_for(P, tier, seed, &mut rep);
    rep.finish()
}

fn describe(rep: &mut Report) {
    rep.rule = "explicit-state BFS over histories of key inputs (shared keys), three Byron inputs over two addresses, native and Plutus inputs (script inline / by reference, datum witness / inline), collateral, certificates of every witness class, key/script withdrawals, votes of every voter kind, native and Plutus mints, required signers (new / already needed), explicit reference inputs, extra datums; oracle: every script-locked item has its script exactly once (witness set xor declared reference input present in the body), witness datums exactly once, one redeemer per Plutus use, and 0 <= full_size() - |really signed transaction| < |one key witness|.".into();
    rep.trusted_base = vec!["notes/ledger_rules.md §4 (witsVKeyNeeded)".into(), "harness/src/ledger.rs".into()];
    rep.required_hits = vec!["script-inline", "script-by-reference", "size-exact", "byron+key", "same-script-on-two-uses", "byron:two-inputs-one-address", "byron:two-addresses", "byron:repeated-address-among-others"];
}
