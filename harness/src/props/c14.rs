//! C14 — amount arithmetic is exact or fails explicitly.

use crate::alphabet::{w_ext, W};
use crate::engine::{explore, guard, panic_sig, Ctx, Opts};
use crate::props::BoxedScenario;
use crate::refcbor::{self, Node};
use crate::report::{Report, Tier};
use crate::util::*;
use cardano_serialization_lib as csl;
use csl::*;
use num_bigint::BigInt as NB;
use num_integer::Integer;
use num_traits::{One, Signed, ToPrimitive, Zero};
use std::collections::BTreeMap;

const P: &str = "C14";
const INT_MIN: i128 = -(1i128 << 64);
const INT_MAX: i128 = (1i128 << 64) - 1;

// ------------------------------------------------------------------------------------------
// BigNum

fn sc_bignum(ctx: &mut Ctx) {
    let xs = w_ext();
    let a = *ctx.pick_free(&xs);
    let b = *ctx.pick_free(&xs);
    let op = ctx.choose_free(9);
    let (x, y) = (bn(a), bn(b));
    ctx.observe(&(a, b, op));
    ctx.set_sample(|| format!("BigNum op#{} on ({}, {})", op, a, b));
    let (aa, bb) = (a as u128, b as u128);
    let site: &'static str;
    // expected: Some(v) exact result fits / None must be Err
    let chk = |ctx: &mut Ctx, site: &'static str, got: Result<Result<BigNum, JsError>, crate::engine::PanicRec>, expect: Option<u128>| {
        ctx.compared();
        match got {
            Err(p) => ctx.violation(panic_sig(P, site, &p), format!("{}({}, {}) panicked: {}", site, a, b, p.msg)),
            Ok(Ok(v)) => match expect {
                Some(e) if e == u(&v) as u128 => ctx.hit("bignum-ok"),
                Some(e) => ctx.violation(format!("{}/{}/wrong-value", P, site), format!("{}({}, {}) = {} expected {}", site, a, b, u(&v), e)),
                None => ctx.violation(format!("{}/{}/ok-on-overflow", P, site), format!("{}({}, {}) = Ok({}) but the exact result is not representable", site, a, b, u(&v))),
            },
            Ok(Err(_)) => match expect {
                None => ctx.hit("bignum-err"),
                Some(e) => ctx.violation(format!("{}/{}/err-on-representable", P, site), format!("{}({}, {}) = Err but exact result {}", site, a, b, e)),
            },
        }
    };
    let fit = |v: u128| if v <= u64::MAX as u128 { Some(v) } else { None };
    match op {
        0 => chk(ctx, "BigNum::checked_add", guard(|| x.checked_add(&y)), fit(aa + bb)),
        1 => chk(ctx, "BigNum::checked_sub", guard(|| x.checked_sub(&y)), if aa >= bb { Some(aa - bb) } else { None }),
        2 => chk(ctx, "BigNum::checked_mul", guard(|| x.checked_mul(&y)), fit(aa * bb)),
        3 => chk(ctx, "BigNum::clamped_sub", guard(|| Ok(x.clamped_sub(&y))), Some(aa.saturating_sub(bb))),
        4 => {
            if b == 0 {
                return; // division by zero has no mathematical value
            }
            chk(ctx, "BigNum::div_floor", guard(|| Ok(x.div_floor(&y))), Some(aa / bb));
        }
        5 => {
            site = "BigNum::compare";
            ctx.compared();
            let e = if aa < bb { -1 } else if aa == bb { 0 } else { 1 };
            match guard(|| (x.compare(&y), x.less_than(&y))) {
                Ok((c, lt)) => {
                    if c != e || lt != (aa < bb) {
                        ctx.violation(format!("{}/{}/wrong", P, site), format!("compare({}, {}) = {} less_than = {}", a, b, c, lt));
                    }
                }
                Err(p) => ctx.violation(panic_sig(P, site, &p), p.msg.clone()),
            }
        }
        6 => chk(ctx, "BigNum::max", guard(|| Ok(BigNum::max(&x, &y))), Some(aa.max(bb))),
        7 => {
            // string / JSON / CBOR codecs (first operand only)
            if b != 0 {
                return;
            }
            ctx.compared();
            let s = x.to_str();
            if s != format!("{}", a) {
                ctx.violation(format!("{}/BigNum::to_str/wrong", P), format!("{} -> {}", a, s));
            }
            match guard(|| BigNum::from_str(&s)) {
                Ok(Ok(v)) if u(&v) == a => {}
                other => ctx.violation(format!("{}/BigNum::from_str/roundtrip", P), format!("{} -> {:?}", s, other.map(|r| r.map(|v| u(&v)))))
            }
            let bytes = x.to_bytes();
            if bytes != refcbor::emit(&Node::uint(a)) {
                ctx.violation(format!("{}/BigNum::to_bytes/not-rfc8949-shortest", P), format!("{} -> {}", a, hx(&bytes)));
            }
            match guard(|| BigNum::from_bytes(bytes.clone())) {
                Ok(Ok(v)) if u(&v) == a => {}
                other => ctx.violation(format!("{}/BigNum::from_bytes/roundtrip", P), format!("{} -> {:?}", hx(&bytes), other.map(|r| r.map(|v| u(&v)))))
            }
            match guard(|| x.to_json().and_then(|j| BigNum::from_json(&j))) {
                Ok(Ok(v)) if u(&v) == a => {}
                other => ctx.violation(format!("{}/BigNum::json/roundtrip", P), format!("{} -> {:?}", a, other.map(|r| r.map(|v| u(&v)))))
            }
        }
        _ => {
            // from_str on strings just outside the range
            if b != 0 {
                return;
            }
            ctx.compared();
            let big = (a as u128) + (u64::MAX as u128) + 1; // > u64::MAX
            for s in [format!("{}", big), format!("-{}", a.max(1)), format!("{}.0", a), format!(" {}", a), String::new()] {
                match guard(|| BigNum::from_str(&s)) {
                    Ok(Err(_)) => ctx.hit("bignum-err"),
                    Ok(Ok(v)) => ctx.violation(format!("{}/BigNum::from_str/accepts-out-of-domain", P), format!("{:?} -> Ok({})", s, u(&v))),
                    Err(p) => ctx.violation(panic_sig(P, "BigNum::from_str", &p), format!("{:?}: {}", s, p.msg)),
                }
            }
        }
    }
}

// ------------------------------------------------------------------------------------------
// Int

fn int_value(i: &Int) -> Result<i128, String> {
    i.to_str().parse::<i128>().map_err(|e| format!("to_str not an integer: {:?}", e))
}

/// Every observer of an Int, against its mathematical value `v`.
fn check_int(ctx: &mut Ctx, how: &str, i: &Int, v: i128) {
    ctx.compared();
    match v {
        INT_MIN => ctx.hit("int@-2^64"),
        -9223372036854775809 => ctx.hit("int@-2^63-1"),
        -9223372036854775808 => ctx.hit("int@-2^63"),
        -1 => ctx.hit("int@-1"),
        0 => ctx.hit("int@0"),
        9223372036854775808 => ctx.hit("int@2^63"),
        INT_MAX => ctx.hit("int@2^64-1"),
        _ => {}
    }
    match int_value(i) {
        Ok(x) if x == v => {}
        Ok(x) => ctx.violation(format!("{}/Int/{}/wrong-value", P, how), format!("expected {} got {}", v, x)),
        Err(e) => ctx.violation(format!("{}/Int/{}/to_str", P, how), e),
    }
    if v < INT_MIN || v > INT_MAX {
        ctx.violation(format!("{}/Int/{}/out-of-range", P, how), format!("Int holds {} which is outside -2^64..2^64-1", v));
        // keep going: show what the wire does with it
    }
    let r = guard(|| (i.is_positive(), i.as_positive().map(|b| u(&b)), i.as_negative().map(|b| u(&b)), i.as_i32_or_nothing(), i.as_i32_or_fail().ok()));
    match r {
        Err(p) => ctx.violation(panic_sig(P, "Int accessors", &p), format!("{} value {}: {}", how, v, p.msg)),
        Ok((pos, ap, an, i32n, i32f)) => {
            if pos != (v >= 0) {
                ctx.violation(format!("{}/Int::is_positive/wrong", P), format!("{}", v));
            }
            let e_ap = if v >= 0 && v <= INT_MAX { Some(v as u64) } else { None };
            if v >= 0 && v <= INT_MAX && ap != e_ap {
                ctx.violation(format!("{}/Int::as_positive/wrong", P), format!("{} -> {:?}", v, ap));
            }
            if v < 0 {
                if ap.is_some() {
                    ctx.violation(format!("{}/Int::as_positive/some-on-negative", P), format!("{} -> {:?}", v, ap));
                }
                // absolute value, or nothing when it does not fit a u64
                let abs = (-v) as u128;
                match an {
                    Some(x) if x as u128 == abs => {}
                    None if abs > u64::MAX as u128 => {}
                    // the recorded finding is the one value whose absolute value does not fit a u64;
                    // anything else wrong here is a different defect
                    other if v == INT_MIN => ctx.violation(format!("{}/Int::as_negative/truncated-at-minus-2^64", P), format!("as_negative({}) = {:?}, absolute value is {}", v, other, abs)),
                    other => ctx.violation(format!("{}/Int::as_negative/wrong", P), format!("as_negative({}) = {:?}, absolute value is {}", v, other, abs)),
                }
            } else if an.is_some() && v != 0 {
                ctx.violation(format!("{}/Int::as_negative/some-on-positive", P), format!("{} -> {:?}", v, an));
            }
            let e32 = if v >= i32::MIN as i128 && v <= i32::MAX as i128 { Some(v as i32) } else { None };
            if i32n != e32 || i32f != e32 {
                ctx.violation(format!("{}/Int::as_i32/wrong", P), format!("{} -> {:?} / {:?}", v, i32n, i32f));
            }
        }
    }
    if v < INT_MIN || v > INT_MAX {
        // wire behaviour of an out-of-range Int: report truncation explicitly
        if let Ok(bytes) = guard(|| i.to_bytes()) {
            if let Ok(n) = refcbor::parse(&bytes) {
                if n.as_int() != Some(v) {
                    ctx.violation(format!("{}/Int/{}/truncated-on-wire", P, how), format!("Int {} serialises as {}", v, refcbor::diag(&n)));
                }
            }
        }
        return;
    }
    // codecs
    match guard(|| i.to_bytes()) {
        Err(p) => ctx.violation(panic_sig(P, "Int::to_bytes", &p), format!("Int {} ({}): {}", v, how, p.msg)),
        Ok(bytes) => {
            let want = refcbor::emit(&Node::int(v));
            if bytes != want {
                ctx.violation(format!("{}/Int::to_bytes/not-rfc8949", P), format!("{} -> {} expected {}", v, hx(&bytes), hx(&want)));
            }
            match guard(|| Int::from_bytes(bytes.clone())) {
                Ok(Ok(back)) => {
                    if int_value(&back) != Ok(v) {
                        ctx.violation(format!("{}/Int::from_bytes/roundtrip", P), format!("{} -> {:?}", v, int_value(&back)));
                    }
                }
                Ok(Err(e)) => ctx.violation(format!("{}/Int::from_bytes/rejects-own-output", P), format!("{}: {:?}", v, e)),
                Err(p) => ctx.violation(panic_sig(P, "Int::from_bytes", &p), p.msg.clone()),
            }
        }
    }
    match guard(|| Int::from_str(&i.to_str())) {
        Ok(Ok(back)) => {
            if int_value(&back) != Ok(v) {
                ctx.violation(format!("{}/Int::from_str/roundtrip", P), format!("{} -> {:?}", v, int_value(&back)));
            }
        }
        Ok(Err(e)) => ctx.violation(format!("{}/Int::from_str/rejects-in-range", P), format!("from_str(to_str({})) = Err({:?})", v, e)),
        Err(p) => ctx.violation(panic_sig(P, "Int::from_str", &p), p.msg.clone()),
    }
    match guard(|| i.to_json().and_then(|j| Int::from_json(&j))) {
        Ok(Ok(back)) => {
            if int_value(&back) != Ok(v) {
                ctx.violation(format!("{}/Int::json/roundtrip", P), format!("{} -> {:?}", v, int_value(&back)));
            }
        }
        Ok(Err(e)) => ctx.violation(format!("{}/Int::json/rejects-in-range", P), format!("from_json(to_json({})) = Err({:?})", v, e)),
        Err(p) => ctx.violation(panic_sig(P, "Int::json", &p), p.msg.clone()),
    }
    // the integer inside a metadatum, written out as JSON under each schema, as a value and as a map key:
    // the exact number (or, for a key under the no-conversion schema, its decimal string) or an error
    let md_val = TransactionMetadatum::new_int(i);
    let mut mm = MetadataMap::new();
    mm.insert(&md_val, &TransactionMetadatum::new_int(&Int::new_i32(1)));
    let md_key = TransactionMetadatum::new_map(&mm);
    for (schema, sname) in [(MetadataJsonSchema::NoConversions, "NoConversions"), (MetadataJsonSchema::BasicConversions, "BasicConversions"), (MetadataJsonSchema::DetailedSchema, "DetailedSchema")] {
        for (md, as_key) in [(&md_val, false), (&md_key, true)] {
            match guard(|| decode_metadatum_to_json_str(md, schema)) {
                Err(p) => ctx.violation(panic_sig(P, "decode_metadatum_to_json_str", &p), format!("{} {} : {}", v, sname, p.msg)),
                Ok(Err(_)) => ctx.hit("metadatum-int-to-json-err"),
                Ok(Ok(js)) => {
                    ctx.hit("metadatum-int-to-json-ok");
                    // every integer literal that appears in the document must be `v` (the map's value 1 aside)
                    let digits: Vec<String> = js.split(|c: char| !(c.is_ascii_digit() || c == '-')).filter(|t| !t.is_empty() && t != &"-").map(|t| t.to_string()).collect();
                    let want = v.to_string();
                    let ok = if as_key { digits.iter().any(|d| *d == want) && digits.iter().all(|d| *d == want || d == "1") } else { digits.len() == 1 && digits[0] == want };
                    if !ok {
                        ctx.violation(format!("{}/metadatum-int-to-json/{}/wrong-number/{}", P, sname, if as_key { "key" } else { "value" }), format!("{} came out as {}", v, js));
                    }
                }
            }
        }
    }
}

const DEC: [&str; 24] = [
    "0", "-0", "1", "-1", "2147483647", "2147483648", "-2147483648", "-2147483649",
    "9223372036854775807", "9223372036854775808", "-9223372036854775808", "-9223372036854775809",
    "18446744073709551615", "18446744073709551616", "18446744073709551617",
    "-18446744073709551615", "-18446744073709551616", "-18446744073709551617",
    "170141183460469231731687303715884105727", "-170141183460469231731687303715884105728",
    "170141183460469231731687303715884105728", "+5", "1e3", "",
];

fn mint_witness_native() -> MintWitness {
    let ns = NativeScript::new_script_pubkey(&ScriptPubkey::new(&Ed25519KeyHash::from_bytes(vec![3u8; 28]).unwrap()));
    MintWitness::new_native_script(&NativeScriptSource::new(&ns))
}

fn mint_witness_plutus() -> MintWitness {
    let ps = PlutusScript::new_v2(vec![1, 2, 3]);
    let red = Redeemer::new(&RedeemerTag::new_mint(), &bn(0), &PlutusData::new_integer(&BigInt::from(0u64)), &ExUnits::new(&bn(1), &bn(1)));
    MintWitness::new_plutus_script(&PlutusScriptSource::new(&ps), &red)
}

fn sc_int(ctx: &mut Ctx) {
    let path = ctx.choose_free(8);
    match path {
        0 => {
            let x = *ctx.pick_free(&w_ext());
            ctx.set_sample(|| format!("Int::new({})", x));
            ctx.observe(&(0, x));
            match guard(|| Int::new(&bn(x))) {
                Ok(i) => check_int(ctx, "new", &i, x as i128),
                Err(p) => ctx.violation(panic_sig(P, "Int::new", &p), p.msg.clone()),
            }
        }
        1 => {
            let x = *ctx.pick_free(&w_ext());
            ctx.set_sample(|| format!("Int::new_negative({})", x));
            ctx.observe(&(1, x));
            match guard(|| Int::new_negative(&bn(x))) {
                Ok(i) => check_int(ctx, "new_negative", &i, -(x as i128)),
                Err(p) => ctx.violation(panic_sig(P, "Int::new_negative", &p), p.msg.clone()),
            }
        }
        2 => {
            let x = *ctx.pick_free(&[0i32, 1, -1, 23, 24, -24, -25, 255, 256, -256, -257, 65535, 65536, i32::MAX, i32::MIN]);
            ctx.observe(&(2, x));
            match guard(|| Int::new_i32(x)) {
                Ok(i) => check_int(ctx, "new_i32", &i, x as i128),
                Err(p) => ctx.violation(panic_sig(P, "Int::new_i32", &p), p.msg.clone()),
            }
        }
        3 => {
            let s = *ctx.pick_free(&DEC);
            ctx.set_sample(|| format!("Int::from_str({:?})", s));
            ctx.observe(&(3, s));
            let math: Option<NB> = if s == "-0" { Some(NB::zero()) } else { s.parse::<NB>().ok().filter(|_| !s.contains('e')) };
            match guard(|| Int::from_str(s)) {
                Err(p) => ctx.violation(panic_sig(P, "Int::from_str", &p), format!("{:?}: {}", s, p.msg)),
                Ok(Ok(i)) => match math.as_ref().and_then(|m| m.to_i128()) {
                    Some(v) => check_int(ctx, "from_str", &i, v),
                    None => ctx.violation(format!("{}/Int::from_str/accepts-non-number", P), format!("{:?} -> {}", s, i.to_str())),
                },
                Ok(Err(_)) => {
                    ctx.compared();
                    ctx.hit("int-from_str-err");
                    if let Some(m) = &math {
                        if *m >= NB::from(INT_MIN) && *m <= NB::from(INT_MAX) {
                            ctx.violation(format!("{}/Int::from_str/rejects-in-range", P), format!("from_str({:?}) = Err but {} is within -2^64..2^64-1", s, m));
                        }
                    }
                }
            }
        }
        4 => {
            // CBOR: every head width, both signs, at width-class arguments
            let arg = *ctx.pick_free(&W);
            let neg = ctx.choose_free(2) == 1;
            let wider = ctx.choose_free(2) == 1;
            let mut n = if neg { Node::nint_arg(arg) } else { Node::uint(arg) };
            if wider {
                n = n.with_width(8);
            }
            let bytes = refcbor::emit(&n);
            let v = n.as_int().unwrap();
            ctx.observe(&(4, arg, neg, wider));
            ctx.set_sample(|| format!("Int::from_bytes({})", hx(&bytes)));
            match guard(|| Int::from_bytes(bytes.clone())) {
                Err(p) => ctx.violation(panic_sig(P, "Int::from_bytes", &p), format!("{}: {}", hx(&bytes), p.msg)),
                Ok(Ok(i)) => check_int(ctx, "from_bytes", &i, v),
                Ok(Err(e)) => ctx.violation(format!("{}/Int::from_bytes/rejects-valid", P), format!("{}: {:?}", hx(&bytes), e)),
            }
        }
        5 => {
            // JSON string form
            let s = *ctx.pick_free(&DEC);
            ctx.observe(&(5, s));
            let j = format!("\"{}\"", s);
            let math: Option<NB> = if s == "-0" { Some(NB::zero()) } else { s.parse::<NB>().ok().filter(|_| !s.contains('e')) };
            match guard(|| Int::from_json(&j)) {
                Err(p) => ctx.violation(panic_sig(P, "Int::from_json", &p), format!("{}: {}", j, p.msg)),
                Ok(Ok(i)) => match math.as_ref().and_then(|m| m.to_i128()) {
                    Some(v) => check_int(ctx, "from_json", &i, v),
                    None => ctx.violation(format!("{}/Int::from_json/accepts-non-number", P), format!("{} -> {}", j, i.to_str())),
                },
                Ok(Err(_)) => {
                    ctx.hit("int-from_json-err");
                }
            }
        }
        6 => {
            // mint-builder accumulation: add_asset 2-3 times, native and Plutus witness
            let xs: Vec<i128> = {
                let mut v = Vec::new();
                for w in [1u64, 0x7fff_ffff_ffff_ffff, 0x8000_0000_0000_0000, 0xffff_ffff_ffff_ffff] {
                    v.push(w as i128);
                    v.push(-(w as i128));
                }
                v
            };
            let plutus = ctx.choose_free(2) == 1;
            let n = 2 + ctx.choose_free(2);
            let mut amounts = Vec::new();
            for _ in 0..n {
                amounts.push(*ctx.pick_free(&xs));
            }
            ctx.observe(&(6, plutus, amounts.clone()));
            ctx.set_sample(|| format!("MintBuilder::add_asset x{} with {:?}", n, amounts));
            let w = if plutus { mint_witness_plutus() } else { mint_witness_native() };
            let name = AssetName::new(vec![1]).unwrap();
            let r = guard(|| {
                let mut mb = MintBuilder::new();
                let mut sum: i128 = 0;
                for a in &amounts {
                    let i = if *a >= 0 { Int::new(&bn(*a as u64)) } else { Int::new_negative(&bn((-*a) as u64)) };
                    match mb.add_asset(&w, &name, &i) {
                        Ok(()) => sum += *a,
                        Err(_) => return (None, sum, true),
                    }
                }
                (Some(mb), sum, false)
            });
            match r {
                Err(p) => ctx.violation(panic_sig(P, "MintBuilder::add_asset", &p), p.msg.clone()),
                Ok((None, _, _)) => ctx.hit("mint-add-err"),
                Ok((Some(mb), sum, _)) => {
                    // whatever build() hands out must be an in-range Int equal to the exact sum
                    match guard(|| mb.build()) {
                        Err(p) => ctx.violation(panic_sig(P, "MintBuilder::build", &p), p.msg.clone()),
                        Ok(Err(_)) => ctx.hit("mint-build-err"),
                        Ok(Ok(mint)) => {
                            let pol = mint.keys().get(0);
                            let got = mint.get(&pol).and_then(|ms| ms.get(0)).and_then(|ma| ma.get(&name));
                            match got {
                                Some(i) => check_int(ctx, "MintBuilder::add_asset", &i, sum),
                                None => ctx.violation(format!("{}/MintBuilder/asset-lost", P), format!("{:?}", amounts)),
                            }
                        }
                    }
                }
            }
        }
        _ => {
            // metadata: BasicConversions object keys and numbers, NoConversions numbers
            let s = *ctx.pick_free(&DEC);
            let as_key = ctx.choose_free(2) == 1;
            ctx.observe(&(7, s, as_key));
            let math: Option<NB> = if s == "-0" { Some(NB::zero()) } else { s.parse::<NB>().ok().filter(|_| !s.contains('e') && !s.starts_with('+')) };
            if as_key {
                let j = format!("{{\"{}\": 1}}", s);
                ctx.set_sample(|| format!("encode_json_str_to_metadatum({}, BasicConversions)", j));
                match guard(|| encode_json_str_to_metadatum(j.clone(), MetadataJsonSchema::BasicConversions)) {
                    Err(p) => ctx.violation(panic_sig(P, "encode_json_str_to_metadatum", &p), format!("{}: {}", j, p.msg)),
                    Ok(Err(_)) => ctx.hit("metadata-err"),
                    Ok(Ok(md)) => {
                        if let Ok(map) = md.as_map() {
                            {
                                let list = map.keys();
                                if list.len() == 1 {
                                    if let Ok(i) = list.get(0).as_int() {
                                        if let Ok(v) = int_value(&i) {
                                            check_int(ctx, "metadata-key", &i, v);
                                            if let Some(m) = &math {
                                                if m.to_i128() != Some(v) {
                                                    ctx.violation(format!("{}/metadata-key/wrong-value", P), format!("{} -> {}", s, v));
                                                }
                                            }
                                        }
                                    } else {
                                        ctx.hit("metadata-key-as-string");
                                    }
                                }
                            }
                        }
                    }
                }
            } else {
                if s.is_empty() || s.starts_with('+') || s == "-0" {
                    return;
                }
                let j = s.to_string();
                match guard(|| encode_json_str_to_metadatum(j.clone(), MetadataJsonSchema::NoConversions)) {
                    Err(p) => ctx.violation(panic_sig(P, "encode_json_str_to_metadatum", &p), format!("{}: {}", j, p.msg)),
                    Ok(Err(_)) => ctx.hit("metadata-err"),
                    Ok(Ok(md)) => {
                        if let Ok(i) = md.as_int() {
                            if let (Ok(v), Some(m)) = (int_value(&i), &math) {
                                check_int(ctx, "metadata-number", &i, v);
                                if m.to_i128() != Some(v) {
                                    ctx.violation(format!("{}/metadata-number/wrong-value", P), format!("{} -> {}", s, v));
                                }
                            }
                        }
                    }
                }
            }
        }
    }
}

// ------------------------------------------------------------------------------------------
// BigInt

fn bigint_cbor(v: &NB) -> Vec<u8> {
    let lo = NB::from(INT_MIN);
    let hi = NB::from(INT_MAX);
    if *v >= lo && *v <= hi {
        return refcbor::emit(&Node::int(v.to_i128().unwrap()));
    }
    let (tag, mag) = if v.is_negative() { (3u64, (-v.clone() - NB::one())) } else { (2u64, v.clone()) };
    let (_, bytes) = mag.to_bytes_be();
    let mut node = Node::bytes(&bytes);
    if bytes.len() > 64 {
        node = node.chunked(64);
    }
    refcbor::emit(&Node::tag(tag, node))
}

fn sc_bigint(max_k: usize) -> impl Fn(&mut Ctx) + Sync {
    move |ctx: &mut Ctx| {
        let k = ctx.choose_free(max_k + 1);
        let d = ctx.choose_free(3) as i32 - 1;
        let neg = ctx.choose_free(2) == 1;
        let mut v: NB = (NB::one() << k) + NB::from(d);
        if neg {
            v = -v;
        }
        ctx.observe(&(k, d, neg));
        ctx.set_sample(|| format!("BigInt {}(2^{}{:+})", if neg { "-" } else { "" }, k, d));
        let s = v.to_string();
        let b = match guard(|| BigInt::from_str(&s)) {
            Ok(Ok(b)) => b,
            Ok(Err(e)) => {
                ctx.violation(format!("{}/BigInt::from_str/rejects", P), format!("{}: {:?}", s, e));
                return;
            }
            Err(p) => {
                ctx.violation(panic_sig(P, "BigInt::from_str", &p), p.msg.clone());
                return;
            }
        };
        ctx.compared();
        if b.to_str() != s {
            ctx.violation(format!("{}/BigInt::to_str/roundtrip", P), format!("{} -> {}", s, b.to_str()));
        }
        if b.is_zero() != v.is_zero() {
            ctx.violation(format!("{}/BigInt::is_zero/wrong", P), s.clone());
        }
        // CBOR
        match guard(|| b.to_bytes()) {
            Err(p) => ctx.violation(panic_sig(P, "BigInt::to_bytes", &p), format!("{}: {}", short(&s, 40), p.msg)),
            Ok(bytes) => {
                let want = bigint_cbor(&v);
                if bytes.len() > 70 {
                    ctx.hit(if neg { "bigint-chunked-neg" } else { "bigint-chunked-pos" });
                }
                if bytes != want {
                    ctx.violation(format!("{}/BigInt::to_bytes/not-rfc8949", P), format!("{} -> {} expected {}", short(&s, 40), short(&hx(&bytes), 80), short(&hx(&want), 80)));
                }
                match guard(|| BigInt::from_bytes(bytes.clone())) {
                    Ok(Ok(back)) => {
                        if back.to_str() != s {
                            ctx.violation(format!("{}/BigInt::from_bytes/roundtrip", P), format!("{} -> {}", short(&s, 40), short(&back.to_str(), 40)));
                        }
                    }
                    Ok(Err(e)) => ctx.violation(format!("{}/BigInt::from_bytes/rejects-own-output", P), format!("{}: {:?}", short(&s, 40), e)),
                    Err(p) => ctx.violation(panic_sig(P, "BigInt::from_bytes", &p), p.msg.clone()),
                }
            }
        }
        match guard(|| b.to_json().and_then(|j| BigInt::from_json(&j))) {
            Ok(Ok(back)) => {
                if back.to_str() != s {
                    ctx.violation(format!("{}/BigInt::json/roundtrip", P), short(&s, 40));
                }
            }
            Ok(Err(e)) => ctx.violation(format!("{}/BigInt::json/rejects", P), format!("{:?}", e)),
            Err(p) => ctx.violation(panic_sig(P, "BigInt::json", &p), p.msg.clone()),
        }
        // narrowing conversions
        let e_u64 = v.to_u64();
        match guard(|| (b.as_u64().map(|x| u(&x)), b.as_int())) {
            Err(p) => ctx.violation(panic_sig(P, "BigInt::as_u64/as_int", &p), p.msg.clone()),
            Ok((au, ai)) => {
                if au != e_u64 {
                    ctx.violation(format!("{}/BigInt::as_u64/wrong", P), format!("{} -> {:?}", short(&s, 40), au));
                }
                match ai {
                    Some(i) => match v.to_i128() {
                        Some(x) if x >= INT_MIN && x <= INT_MAX => check_int(ctx, "BigInt::as_int", &i, x),
                        _ => ctx.violation(format!("{}/BigInt::as_int/some-out-of-range", P), format!("{} -> {}", short(&s, 40), i.to_str())),
                    },
                    None => {}
                }
            }
        }
        // arithmetic against the reference, second operand from a small alphabet
        for o in [NB::from(1), NB::from(-1), NB::from(7), NB::from(u64::MAX), -(NB::one() << 64usize), (NB::one() << 130usize) + 1] {
            let ob = BigInt::from_str(&o.to_string()).unwrap();
            let r = guard(|| (b.add(&ob).to_str(), b.sub(&ob).to_str(), b.mul(&ob).to_str(), b.div_floor(&ob).to_str(), b.div_ceil(&ob).to_str(), b.abs().to_str(), b.increment().to_str()));
            match r {
                Err(p) => ctx.violation(panic_sig(P, "BigInt arithmetic", &p), p.msg.clone()),
                Ok((a, sb, m, df, dc, ab, inc)) => {
                    // floor / ceil division defined by q*o <= v < (q+1)*o (o>0) etc., computed here
                    let (q, r) = v.div_rem(&o);
                    let floor = if !r.is_zero() && (r.is_negative() != o.is_negative()) { &q - NB::one() } else { q.clone() };
                    let ceil = if !r.is_zero() && (r.is_negative() == o.is_negative()) { &q + NB::one() } else { q.clone() };
                    let exp = [(&v + &o).to_string(), (&v - &o).to_string(), (&v * &o).to_string(), floor.to_string(), ceil.to_string(), v.abs().to_string(), (&v + NB::one()).to_string()];
                    let got = [a, sb, m, df, dc, ab, inc];
                    let names = ["add", "sub", "mul", "div_floor", "div_ceil", "abs", "increment"];
                    for i in 0..7 {
                        if got[i] != exp[i] {
                            ctx.violation(format!("{}/BigInt::{}/wrong", P, names[i]), format!("{} op {} = {} expected {}", short(&s, 30), short(&o.to_string(), 30), short(&got[i], 30), short(&exp[i], 30)));
                        }
                    }
                }
            }
        }
    }
}

// ------------------------------------------------------------------------------------------
// Value / MultiAsset

type RefVal = (u128, BTreeMap<(u8, u8), u128>);

fn policy(i: u8) -> ScriptHash {
    ScriptHash::from_bytes(vec![0x11 * (i + 1); 28]).unwrap()
}
fn aname(i: u8) -> AssetName {
    if i == 0 {
        AssetName::new(vec![]).unwrap()
    } else {
        AssetName::new(vec![0xaa; 32]).unwrap()
    }
}

struct Bundles {
    slot_vals: Vec<Option<u64>>,
    coins: Vec<u64>,
}

impl Bundles {
    fn count(&self) -> usize {
        self.slot_vals.len().pow(4) * self.coins.len()
    }
    fn build(&self, mut idx: usize) -> (Value, RefVal) {
        let coin = self.coins[idx % self.coins.len()];
        idx /= self.coins.len();
        let mut ma = MultiAsset::new();
        let mut r = BTreeMap::new();
        let mut any = false;
        for slot in 0..4u8 {
            let sv = self.slot_vals[idx % self.slot_vals.len()];
            idx /= self.slot_vals.len();
            if let Some(q) = sv {
                ma.set_asset(&policy(slot / 2), &aname(slot % 2), &bn(q));
                any = true;
                if q > 0 {
                    r.insert((slot / 2, slot % 2), q as u128);
                }
            }
        }
        let mut v = Value::new(&bn(coin));
        if any {
            v.set_multiasset(&ma);
        }
        (v, (coin as u128, r))
    }
}

fn read_value(v: &Value) -> Result<RefVal, String> {
    let mut r = BTreeMap::new();
    if let Some(ma) = v.multiasset() {
        let pk = ma.keys();
        for i in 0..pk.len() {
            let p = pk.get(i);
            let pi = if p == policy(0) { 0 } else if p == policy(1) { 1 } else { return Err("unknown policy".into()) };
            let assets = ma.get(&p).ok_or("policy without assets")?;
            let nk = assets.keys();
            for j in 0..nk.len() {
                let n = nk.get(j);
                let ni = if n == aname(0) { 0 } else if n == aname(1) { 1 } else { return Err("unknown asset name".into()) };
                let q = u(&assets.get(&n).ok_or("name without amount")?);
                if q > 0 {
                    r.insert((pi, ni), q as u128);
                }
            }
        }
    }
    Ok((u(&v.coin()) as u128, r))
}

fn ref_add(a: &RefVal, b: &RefVal) -> Option<RefVal> {
    let c = a.0 + b.0;
    if c > u64::MAX as u128 {
        return None;
    }
    let mut m = a.1.clone();
    for (k, q) in &b.1 {
        let e = m.entry(*k).or_insert(0);
        *e += *q;
        if *e > u64::MAX as u128 {
            return None;
        }
    }
    Some((c, m))
}

/// exact subtraction: None if any component would be negative
fn ref_sub_exact(a: &RefVal, b: &RefVal) -> Option<RefVal> {
    if a.0 < b.0 {
        return None;
    }
    let mut m = a.1.clone();
    for (k, q) in &b.1 {
        let cur = m.get(k).copied().unwrap_or(0);
        if cur < *q {
            return None;
        }
        if cur == *q {
            m.remove(k);
        } else {
            m.insert(*k, cur - q);
        }
    }
    Some((a.0 - b.0, m))
}

fn ref_sub_clamped(a: &RefVal, b: &RefVal) -> RefVal {
    let mut m = a.1.clone();
    for (k, q) in &b.1 {
        let cur = m.get(k).copied().unwrap_or(0);
        if cur <= *q {
            m.remove(k);
        } else {
            m.insert(*k, cur - q);
        }
    }
    (a.0.saturating_sub(b.0), m)
}

/// component-wise comparison: Some(-1/0/1) or None when incomparable
fn ref_cmp(a: &RefVal, b: &RefVal) -> Option<i8> {
    let mut less = a.0 < b.0;
    let mut greater = a.0 > b.0;
    let mut keys: Vec<(u8, u8)> = a.1.keys().chain(b.1.keys()).copied().collect();
    keys.sort();
    keys.dedup();
    for k in keys {
        let x = a.1.get(&k).copied().unwrap_or(0);
        let y = b.1.get(&k).copied().unwrap_or(0);
        less |= x < y;
        greater |= x > y;
    }
    match (less, greater) {
        (false, false) => Some(0),
        (true, false) => Some(-1),
        (false, true) => Some(1),
        (true, true) => None,
    }
}

fn bundles(tier: Tier) -> Bundles {
    if tier.thorough() {
        Bundles { slot_vals: vec![None, Some(0), Some(1), Some(0x8000_0000_0000_0000), Some(u64::MAX)], coins: vec![0, 1, 0x8000_0000_0000_0000, u64::MAX] }
    } else {
        Bundles { slot_vals: vec![None, Some(0), Some(1), Some(u64::MAX)], coins: vec![0, 1, u64::MAX] }
    }
}

fn sc_value_pairs(tier: Tier) -> impl Fn(&mut Ctx) + Sync {
    let bs = bundles(tier);
    move |ctx: &mut Ctx| {
        let n = bs.count();
        let ia = ctx.choose_free(n);
        let ib = ctx.choose_free(n);
        let (a, ra) = bs.build(ia);
        let (b, rb) = bs.build(ib);
        ctx.observe(&(ia, ib));
        ctx.set_sample(|| format!("Value pair: a={:?} b={:?}", ra, rb));
        let overlap = ra.1.keys().any(|k| rb.1.contains_key(k));
        if ra.1.is_empty() || rb.1.is_empty() {
            ctx.hit("value-one-empty");
        } else if overlap {
            ctx.hit("value-overlapping");
        } else {
            ctx.hit("value-disjoint");
        }
        let cmp_read = |ctx: &mut Ctx, site: &str, got: &Value, want: &RefVal| match read_value(got) {
            Ok(g) if &g == want => {}
            Ok(g) => ctx.violation(format!("{}/{}/wrong-value", P, site), format!("a={:?} b={:?} got {:?} expected {:?}", ra, rb, g, want)),
            Err(e) => ctx.violation(format!("{}/{}/unreadable", P, site), e),
        };
        // add, both orders
        ctx.compared();
        let want_add = ref_add(&ra, &rb);
        for (site, x, y) in [("Value::checked_add", &a, &b), ("Value::checked_add(commuted)", &b, &a)] {
            match guard(|| x.checked_add(y)) {
                Err(p) => ctx.violation(panic_sig(P, "Value::checked_add", &p), p.msg.clone()),
                Ok(Ok(v)) => match &want_add {
                    Some(w) => {
                        ctx.hit("value-add-ok");
                        cmp_read(ctx, site, &v, w);
                    }
                    None => ctx.violation(format!("{}/{}/ok-on-overflow", P, site), format!("a={:?} b={:?} -> {:?}", ra, rb, read_value(&v))),
                },
                Ok(Err(_)) => match &want_add {
                    None => ctx.hit("value-add-err"),
                    Some(_) => ctx.violation(format!("{}/{}/err-on-representable", P, site), format!("a={:?} b={:?}", ra, rb)),
                },
            }
        }
        // (a+b)-b == a
        if let Some(_) = &want_add {
            if let Ok(Ok(s)) = guard(|| a.checked_add(&b)) {
                match guard(|| s.checked_sub(&b)) {
                    Ok(Ok(d)) => cmp_read(ctx, "Value::checked_sub(undo-add)", &d, &ra),
                    Ok(Err(e)) => ctx.violation(format!("{}/Value::checked_sub(undo-add)/err", P), format!("a={:?} b={:?}: {:?}", ra, rb, e)),
                    Err(p) => ctx.violation(panic_sig(P, "Value::checked_sub", &p), p.msg.clone()),
                }
            }
        }
        // checked_sub: exact or Err
        let want_sub = ref_sub_exact(&ra, &rb);
        match guard(|| a.checked_sub(&b)) {
            Err(p) => ctx.violation(panic_sig(P, "Value::checked_sub", &p), p.msg.clone()),
            Ok(Ok(v)) => match &want_sub {
                Some(w) => {
                    ctx.hit("value-sub-ok");
                    cmp_read(ctx, "Value::checked_sub", &v, w);
                }
                None => {
                    // coin underflow must be an error; an asset underflow that comes back Ok was clamped
                    if ra.0 < rb.0 {
                        ctx.violation(format!("{}/Value::checked_sub/ok-on-coin-underflow", P), format!("a={:?} b={:?}", ra, rb));
                    } else {
                        ctx.violation(format!("{}/Value::checked_sub/asset-underflow-clamped", P), format!("a={:?} b={:?} -> {:?}: an asset quantity of b exceeds a's, the result silently saturates at 0", ra, rb, read_value(&v)));
                    }
                }
            },
            Ok(Err(_)) => match &want_sub {
                None => ctx.hit("value-sub-err"),
                Some(_) => ctx.violation(format!("{}/Value::checked_sub/err-on-representable", P), format!("a={:?} b={:?}", ra, rb)),
            },
        }
        // clamped_sub and MultiAsset::sub are the documented saturating operations
        match guard(|| a.clamped_sub(&b)) {
            Ok(v) => cmp_read(ctx, "Value::clamped_sub", &v, &ref_sub_clamped(&ra, &rb)),
            Err(p) => ctx.violation(panic_sig(P, "Value::clamped_sub", &p), p.msg.clone()),
        }
        if let (Some(ma), Some(mb)) = (a.multiasset(), b.multiasset()) {
            match guard(|| ma.sub(&mb)) {
                Ok(m) => {
                    let v = Value::new_with_assets(&bn(0), &m);
                    let mut w = ref_sub_clamped(&ra, &rb);
                    w.0 = 0;
                    cmp_read(ctx, "MultiAsset::sub", &v, &w);
                }
                Err(p) => ctx.violation(panic_sig(P, "MultiAsset::sub", &p), p.msg.clone()),
            }
        }
        // comparison
        let want_cmp = ref_cmp(&ra, &rb);
        match want_cmp {
            Some(-1) => ctx.hit("compare=-1"),
            Some(0) => ctx.hit("compare=0"),
            Some(1) => ctx.hit("compare=1"),
            _ => ctx.hit("compare=None"),
        }
        match guard(|| (a.compare(&b), a.partial_cmp(&b))) {
            Err(p) => ctx.violation(panic_sig(P, "Value::compare", &p), p.msg.clone()),
            Ok((c, pc)) => {
                let pc8 = pc.map(|o| match o {
                    std::cmp::Ordering::Less => -1i8,
                    std::cmp::Ordering::Equal => 0,
                    std::cmp::Ordering::Greater => 1,
                });
                if c != want_cmp || pc8 != want_cmp {
                    ctx.violation(format!("{}/Value::compare/not-componentwise", P), format!("a={:?} b={:?}: compare={:?} partial_cmp={:?} expected {:?}", ra, rb, c, pc8, want_cmp));
                }
            }
        }
    }
}

fn sc_value_triples(tier: Tier) -> impl Fn(&mut Ctx) + Sync {
    // sub-alphabet: slots {absent, 1, 2^63}, coins {0,1,2^63}; thorough 3 slots-values x 4 slots x 3 coins = 243
    let bs = if tier.thorough() {
        Bundles { slot_vals: vec![None, Some(1), Some(0x8000_0000_0000_0000)], coins: vec![0, 1, 0x8000_0000_0000_0000] }
    } else {
        Bundles { slot_vals: vec![None, Some(0x8000_0000_0000_0000)], coins: vec![0, 1, 0x8000_0000_0000_0000] }
    };
    move |ctx: &mut Ctx| {
        let n = bs.count();
        let (ia, ib, ic) = (ctx.choose_free(n), ctx.choose_free(n), ctx.choose_free(n));
        let (a, ra) = bs.build(ia);
        let (b, rb) = bs.build(ib);
        let (c, rc) = bs.build(ic);
        ctx.observe(&(ia, ib, ic));
        ctx.set_sample(|| format!("Value triple {:?} {:?} {:?}", ra, rb, rc));
        ctx.compared();
        let l = guard(|| a.checked_add(&b).and_then(|x| x.checked_add(&c)));
        let r = guard(|| b.checked_add(&c).and_then(|x| a.checked_add(&x)));
        let want = ref_add(&ra, &rb).and_then(|x| ref_add(&x, &rc));
        match (l, r) {
            (Ok(l), Ok(r)) => {
                let lv = l.ok().map(|v| read_value(&v));
                let rv = r.ok().map(|v| read_value(&v));
                let w = want.map(Ok);
                if lv != w || rv != w {
                    ctx.violation(format!("{}/Value::checked_add/not-associative", P), format!("{:?} {:?} {:?}: (a+b)+c={:?} a+(b+c)={:?} expected {:?}", ra, rb, rc, lv, rv, w));
                } else if w.is_some() {
                    ctx.hit("assoc-ok");
                } else {
                    ctx.hit("assoc-err");
                }
            }
            (Err(p), _) | (_, Err(p)) => ctx.violation(panic_sig(P, "Value::checked_add", &p), p.msg.clone()),
        }
    }
}

pub fn scenario(name: &str, tier: Tier) -> Option<BoxedScenario> {
    Some(match name {
        "bignum" => Box::new(sc_bignum),
        "int" => Box::new(sc_int),
        "bigint" => Box::new(sc_bigint(2000)),
        "value_pairs" => Box::new(sc_value_pairs(tier)),
        "value_triples" => Box::new(sc_value_triples(tier)),
        _ => return None,
    })
}

pub fn run(tier: Tier, seed: u64) -> i32 {
    let mut rep = Report::new(P, tier, seed);
    if let Err(e) = refcbor::self_test() {
        crate::engine::machinery(format!("refcbor self-test failed: {}", e));
    }
    rep.rule = "full products: BigNum pairs over width classes and their neighbours x 9 operations; every Int constructor/parse path x boundary values followed by every accessor and codec; BigInt +-(2^k-1, 2^k, 2^k+1) for every k<=2000; all ordered pairs (and triples over a sub-alphabet) of value bundles; distinct = distinct argument tuples".into();
    rep.assume("division by zero is outside the domain (no mathematical result)");
    rep.assume("Value/MultiAsset equality is judged on quantities with zero = absent (reference equality), not by the library's PartialEq");
    rep.assume("MultiAsset::sub and Value::clamped_sub are the documented saturating operations and are compared with a saturating reference; Value::checked_sub is held to exact-or-error");
    rep.trusted_base = vec!["num-bigint (reference big arithmetic)".into(), "harness/src/refcbor.rs (RFC 8949 encoder used for expected bytes)".into()];
    rep.required_hits = vec![
        "bignum-ok", "bignum-err", "int@-2^64", "int@-2^63-1", "int@-2^63", "int@-1", "int@0", "int@2^63", "int@2^64-1",
        "bigint-chunked-pos", "bigint-chunked-neg", "value-one-empty", "value-overlapping", "value-disjoint", "value-add-ok", "value-add-err",
        "value-sub-ok", "value-sub-err", "compare=-1", "compare=0", "compare=1", "compare=None", "assoc-ok", "assoc-err",
    ];
    let opts = Opts::new(seed);
    for name in ["bignum", "int", "bigint", "value_pairs", "value_triples"] {
        let f = scenario(name, tier).unwrap();
        let st = explore(name, &*f, &opts);
        rep.add(name, "full product", st);
    }
    rep.finish()
}
