//! C05 — see builder.rs / builder_oracles.rs (shared builder exploration, E2).
use crate::props::BoxedScenario;
use crate::report::{Report, Tier};

const P: &str = "C05";

pub fn scenario(name: &str, tier: Tier) -> Option<BoxedScenario> {
    crate::builder::scenario_for(P, name, tier)
}

pub fn run(tier: Tier, seed: u64) -> i32 {
    let mut rep = Report::new(P, tier, seed);
    describe(&mut rep);
    crate::builder::explore_for(P, tier, seed, &mut rep);
    rep.finish()
}

fn describe(rep: &mut Report) {
    rep.rule = "explicit-state BFS over builder operation histories (inputs of every owner kind, requested outputs, certificates of every deposit/refund class, withdrawals, mints and burns, proposal, donation, fee requests, collateral, metadata) with canonical-state dedup; in every state every balancing method x configuration is finished and the produced transaction re-parsed and summed by the ledger oracle. distinct = distinct built transactions".into();
    rep.assume("a UTxO set is a function: the same outpoint is never offered with two values");
    rep.assume("the oracle is applied only when balancing returned Ok and build_tx returned a transaction");
    rep.trusted_base = vec!["notes/ledger_rules.md §1 (preservation of value, deposit/refund table)".into(), "harness/src/refcbor.rs, harness/src/ledger.rs".into()];
    rep.required_hits = vec!["conserved", "balanced-with-change", "balanced-without-change", "several-change-outputs", "token-change-split-over->=2-outputs", "pure-ada-change-next-to-token-change", "single-pure-ada-change", "no-change-output(leftover-folded-into-fee-or-exact)", "collateral-return-in-body", "tx-with-redeemers", "selection-added-inputs", "err:burn-refused", "tx-with-mint", "tx-with-withdrawal", "tx-with-donation", "tx-with-certificate", "inputs-selected", "err:not-enough-ada-for-asset-change", "fee<2^32"];
}
