//! C12 — signatures verify, derivation commutes, key encodings and encryption round-trip.
//!
//! E1, full product over small alphabets (seeds, key kinds, messages, derivation paths over a
//! boundary index alphabet, passwords / salts / nonces / plaintext lengths), with, per positive
//! case, the complete single-fault neighbourhood: every single-bit flip of the message, of the
//! signature, of the public key, of the ciphertext container, every truncation, every other key /
//! password of the alphabet.  Oracles: cryptoxide's Ed25519 verification called directly, an
//! independent implementation of BIP32-Ed25519 (V2) child derivation written from the specification
//! on HMAC-SHA512, an independent Bech32 reading of every encoded string, and an independent reading
//! of the EMIP-3 container.

use crate::engine::{explore, guard, panic_sig, Ctx, Opts};
use crate::props::BoxedScenario;
use crate::report::{Report, Tier};
use crate::util::*;
use cardano_serialization_lib as csl;
use csl::*;

const P: &str = "C12";

fn seed_bytes(i: usize, len: usize) -> Vec<u8> {
    let mut out = Vec::new();
    let mut k = 0u8;
    while out.len() < len {
        out.extend_from_slice(&blake2b256(&[i as u8, k, 0xc1, 0x2c]));
        k += 1;
    }
    out.truncate(len);
    out
}

fn root(i: usize) -> Bip32PrivateKey {
    root_opt(i).expect("harness: root key")
}
/// None when the library refuses a structurally valid imported key (reported by the caller as a violation)
fn root_opt(i: usize) -> Option<Bip32PrivateKey> {
    // entropy of 16 / 20 / 32 bytes, with and without a passphrase
    let (len, pw): (usize, &[u8]) = [(16, b"" as &[u8]), (20, b"x"), (32, b""), (32, b"passphrase")][i % 4];
    let k = Bip32PrivateKey::from_bip39_entropy(&seed_bytes(i % 4, len), pw);
    if i < 4 {
        return Some(k);
    }
    // roots 4..7: the same key material IMPORTED as raw bytes with the third-highest scalar bit set.
    // Such a key is structurally valid (lowest three bits clear, highest two bits 01) but is not in
    // the form key generation produces; every codec has to carry it unchanged.
    let mut b = k.as_bytes();
    b[31] |= 0x20;
    Bip32PrivateKey::from_bytes(&b).ok()
}

#[derive(Clone, Copy, Debug, PartialEq)]
enum KeyKind {
    Normal,
    Extended,
    /// an extended key as Ed25519 itself defines it: the clamped SHA-512 expansion of a 32-byte seed,
    /// here with the third-highest scalar bit SET (about half of all seeds give that; key generation
    /// in this library and BIP32 derivation never do)
    ExtendedExpanded,
    Bip32Raw,
}

fn private_key(kind: KeyKind, seed: usize) -> PrivateKey {
    private_key_opt(kind, seed).expect("harness: key of the alphabet")
}
/// None when the library refuses a structurally valid key of the alphabet
fn private_key_opt(kind: KeyKind, seed: usize) -> Option<PrivateKey> {
    Some(match kind {
        KeyKind::Normal => PrivateKey::from_normal_bytes(&seed_bytes(seed, 32)).unwrap(),
        KeyKind::Extended => PrivateKey::from_extended_bytes(&root(seed).derive(seed as u32).to_raw_key().as_bytes()).unwrap(),
        KeyKind::Bip32Raw => root(seed).derive(0x8000_0000 + seed as u32).derive(7).to_raw_key(),
        KeyKind::ExtendedExpanded => {
            use cryptoxide::digest::Digest;
            let mut h = cryptoxide::sha2::Sha512::new();
            // (a seed of its own: expanded from the seed of a Normal key it would BE that key)
            h.input(&seed_bytes(seed + 16, 32));
            let mut b = [0u8; 64];
            h.result(&mut b);
            b[0] &= 248;
            b[31] &= 63;
            b[31] |= 64 | 0x20;
            return PrivateKey::from_extended_bytes(&b).ok();
        }
    })
}

fn message(i: usize) -> Vec<u8> {
    let len = [0usize, 1, 31, 32, 33, 64, 65, 255][i];
    (0..len).map(|k| (k as u8).wrapping_mul(31).wrapping_add(i as u8)).collect()
}

fn verify_ref(pk: &[u8], msg: &[u8], sig: &[u8]) -> bool {
    match (<[u8; 32]>::try_from(pk), <[u8; 64]>::try_from(sig)) {
        (Ok(pk), Ok(sig)) => cryptoxide::ed25519::verify(msg, &pk, &sig),
        _ => false,
    }
}

/// HRP and payload of a Bech32 string, read with the bech32 crate directly
fn bech32_read(s: &str) -> Option<(String, Vec<u8>)> {
    use bech32::FromBase32;
    let (hrp, data) = bech32::decode(s).ok()?;
    Some((hrp, Vec::<u8>::from_base32(&data).ok()?))
}

// ---------------------------------------------------------------------------------------------

fn sc_sign(ctx: &mut Ctx) {
    let kinds = [KeyKind::Normal, KeyKind::Extended, KeyKind::Bip32Raw, KeyKind::ExtendedExpanded];
    let kind = kinds[ctx.choose_free(kinds.len())];
    let seed = ctx.choose_free(3);
    let mi = ctx.choose_free(8);
    let sk = match private_key_opt(kind, seed) {
        Some(k) => k,
        None => return ctx.violation(format!("{}/structurally-valid-key-refused/{:?}", P, kind), format!("{:?} key #{}: the loader refuses a correctly clamped key", kind, seed)),
    };
    let pk = sk.to_public();
    let msg = message(mi);
    let what = || format!("{:?} key #{} message of {} bytes", kind, seed, msg.len());
    ctx.set_sample(|| what());
    ctx.observe(&(format!("{:?}", kind), seed, mi));
    let sig = match guard(|| sk.sign(&msg)) {
        Ok(s) => s,
        Err(p) => return ctx.violation(panic_sig(P, "sign", &p), what()),
    };
    let (pkb, sigb) = (pk.as_bytes(), sig.to_bytes());
    ctx.compared();
    if !pk.verify(&msg, &sig) {
        ctx.violation(format!("{}/own-signature-rejected/{:?}", P, kind), what());
    }
    if !verify_ref(&pkb, &msg, &sigb) {
        ctx.violation(format!("{}/signature-not-valid-ed25519/{:?}", P, kind), what());
    }
    if sk.sign(&msg).to_bytes() != sigb {
        ctx.violation(format!("{}/signing-not-deterministic", P), what());
    }
    ctx.hit("signature-verifies");
    // every single-bit flip of the message; one byte more, one byte less
    let mut neg = 0u64;
    let mut bad = |ctx: &mut Ctx, which: &str, detail: String| ctx.violation(format!("{}/forged-{}-accepted/{:?}", P, which, kind), format!("{} ; {}", detail, what()));
    for bit in 0..msg.len() * 8 {
        let mut m = msg.clone();
        m[bit / 8] ^= 1 << (bit % 8);
        neg += 1;
        if pk.verify(&m, &sig) {
            bad(ctx, "message", format!("bit {}", bit));
        }
    }
    let mut longer = msg.clone();
    longer.push(0);
    if pk.verify(&longer, &sig) {
        bad(ctx, "message", "one zero byte appended".into());
    }
    if !msg.is_empty() && pk.verify(&msg[..msg.len() - 1], &sig) {
        bad(ctx, "message", "last byte dropped".into());
    }
    // every single-bit flip of the signature
    for bit in 0..512 {
        let mut s = sigb.clone();
        s[bit / 8] ^= 1 << (bit % 8);
        neg += 1;
        if let Ok(s2) = Ed25519Signature::from_bytes(s) {
            if pk.verify(&msg, &s2) {
                bad(ctx, "signature", format!("bit {}", bit));
            }
        }
    }
    // every single-bit flip of the public key (when it still decodes), and every other key of the alphabet
    for bit in 0..256 {
        let mut k = pkb.clone();
        k[bit / 8] ^= 1 << (bit % 8);
        neg += 1;
        if let Ok(Ok(k2)) = guard(|| PublicKey::from_bytes(&k)) {
            if let Ok(true) = guard(|| k2.verify(&msg, &sig)) {
                bad(ctx, "public-key", format!("bit {}", bit));
            }
        }
    }
    for k2 in kinds {
        for s2 in 0..3 {
            if (k2, s2) != (kind, seed) {
                neg += 1;
                if private_key_opt(k2, s2).map(|k| k.to_public().verify(&msg, &sig)).unwrap_or(false) {
                    bad(ctx, "public-key", format!("{:?} key #{}", k2, s2));
                }
            }
        }
    }
    for _ in 0..neg {
        ctx.compared();
    }
    ctx.hit("single-fault-neighbourhood-rejected");

    // encodings of the signature
    let enc_bad = |ctx: &mut Ctx, which: &str| ctx.violation(format!("{}/encoding-round-trip/{}", P, which), what());
    match Ed25519Signature::from_bytes(sigb.clone()) {
        Ok(s) if s.to_bytes() == sigb => {}
        _ => enc_bad(ctx, "signature-bytes"),
    }
    match Ed25519Signature::from_hex(&sig.to_hex()) {
        Ok(s) if s.to_bytes() == sigb && sig.to_hex() == hx(&sigb) => {}
        _ => enc_bad(ctx, "signature-hex"),
    }
    let sb = sig.to_bech32();
    match Ed25519Signature::from_bech32(&sb) {
        Ok(s) if s.to_bytes() == sigb => {}
        _ => enc_bad(ctx, "signature-bech32"),
    }
    if bech32_read(&sb) != Some(("ed25519_sig".to_string(), sigb.clone())) {
        ctx.violation(format!("{}/bech32-form/signature", P), sb.clone());
    }
    // public key
    match PublicKey::from_bytes(&pkb) {
        Ok(k) if k.as_bytes() == pkb => {}
        _ => enc_bad(ctx, "public-key-bytes"),
    }
    match PublicKey::from_hex(&pk.to_hex()) {
        Ok(k) if k.as_bytes() == pkb && pk.to_hex() == hx(&pkb) => {}
        _ => enc_bad(ctx, "public-key-hex"),
    }
    let pb = pk.to_bech32();
    match PublicKey::from_bech32(&pb) {
        Ok(k) if k.as_bytes() == pkb => {}
        _ => enc_bad(ctx, "public-key-bech32"),
    }
    if bech32_read(&pb) != Some(("ed25519_pk".to_string(), pkb.clone())) {
        ctx.violation(format!("{}/bech32-form/public-key", P), pb.clone());
    }
    if pk.hash().to_bytes() != blake2b224(&pkb) {
        ctx.violation(format!("{}/public-key-hash-not-blake2b224", P), what());
    }
    // private key: the decoded key is the same key (same bytes, same public key, same signatures)
    let skb = sk.as_bytes();
    let same = |k: &PrivateKey| k.as_bytes() == skb && k.to_public().as_bytes() == pkb && k.sign(&msg).to_bytes() == sigb;
    let from_raw = if skb.len() == 32 { PrivateKey::from_normal_bytes(&skb) } else { PrivateKey::from_extended_bytes(&skb) };
    match from_raw {
        Ok(k) if same(&k) => {}
        _ => enc_bad(ctx, "private-key-bytes"),
    }
    match PrivateKey::from_hex(&sk.to_hex()) {
        Ok(k) if same(&k) && sk.to_hex() == hx(&skb) => {}
        _ => enc_bad(ctx, "private-key-hex"),
    }
    let kb = sk.to_bech32();
    match PrivateKey::from_bech32(&kb) {
        Ok(k) if same(&k) => {}
        _ => enc_bad(ctx, "private-key-bech32"),
    }
    let want_hrp = if skb.len() == 32 { "ed25519_sk" } else { "ed25519e_sk" };
    if bech32_read(&kb) != Some((want_hrp.to_string(), skb.clone())) {
        ctx.violation(format!("{}/bech32-form/private-key", P), format!("hrp/payload of {}", kb.len()));
    }
    ctx.hit(if skb.len() == 32 { "encodings:normal-key" } else { "encodings:extended-key" });
    // human-readable-part checks: no decoder accepts another type's string
    let cross: Vec<(&str, bool)> = vec![
        ("signature<-public-key", Ed25519Signature::from_bech32(&pb).is_ok()),
        ("signature<-private-key", Ed25519Signature::from_bech32(&kb).is_ok()),
        ("public-key<-signature", PublicKey::from_bech32(&sb).is_ok()),
        ("public-key<-private-key", PublicKey::from_bech32(&kb).is_ok()),
        ("private-key<-public-key", PrivateKey::from_bech32(&pb).is_ok()),
        ("private-key<-signature", PrivateKey::from_bech32(&sb).is_ok()),
        ("bip32-public<-public-key", Bip32PublicKey::from_bech32(&pb).is_ok()),
        ("bip32-private<-private-key", Bip32PrivateKey::from_bech32(&kb).is_ok()),
    ];
    for (name, accepted) in cross {
        ctx.compared();
        if accepted {
            ctx.violation(format!("{}/bech32-wrong-type-accepted/{}", P, name), what());
        }
    }
    // wrong lengths are refused
    for (name, ok) in [
        ("public-key-31", PublicKey::from_bytes(&pkb[..31]).is_ok()),
        ("public-key-33", PublicKey::from_bytes(&[pkb.clone(), vec![0]].concat()).is_ok()),
        ("signature-63", Ed25519Signature::from_bytes(sigb[..63].to_vec()).is_ok()),
        ("signature-65", Ed25519Signature::from_bytes([sigb.clone(), vec![0]].concat()).is_ok()),
        ("normal-key-31", PrivateKey::from_normal_bytes(&seed_bytes(1, 31)).is_ok()),
        ("normal-key-33", PrivateKey::from_normal_bytes(&seed_bytes(1, 33)).is_ok()),
        ("extended-key-63", PrivateKey::from_extended_bytes(&seed_bytes(1, 63)).is_ok()),
    ] {
        ctx.compared();
        if ok {
            ctx.violation(format!("{}/wrong-length-accepted/{}", P, name), what());
        }
    }
}

// ---------------------------------------------------------------------------------------------
// witness helpers

fn sc_witness(ctx: &mut Ctx) {
    let hi = ctx.choose_free(4);
    let seed = ctx.choose_free(3);
    let helper = ctx.choose_free(5);
    let hash: Vec<u8> = match hi {
        0 => vec![0u8; 32],
        1 => vec![0xff; 32],
        2 => (0..32u8).collect(),
        _ => blake2b256(b"tx body"),
    };
    let th = TransactionHash::from_bytes(hash.clone()).unwrap();
    let what = || format!("helper {} key #{} hash {}", helper, seed, hx(&hash));
    ctx.set_sample(|| what());
    ctx.observe(&(hi, seed, helper));
    ctx.compared();
    let addr = crate::gen::byron_cached(seed);
    // (public key the witness must carry, its signature, name)
    let (want_pk, got_pk, sig, name): (Vec<u8>, Vec<u8>, Vec<u8>, &str) = match helper {
        0 | 1 | 2 => {
            let sk = private_key([KeyKind::Normal, KeyKind::Extended, KeyKind::Bip32Raw, KeyKind::ExtendedExpanded][helper], seed);
            let w = make_vkey_witness(&th, &sk);
            (sk.to_public().as_bytes(), w.vkey().public_key().as_bytes(), w.signature().to_bytes(), "make_vkey_witness")
        }
        3 => {
            let k = root(seed).derive(0x8000_002c).derive(0x8000_0717).derive(0x8000_0000).derive(0).derive(seed as u32);
            let w = make_icarus_bootstrap_witness(&th, &addr, &k);
            if w.chain_code() != k.chaincode() {
                ctx.violation(format!("{}/bootstrap-witness-chain-code/icarus", P), what());
            }
            if w.attributes() != addr.attributes() {
                ctx.violation(format!("{}/bootstrap-witness-attributes/icarus", P), what());
            }
            (k.to_public().to_raw_key().as_bytes(), w.vkey().public_key().as_bytes(), w.signature().to_bytes(), "make_icarus_bootstrap_witness")
        }
        _ => {
            let k = root(seed).derive(0x8000_0000).derive(0x8000_0001 + seed as u32);
            // legacy keys are any 96 bytes: also one outside the BIP32-Ed25519 normal form (third-highest
            // bit of the scalar set), as old Daedalus wallets hold
            let mut kb = k.as_bytes();
            if hi >= 2 {
                kb[31] |= 0x20;
            }
            let dk = LegacyDaedalusPrivateKey::from_bytes(&kb).unwrap();
            let k = if hi >= 2 {
                // the public key that belongs to these bytes, computed independently
                let ext: [u8; 64] = kb[0..64].try_into().unwrap();
                let pk = cryptoxide::ed25519::extended_to_public(&ext);
                ctx.hit("daedalus-key-outside-normal-form");
                let sig_w = make_daedalus_bootstrap_witness(&th, &addr, &dk);
                if sig_w.vkey().public_key().as_bytes() != pk {
                    ctx.violation(format!("{}/witness-carries-another-public-key/make_daedalus_bootstrap_witness", P), what());
                }
                if !verify_ref(&pk, &hash, &sig_w.signature().to_bytes()) {
                    ctx.violation(format!("{}/witness-signature-not-over-the-given-hash/make_daedalus_bootstrap_witness", P), format!("key outside normal form ; {}", what()));
                }
                if sig_w.chain_code() != kb[64..96] || dk.as_bytes() != kb {
                    ctx.violation(format!("{}/bootstrap-witness-chain-code/daedalus", P), what());
                }
                return;
            } else {
                k
            };
            let w = make_daedalus_bootstrap_witness(&th, &addr, &dk);
            if w.chain_code() != dk.chaincode() || dk.chaincode() != k.chaincode() {
                ctx.violation(format!("{}/bootstrap-witness-chain-code/daedalus", P), what());
            }
            if w.attributes() != addr.attributes() {
                ctx.violation(format!("{}/bootstrap-witness-attributes/daedalus", P), what());
            }
            if dk.as_bytes() != k.as_bytes() {
                ctx.violation(format!("{}/encoding-round-trip/daedalus-key-bytes", P), what());
            }
            (k.to_public().to_raw_key().as_bytes(), w.vkey().public_key().as_bytes(), w.signature().to_bytes(), "make_daedalus_bootstrap_witness")
        }
    };
    if want_pk != got_pk {
        ctx.violation(format!("{}/witness-carries-another-public-key/{}", P, name), what());
    }
    if !verify_ref(&got_pk, &hash, &sig) {
        ctx.violation(format!("{}/witness-signature-not-over-the-given-hash/{}", P, name), what());
    } else {
        ctx.hit("witness-signs-the-hash");
    }
    for bit in 0..256 {
        let mut h = hash.clone();
        h[bit / 8] ^= 1 << (bit % 8);
        ctx.compared();
        if verify_ref(&got_pk, &h, &sig) {
            ctx.violation(format!("{}/witness-signature-valid-for-another-hash/{}", P, name), format!("bit {} ; {}", bit, what()));
        }
    }
    // not the hash of the hash, not the hex text
    if verify_ref(&got_pk, &blake2b256(&hash), &sig) || verify_ref(&got_pk, hx(&hash).as_bytes(), &sig) {
        ctx.violation(format!("{}/witness-signs-a-transform-of-the-hash/{}", P, name), what());
    }
}

// ---------------------------------------------------------------------------------------------
// derivation

/// BIP32-Ed25519 (Khovratovich-Law, "V2" as used by Cardano) private child derivation, written
/// from the specification: returns the 96-byte extended private key of the child.
fn ref_derive_private(xprv: &[u8], index: u32) -> Vec<u8> {
    use cryptoxide::hmac::Hmac;
    use cryptoxide::mac::Mac;
    use cryptoxide::sha2::Sha512;
    let (kl, kr, cc) = (&xprv[0..32], &xprv[32..64], &xprv[64..96]);
    let ext: [u8; 64] = xprv[0..64].try_into().unwrap();
    let pk = cryptoxide::ed25519::extended_to_public(&ext);
    let le = index.to_le_bytes();
    let mac = |tag: u8| -> Vec<u8> {
        let mut m = Hmac::new(Sha512::new(), cc);
        if index >= 0x8000_0000 {
            m.input(&[tag]);
            m.input(kl);
            m.input(kr);
        } else {
            m.input(&[tag + 2]);
            m.input(&pk);
        }
        m.input(&le);
        m.result().code().to_vec()
    };
    let z = mac(0);
    let i = mac(1);
    // left = kl + 8 * zl[0..28]   (little-endian), right = kr + zr mod 2^256
    let mut left = [0u8; 32];
    let mut carry = 0u32;
    for k in 0..32 {
        let zl = if k < 28 { (z[k] as u32) << 3 } else { 0 };
        let r = kl[k] as u32 + zl + carry;
        left[k] = r as u8;
        carry = r >> 8;
    }
    let mut right = [0u8; 32];
    let mut carry = 0u32;
    for k in 0..32 {
        let r = kr[k] as u32 + z[32 + k] as u32 + carry;
        right[k] = r as u8;
        carry = r >> 8;
    }
    let mut out = left.to_vec();
    out.extend_from_slice(&right);
    out.extend_from_slice(&i[32..64]);
    out
}

fn sc_derive(alphabet: Vec<u32>, depth: usize) -> impl Fn(&mut Ctx) + Sync {
    move |ctx: &mut Ctx| {
        let ri = ctx.choose_free(8);
        let n = ctx.choose_free(depth + 1);
        if ri >= 4 {
            // imported roots outside the generated form: derivation from them may leave the valid
            // scalar range (that is what the cleared bit is for), so only the key itself is examined
            if n > 0 {
                return;
            }
            ctx.hit("imported-root-with-third-highest-bit-set");
        }
        let path: Vec<u32> = (0..n).map(|_| alphabet[ctx.choose_free(alphabet.len())]).collect();
        let what = || format!("root #{} path {:x?}", ri, path);
        ctx.set_sample(|| what());
        ctx.observe(&(ri, &path));
        let mut sk = match root_opt(ri) {
            Some(k) => k,
            None => return ctx.violation(format!("{}/structurally-valid-key-refused/Bip32PrivateKey", P), what()),
        };
        let mut pk: Option<Bip32PublicKey> = Some(sk.to_public());
        for (d, i) in path.iter().enumerate() {
            ctx.compared();
            let want = ref_derive_private(&sk.as_bytes(), *i);
            let child = match guard(|| sk.derive(*i)) {
                Ok(c) => c,
                Err(p) => return ctx.violation(panic_sig(P, "derive", &p), what()),
            };
            if child.as_bytes() != want {
                ctx.violation(format!("{}/private-derivation-differs-from-specification/{}", P, if *i >= 0x8000_0000 { "hardened" } else { "soft" }), format!("step {} index {:#x} ; {}", d, i, what()));
            }
            pk = match pk {
                None => None,
                Some(parent) => {
                    let r = guard(|| parent.derive(*i));
                    match r {
                        Err(p) => return ctx.violation(panic_sig(P, "derive-public", &p), what()),
                        Ok(Ok(c)) => {
                            if *i >= 0x8000_0000 {
                                ctx.violation(format!("{}/hardened-derivation-from-public-key-accepted", P), format!("step {} index {:#x} ; {}", d, i, what()));
                            } else if c.as_bytes() != child.to_public().as_bytes() {
                                ctx.violation(format!("{}/soft-derivation-does-not-commute-with-to_public", P), format!("step {} index {:#x} ; {}", d, i, what()));
                            } else {
                                ctx.hit("soft-derivation-commutes");
                                if *i == 0x7fff_ffff {
                                    ctx.hit("soft-derivation-commutes-at-max-soft-index");
                                }
                            }
                            Some(c)
                        }
                        Ok(Err(_)) => {
                            if *i < 0x8000_0000 {
                                ctx.violation(format!("{}/soft-derivation-from-public-key-refused", P), format!("step {} index {:#x} ; {}", d, i, what()));
                            } else {
                                ctx.hit("hardened-from-public-refused");
                            }
                            None
                        }
                    }
                }
            };
            sk = child;
        }
        if n == depth {
            ctx.hit("path-at-full-depth");
        }
        // the key at the end of the path: encodings, and it signs
        let b = sk.as_bytes();
        let pb = sk.to_public().as_bytes();
        let enc_bad = |ctx: &mut Ctx, which: &str| ctx.violation(format!("{}/encoding-round-trip/{}", P, which), what());
        ctx.compared();
        match Bip32PrivateKey::from_bytes(&b) {
            Ok(k) if k.as_bytes() == b => {}
            _ => enc_bad(ctx, "bip32-private-bytes"),
        }
        match Bip32PrivateKey::from_hex(&sk.to_hex()) {
            Ok(k) if k.as_bytes() == b && sk.to_hex() == hx(&b) => {}
            _ => enc_bad(ctx, "bip32-private-hex"),
        }
        let sb = sk.to_bech32();
        match Bip32PrivateKey::from_bech32(&sb) {
            Ok(k) if k.as_bytes() == b => {}
            _ => enc_bad(ctx, "bip32-private-bech32"),
        }
        if bech32_read(&sb) != Some(("xprv".to_string(), b.clone())) {
            ctx.violation(format!("{}/bech32-form/bip32-private", P), what());
        }
        let x128 = sk.to_128_xprv();
        let mut want128 = b[0..64].to_vec();
        want128.extend_from_slice(&pb[0..32]);
        want128.extend_from_slice(&b[64..96]);
        if x128 != want128 {
            ctx.violation(format!("{}/128-byte-form-layout", P), what());
        }
        match Bip32PrivateKey::from_128_xprv(&x128) {
            Ok(k) if k.as_bytes() == b => {}
            _ => enc_bad(ctx, "bip32-private-128"),
        }
        for wrong in [127usize, 129, 96, 0] {
            let mut v = x128.clone();
            v.resize(wrong, 0);
            if let Ok(Ok(_)) = guard(|| Bip32PrivateKey::from_128_xprv(&v)) {
                ctx.violation(format!("{}/wrong-length-accepted/128-byte-form-{}", P, wrong), what());
            }
        }
        let pubk = sk.to_public();
        match Bip32PublicKey::from_bytes(&pb) {
            Ok(k) if k.as_bytes() == pb => {}
            _ => enc_bad(ctx, "bip32-public-bytes"),
        }
        match Bip32PublicKey::from_hex(&pubk.to_hex()) {
            Ok(k) if k.as_bytes() == pb && pubk.to_hex() == hx(&pb) => {}
            _ => enc_bad(ctx, "bip32-public-hex"),
        }
        let pbs = pubk.to_bech32();
        match Bip32PublicKey::from_bech32(&pbs) {
            Ok(k) if k.as_bytes() == pb => {}
            _ => enc_bad(ctx, "bip32-public-bech32"),
        }
        if bech32_read(&pbs) != Some(("xpub".to_string(), pb.clone())) {
            ctx.violation(format!("{}/bech32-form/bip32-public", P), what());
        }
        if Bip32PrivateKey::from_bech32(&pbs).is_ok() || Bip32PublicKey::from_bech32(&sb).is_ok() {
            ctx.violation(format!("{}/bech32-wrong-type-accepted/bip32", P), what());
        }
        if pubk.chaincode() != b[64..96] || sk.chaincode() != b[64..96] || pb[32..64] != b[64..96] {
            ctx.violation(format!("{}/chain-code-mismatch", P), what());
        }
        let ext: [u8; 64] = b[0..64].try_into().unwrap();
        if pb[0..32] != cryptoxide::ed25519::extended_to_public(&ext) || pubk.to_raw_key().as_bytes() != pb[0..32] {
            ctx.violation(format!("{}/public-key-of-derived-key-differs", P), what());
        }
        let raw = sk.to_raw_key();
        let msg = message(4);
        let sig = raw.sign(&msg);
        if !verify_ref(&pb[0..32], &msg, &sig.to_bytes()) || !pubk.to_raw_key().verify(&msg, &sig) {
            ctx.violation(format!("{}/derived-key-signature-rejected", P), what());
        }
        ctx.hit("derived-key-encodings-checked");
    }
}

// ---------------------------------------------------------------------------------------------
// EMIP-3

fn sc_emip3(full_neighbourhood: bool) -> impl Fn(&mut Ctx) + Sync {
    move |ctx: &mut Ctx| {
        let passwords: [&[u8]; 4] = [b"p", b"password", &[0u8], &[0xff; 40]];
        let lens = [1usize, 2, 16, 63, 64, 65, 200, 0];
        let pi = ctx.choose_free(passwords.len());
        let li = ctx.choose_free(lens.len());
        let si = ctx.choose_free(2);
        // the single-fault neighbourhood is split into 16 interleaved slices (a free choice), so that
        // it spreads over the workers; quick tier: only the two shortest plaintexts, two passwords
        let neighbourhood = full_neighbourhood || (li <= 1 && si == 0 && (pi == 0 || pi == 3));
        let slice = if neighbourhood { ctx.choose_free(16) } else { 0 };
        let pw = hx(passwords[pi]);
        let salt = seed_bytes(10 + si, 32);
        let nonce = seed_bytes(20 + si, 12);
        let data: Vec<u8> = seed_bytes(30 + li, lens[li]);
        let what = || format!("password #{} plaintext of {} bytes salt/nonce #{}", pi, data.len(), si);
        ctx.set_sample(|| what());
        ctx.observe(&(pi, li, si, slice));
        ctx.compared();
        let enc = match guard(|| encrypt_with_password(&pw, &hx(&salt), &hx(&nonce), &hx(&data))) {
            Err(p) => return ctx.violation(panic_sig(P, "encrypt", &p), what()),
            Ok(Err(e)) => return ctx.violation(format!("{}/emip3/encrypt-refuses", P), format!("{:?} ; {}", e, what())),
            Ok(Ok(e)) => e,
        };
        let raw = match hex::decode(&enc) {
            Ok(r) => r,
            Err(_) => return ctx.violation(format!("{}/emip3/output-not-hex", P), what()),
        };
        // container: salt | nonce | tag | ciphertext
        if raw.len() != 60 + data.len() || raw[0..32] != salt[..] || raw[32..44] != nonce[..] {
            ctx.violation(format!("{}/emip3/container-layout", P), what());
        }
        if !data.is_empty() && raw[60..] == data[..] {
            ctx.violation(format!("{}/emip3/plaintext-not-encrypted", P), what());
        }
        match guard(|| decrypt_with_password(&pw, &enc)) {
            Err(p) => return ctx.violation(panic_sig(P, "decrypt", &p), what()),
            Ok(Ok(d)) => {
                if d != hx(&data) {
                    ctx.violation(format!("{}/emip3/decrypt-returns-other-plaintext", P), what());
                } else {
                    ctx.hit("emip3:round-trip");
                }
            }
            Ok(Err(e)) => ctx.violation(format!("{}/emip3/right-password-refused/{}", P, if data.is_empty() { "empty-plaintext" } else { "plaintext" }), format!("{:?} ; {}", e, what())),
        }
        // upper-case hex of the same password is the same password
        if let Ok(Ok(d)) = guard(|| decrypt_with_password(&pw.to_uppercase(), &enc.to_uppercase())) {
            if d != hx(&data) {
                ctx.violation(format!("{}/emip3/decrypt-returns-other-plaintext", P), what());
            }
        }
        // every other password of the alphabet, and near misses of this one
        let mut others: Vec<Vec<u8>> = passwords.iter().enumerate().filter(|(i, _)| *i != pi).map(|(_, p)| p.to_vec()).collect();
        let mut near = passwords[pi].to_vec();
        near[0] ^= 1;
        others.push(near);
        others.push([passwords[pi], &[0u8]].concat());
        if passwords[pi].len() > 1 {
            others.push(passwords[pi][..passwords[pi].len() - 1].to_vec());
        }
        if slice == 0 {
            for o in others {
                ctx.compared();
                if let Ok(Ok(_)) = guard(|| decrypt_with_password(&hx(&o), &enc)) {
                    let zero_padded = o.len() > passwords[pi].len() && o.starts_with(passwords[pi]) && o[passwords[pi].len()..].iter().all(|b| *b == 0);
                    ctx.violation(format!("{}/emip3/wrong-password-accepted/{}", P, if zero_padded { "same-password-with-trailing-zero-bytes" } else { "other" }), format!("password {} ; {}", hx(&o), what()));
                }
            }
            // HMAC key normalisation: a password longer than the SHA-512 block and its digest
            if pi == 0 && li == 0 {
                let long = seed_bytes(77, 129);
                let digest = {
                    use cryptoxide::digest::Digest;
                    let mut h = cryptoxide::sha2::Sha512::new();
                    h.input(&long);
                    let mut out = vec![0u8; 64];
                    h.result(&mut out);
                    out
                };
                if let Ok(Ok(e2)) = guard(|| encrypt_with_password(&hx(&long), &hx(&salt), &hx(&nonce), &hx(&data))) {
                    ctx.compared();
                    if let Ok(Ok(_)) = guard(|| decrypt_with_password(&hx(&digest), &e2)) {
                        ctx.violation(format!("{}/emip3/wrong-password-accepted/sha512-of-a-password-longer-than-128-bytes", P), what());
                    }
                    if let Ok(Ok(d)) = guard(|| decrypt_with_password(&hx(&long), &e2)) {
                        if d != hx(&data) {
                            ctx.violation(format!("{}/emip3/decrypt-returns-other-plaintext", P), what());
                        }
                    }
                }
            }
        }
        ctx.hit("emip3:wrong-passwords-refused");
        // modified ciphertext: every single-bit flip of the container (short plaintexts: all of it;
        // long ones: all of salt, nonce, tag and the first and last 8 bytes), every truncation
        if neighbourhood {
            let positions: Vec<usize> = if raw.len() <= 80 { (0..raw.len()).collect() } else { (0..68).chain(raw.len() - 8..raw.len()).collect() };
            for pos in positions.into_iter().filter(|p| p % 16 == slice) {
                for bit in 0..8 {
                    let mut m = raw.clone();
                    m[pos] ^= 1 << bit;
                    ctx.compared();
                    if let Ok(Ok(_)) = guard(|| decrypt_with_password(&pw, &hx(&m))) {
                        let region = if pos < 32 { "salt" } else if pos < 44 { "nonce" } else if pos < 60 { "tag" } else { "ciphertext" };
                        ctx.violation(format!("{}/emip3/modified-container-accepted/{}", P, region), format!("byte {} bit {} ; {}", pos, bit, what()));
                    }
                }
            }
            for cut in (0..raw.len()).filter(|c| c % 16 == slice) {
                ctx.compared();
                if let Ok(Ok(_)) = guard(|| decrypt_with_password(&pw, &hx(&raw[..cut]))) {
                    ctx.violation(format!("{}/emip3/truncated-container-accepted", P), format!("{} of {} bytes ; {}", cut, raw.len(), what()));
                }
            }
            let mut longer = raw.clone();
            longer.push(0);
            if let Ok(Ok(_)) = guard(|| decrypt_with_password(&pw, &hx(&longer))) {
                ctx.violation(format!("{}/emip3/extended-container-accepted", P), what());
            }
            ctx.hit("emip3:single-fault-neighbourhood-refused");
        }
        // malformed arguments are refused, not panicked on
        for (name, r) in [
            ("empty-password", guard(|| encrypt_with_password("", &hx(&salt), &hx(&nonce), &hx(&data)).is_ok())),
            ("salt-31", guard(|| encrypt_with_password(&pw, &hx(&salt[..31]), &hx(&nonce), &hx(&data)).is_ok())),
            ("nonce-13", guard(|| encrypt_with_password(&pw, &hx(&salt), &hx(&[nonce.clone(), vec![0]].concat()), &hx(&data)).is_ok())),
            ("odd-hex", guard(|| encrypt_with_password(&pw, &hx(&salt), &hx(&nonce), "abc").is_ok())),
            ("decrypt-non-hex", guard(|| decrypt_with_password(&pw, "zz").is_ok())),
        ] {
            match r {
                Err(p) => ctx.violation(panic_sig(P, "emip3-args", &p), name.to_string()),
                Ok(true) => ctx.violation(format!("{}/emip3/malformed-argument-accepted/{}", P, name), what()),
                Ok(false) => {}
            }
        }
    }
}

// ---------------------------------------------------------------------------------------------

pub fn scenario(name: &str, tier: Tier) -> Option<BoxedScenario> {
    match name {
        "sign_verify" => Some(Box::new(sc_sign)),
        "witness_helpers" => Some(Box::new(sc_witness)),
        "derivation" => {
            if tier.thorough() {
                Some(Box::new(sc_derive(vec![0, 1, 0x7fff_ffff, 0x8000_0000, 0xffff_ffff], 6)))
            } else {
                Some(Box::new(sc_derive(vec![0, 1, 2, 0x7fff_fffe, 0x7fff_ffff, 0x8000_0000, 0x8000_0001, 0xffff_ffff], 3)))
            }
        }
        "derivation_wide" => Some(Box::new(sc_derive(vec![0, 1, 2, 1852, 1815, 0x7fff_fffe, 0x7fff_ffff, 0x8000_0000, 0x8000_0001, 0x8000_073c, 0x8000_0717, 0xffff_ffff], 4))),
        "emip3" => Some(Box::new(sc_emip3(tier.thorough()))),
        _ => None,
    }
}

pub fn run(tier: Tier, seed: u64) -> i32 {
    let mut rep = Report::new(P, tier, seed);
    rep.rule = "sign_verify: 4 key kinds (normal, extended, raw key of a BIP32 key, an extended key expanded from a seed with the third-highest scalar bit set) x 3 seeds x 8 messages (0,1,31,32,33,64,65,255 bytes): signature verifies under the wrapper and under cryptoxide directly, is deterministic, and is rejected for EVERY single-bit flip of the message, of the signature and of the public key, for a lengthened / shortened message and for every other key of the alphabet; every encoding (bytes, hex, Bech32) of signature, public and private key round-trips, the Bech32 string read independently has the expected human-readable part and payload, no decoder accepts another type's string, wrong lengths are refused. witness_helpers: make_vkey_witness x 3 key kinds, make_icarus_bootstrap_witness, make_daedalus_bootstrap_witness x 3 seeds x 4 hashes: public key, chain code and attributes are the key's / address's, the signature verifies over exactly the 32 hash bytes and over none of its 256 single-bit neighbours nor a transform. derivation: 4 roots (entropy 16/20/32 bytes, with/without passphrase; plus the same four imported as raw bytes with the third-highest scalar bit set - valid but not in generated form - at path length 0) x every path up to depth D over the index alphabet: each private step equals an independent implementation of BIP32-Ed25519 V2, each soft step commutes with to_public, each hardened step from a public key is refused; at the end of every path all encodings (bytes, hex, Bech32 xprv/xpub, 128-byte form incl. layout and wrong lengths), chain codes and a signature are checked. emip3: 4 passwords x 8 plaintext lengths (incl. 0) x 2 salt/nonce pairs: container layout, round trip, every other and near-miss password refused, every single-bit flip and every truncation of the container refused (thorough: for every case, containers over 80 bytes: salt, nonce, tag and the first and last 8 ciphertext bytes; quick: plaintexts of 1 and 2 bytes under two passwords), malformed arguments refused.".into();
    rep.assume("randomly generated keys (generate_ed25519*) are outside a deterministic enumeration; keys come from seeds, as in the property's quantifier");
    rep.assume("Ed25519, HMAC-SHA512, PBKDF2 and ChaCha20-Poly1305 themselves (cryptoxide) are trusted; the property is about the library's use of them");
    rep.trusted_base = vec!["cryptoxide (ed25519 verify, extended_to_public, hmac, sha2)".into(), "bech32 crate (independent reading of encoded strings)".into(), "BIP32-Ed25519 specification as transcribed in props/c12.rs::ref_derive_private".into()];
    rep.required_hits = vec![
        "signature-verifies",
        "single-fault-neighbourhood-rejected",
        "encodings:normal-key",
        "encodings:extended-key",
        "witness-signs-the-hash",
        "daedalus-key-outside-normal-form",
        "imported-root-with-third-highest-bit-set",
        "soft-derivation-commutes",
        "soft-derivation-commutes-at-max-soft-index",
        "hardened-from-public-refused",
        "path-at-full-depth",
        "derived-key-encodings-checked",
        "emip3:round-trip",
        "emip3:wrong-passwords-refused",
        "emip3:single-fault-neighbourhood-refused",
    ];
    let mut names = vec![("sign_verify", "full product + single-fault neighbourhoods"), ("witness_helpers", "full product + 256 hash neighbours"), ("derivation", "all paths to the stated depth"), ("emip3", "full product + single-fault neighbourhoods")];
    if tier.thorough() {
        names.push(("derivation_wide", "all paths to depth 4 over 12 indices"));
    }
    for (name, desc) in names {
        let f = scenario(name, tier).unwrap();
        let st = explore(name, &*f, &Opts::new(seed));
        rep.add(name, desc, st);
    }
    rep.bound("derivation_depth", serde_json::json!(if tier.thorough() { 6 } else { 3 }));
    rep.finish()
}
