//! C06 — see builder.rs / builder_oracles.rs (shared builder exploration, E2).
use crate::props::BoxedScenario;
use crate::report::{Report, Tier};

const P: &str = "C06";

pub fn scenario(name: &str, tier: Tier) -> Option<BoxedScenario> {
    crate::builder::scenario_for(P, name, tier)
}

pub fn run(tier: Tier, seed: u64) -> i32 {
    let mut rep = Report::new(P, tier, seed);
    describe(&mut rep);
    crate::builder::explore_for(P, tier, seed, &mut rep);
    rep.finish()
}

fn describe(rep: &mut Report) {
    rep.rule = "same exploration as C05; oracle: the built transaction is completed with exactly the witnesses the ledger requires (witsVKeyNeeded computed by the harness from the parsed body and the UTxO table; one bootstrap witness per Byron address) and fee >= a*size + b + script fee + tiered reference-script fee; requested minimum / exact fees honoured; a fee that build_tx refuses after a successful balancing call is judged on build_tx_unsafe().".into();
    rep.assume("native-script signers: every key named by the scripts in use (upper bound shared by ledger size and builder)");
    rep.trusted_base = vec!["notes/ledger_rules.md §2, §4".into(), "harness/src/ledger.rs (min_fee, signed_bytes)".into()];
    rep.required_hits = vec!["fee-sufficient", "bootstrap-witness-needed", ">=3-signers", "exact-fee-request", "min-fee-request", "token-change-split-over->=2-outputs"];
}
