//! C02 — parsers are total: malformed input yields an error, never a panic / abort / hang;
//! and an accepted value re-serialises to exactly one well-formed CBOR item.
//!
//! Inputs, all enumerated: (1) every byte string of length <= 2 for every byte-level decoder;
//! (2) every single-deviation mutant (truncation at every prefix, 20 structural substitutions at
//! every position, inserted break / null, duplicated trailing item, every length head rewritten
//! to n-1 / n+1 / 0) of the valid encodings produced by the generators at deviation <= 1;
//! (3) nesting to depth 256 of every container kind inside each recursive type;
//! (4) oversized declared lengths (2^16 .. 2^63) at every length head, run in child processes
//! because an allocation failure aborts instead of unwinding; (5) malformed hex / Bech32 /
//! Base58 / JSON text for the text-level entry points.

use crate::engine::{explore, guard, panic_sig, Ctx, Opts, PanicRec};
use crate::gen::{self, Codec, Mode};
use crate::props::BoxedScenario;
use crate::refcbor::{self, Kind, Node};
use crate::report::{Report, Tier};
use crate::util::*;
use cardano_serialization_lib as csl;
use csl::*;
use serde_json::{json, Value as J};
use std::collections::BTreeMap;
use std::sync::{Mutex, OnceLock};

const P: &str = "C02";

pub enum DecOutcome {
    Rejected,
    /// accepted; re-serialisation result
    Accepted(Result<Vec<u8>, PanicRec>),
    Panicked(PanicRec),
}

pub struct Dec {
    pub name: &'static str,
    pub raw: bool,
    pub bytes: fn(&[u8]) -> DecOutcome,
    pub hex: fn(&str) -> Result<bool, PanicRec>,
    pub json: Option<fn(&str) -> Result<bool, PanicRec>>,
}

fn run_dec<T: Codec>(b: &[u8]) -> DecOutcome {
    match guard(|| T::dec(b.to_vec())) {
        Err(p) => DecOutcome::Panicked(p),
        Ok(Err(_)) => DecOutcome::Rejected,
        Ok(Ok(v)) => DecOutcome::Accepted(guard(|| v.enc())),
    }
}
fn run_hex<T: Codec>(s: &str) -> Result<bool, PanicRec> {
    guard(|| T::dec_hex(s).is_ok())
}
fn run_json<T: Codec>(s: &str) -> Result<bool, PanicRec> {
    guard(|| T::from_json_(s).is_ok())
}

macro_rules! registry {
    ($($t:ident),* $(,)?) => {
        vec![ $( Dec { name: <$t as Codec>::NAME, raw: false, bytes: run_dec::<$t>, hex: run_hex::<$t>, json: if <$t as Codec>::HAS_JSON { Some(run_json::<$t>) } else { None } } ),* ]
    };
}

pub fn decoders() -> Vec<Dec> {
    let mut v = registry!(
        UnitInterval, Transaction, TransactionOutputs, TransactionOutput, Ipv4, Ipv6, URL, DNSRecordAorAAAA, DNSRecordSRV, SingleHostAddr, SingleHostName,
        MultiHostName, Relay, PoolMetadata, RewardAddresses, Withdrawals, Update, GenesisHashes, ScriptHashes, ProposedProtocolParameterUpdates, ProtocolVersion,
        AssetName, AssetNames, Assets, MultiAsset, Mint, NetworkId, Block, Header, HeaderBody, OperationalCert, TransactionBodies, VersionedBlock, Certificate,
        Certificates, CommitteeColdResign, CommitteeHotAuth, DRepDeregistration, DRepRegistration, DRepUpdate, GenesisKeyDelegation, MoveInstantaneousRewardsCert,
        MIRToStakeCredentials, MoveInstantaneousReward, PoolRegistration, Relays, PoolParams, PoolRetirement, StakeAndVoteDelegation, StakeDelegation,
        StakeDeregistration, StakeRegistration, StakeRegistrationAndDelegation, StakeVoteRegistrationAndDelegation, VoteDelegation, VoteRegistrationAndDelegation,
        Credential, Credentials, Nonce, Vkey, VRFCert, Ed25519KeyHashes, Anchor, DRep, GovernanceActionId, Committee, Constitution, GovernanceAction,
        HardForkInitiationAction, NewConstitutionAction, NoConfidenceAction, ParameterChangeAction, TreasuryWithdrawalsAction, UpdateCommitteeAction, VotingProposal,
        VotingProposals, Voter, VotingProcedure, VotingProcedures, GeneralTransactionMetadata, AuxiliaryData, NativeScript, ScriptPubkey, ScriptAll, ScriptAny,
        ScriptNOfK, TimelockStart, TimelockExpiry, NativeScripts, BigInt, BigNum, Int, CostModel, Costmdls, ExUnitPrices, ExUnits, Language, Redeemer,
        RedeemerTag, Redeemers, PoolVotingThresholds, DRepVotingThresholds, ProtocolParamUpdate, ScriptRef, TransactionBody, TransactionInput, TransactionInputs,
        BootstrapWitness, BootstrapWitnesses, TransactionWitnessSet, TransactionWitnessSets, Vkeywitness, Vkeywitnesses, Value,
        MetadataMap, MetadataList, TransactionMetadatum, TransactionMetadatumLabels, ConstrPlutusData, PlutusMap, PlutusData, PlutusList,
        PlutusScript, PlutusScripts, TransactionUnspentOutput,
    );
    let mut raw = registry!(Ed25519KeyHash, ScriptHash, TransactionHash, DataHash, AuxiliaryDataHash, Address);
    for d in raw.iter_mut() {
        d.raw = true;
    }
    v.extend(raw);
    // entry points that are not codec types
    v.push(Dec { name: "FixedTransaction", raw: false, bytes: |b| match guard(|| FixedTransaction::from_bytes(b.to_vec())) {
        Err(p) => DecOutcome::Panicked(p),
        Ok(Err(_)) => DecOutcome::Rejected,
        Ok(Ok(v)) => DecOutcome::Accepted(guard(|| v.to_bytes())),
    }, hex: |s| guard(|| FixedTransaction::from_hex(s).is_ok()), json: None });
    v.push(Dec { name: "FixedTransaction::new_from_body_bytes", raw: false, bytes: |b| match guard(|| FixedTransaction::new_from_body_bytes(b)) {
        Err(p) => DecOutcome::Panicked(p),
        Ok(Err(_)) => DecOutcome::Rejected,
        Ok(Ok(v)) => DecOutcome::Accepted(guard(|| v.to_bytes())),
    }, hex: |_| Ok(false), json: None });
    v.push(Dec { name: "ByronAddress", raw: true, bytes: |b| match guard(|| ByronAddress::from_bytes(b.to_vec())) {
        Err(p) => DecOutcome::Panicked(p),
        Ok(Err(_)) => DecOutcome::Rejected,
        Ok(Ok(v)) => DecOutcome::Accepted(guard(|| v.to_bytes())),
    }, hex: |_| Ok(false), json: None });
    v.push(Dec { name: "PlutusScript::from_bytes_v2", raw: false, bytes: |b| match guard(|| PlutusScript::from_bytes_v2(b.to_vec())) {
        Err(p) => DecOutcome::Panicked(p),
        Ok(Err(_)) => DecOutcome::Rejected,
        Ok(Ok(v)) => DecOutcome::Accepted(guard(|| v.to_bytes())),
    }, hex: |s| guard(|| PlutusScript::from_hex_with_version(s, &Language::new_plutus_v3()).is_ok()), json: None });
    v.push(Dec { name: "has_transaction_set_tag", raw: false, bytes: |b| match guard(|| has_transaction_set_tag(b.to_vec())) {
        Err(p) => DecOutcome::Panicked(p),
        Ok(Err(_)) => DecOutcome::Rejected,
        Ok(Ok(_)) => DecOutcome::Accepted(Ok(vec![0x00])),
    }, hex: |_| Ok(false), json: None });
    // raw-byte key / signature parsers
    macro_rules! rawdec {
        ($name:expr, $f:expr) => {
            v.push(Dec { name: $name, raw: true, bytes: |b| match guard(|| $f(b)) {
                Err(p) => DecOutcome::Panicked(p),
                Ok(false) => DecOutcome::Rejected,
                Ok(true) => DecOutcome::Accepted(Ok(vec![])),
            }, hex: |_| Ok(false), json: None });
        };
    }
    rawdec!("PublicKey::from_bytes", |b: &[u8]| PublicKey::from_bytes(b).is_ok());
    rawdec!("PrivateKey::from_normal_bytes", |b: &[u8]| PrivateKey::from_normal_bytes(b).is_ok());
    rawdec!("PrivateKey::from_extended_bytes", |b: &[u8]| PrivateKey::from_extended_bytes(b).is_ok());
    rawdec!("Bip32PrivateKey::from_bytes", |b: &[u8]| Bip32PrivateKey::from_bytes(b).is_ok());
    rawdec!("Bip32PrivateKey::from_128_xprv", |b: &[u8]| Bip32PrivateKey::from_128_xprv(b).is_ok());
    rawdec!("Bip32PublicKey::from_bytes", |b: &[u8]| Bip32PublicKey::from_bytes(b).is_ok());
    rawdec!("LegacyDaedalusPrivateKey::from_bytes", |b: &[u8]| LegacyDaedalusPrivateKey::from_bytes(b).is_ok());
    rawdec!("Ed25519Signature::from_bytes", |b: &[u8]| Ed25519Signature::from_bytes(b.to_vec()).is_ok());
    rawdec!("KESSignature::from_bytes", |b: &[u8]| KESSignature::from_bytes(b.to_vec()).is_ok());
    v
}

fn decoders_static() -> &'static Vec<Dec> {
    static D: OnceLock<Vec<Dec>> = OnceLock::new();
    D.get_or_init(decoders)
}

/// Inputs that could make the CBOR reader allocate a declared length before reading it: any
/// offset holding a string/array/map head with a 4- or 8-byte argument above 2^31. An allocation
/// failure aborts the process instead of unwinding, so these inputs are run in child processes.
fn risky(input: &[u8]) -> bool {
    for i in 0..input.len() {
        let b = input[i];
        let major = b >> 5;
        if !(2..=5).contains(&major) {
            continue;
        }
        match b & 0x1f {
            26 if i + 4 < input.len() + 0 && i + 5 <= input.len() => {
                let v = u32::from_be_bytes([input[i + 1], input[i + 2], input[i + 3], input[i + 4]]);
                if v > (1 << 31) {
                    return true;
                }
            }
            27 if i + 9 <= input.len() => {
                let mut a = [0u8; 8];
                a.copy_from_slice(&input[i + 1..i + 9]);
                if u64::from_be_bytes(a) > (1 << 31) {
                    return true;
                }
            }
            _ => {}
        }
    }
    false
}

static QUARANTINE: Mutex<Vec<(&'static str, Vec<u32>)>> = Mutex::new(Vec::new());
thread_local! {
    static SCENARIO: std::cell::Cell<&'static str> = std::cell::Cell::new("");
}
fn in_child() -> bool {
    std::env::var("VERIF_CHILD").is_ok()
}

/// Judge one decoder call.
/// The first head, in structural (reading) order, that declares more than 2^31 items / bytes:
/// "string-head" (byte or text string: the allocation happens inside cbor_event) or
/// "container-head" (array or map: cbor_event allocates nothing for these, so an allocation of
/// that length is the library's own).
fn first_huge_head(input: &[u8]) -> Option<&'static str> {
    fn walk(b: &[u8], pos: &mut usize, depth: usize, found: &mut Option<&'static str>) -> bool {
        if found.is_some() || depth > 300 || *pos >= b.len() {
            return false;
        }
        let h = b[*pos];
        let (major, info) = (h >> 5, h & 0x1f);
        *pos += 1;
        let arg: Option<u64> = match info {
            0..=23 => Some(info as u64),
            24 | 25 | 26 | 27 => {
                let w = 1usize << (info - 24);
                if *pos + w > b.len() {
                    return false;
                }
                let mut v = 0u64;
                for k in 0..w {
                    v = (v << 8) | b[*pos + k] as u64;
                }
                *pos += w;
                Some(v)
            }
            31 => None,
            _ => return false,
        };
        match major {
            0 | 1 => true,
            2 | 3 => match arg {
                Some(n) => {
                    if n > (1 << 31) {
                        *found = Some("string-head");
                        return false;
                    }
                    *pos = (*pos).saturating_add(n as usize);
                    *pos <= b.len()
                }
                None => {
                    while *pos < b.len() && b[*pos] != 0xff {
                        if !walk(b, pos, depth + 1, found) {
                            return false;
                        }
                    }
                    *pos += 1;
                    true
                }
            },
            4 | 5 => {
                let per = if major == 4 { 1 } else { 2 };
                match arg {
                    Some(n) => {
                        if n > (1 << 31) {
                            *found = Some("container-head");
                            return false;
                        }
                        for _ in 0..n.saturating_mul(per) {
                            if !walk(b, pos, depth + 1, found) {
                                return false;
                            }
                        }
                        true
                    }
                    None => {
                        while *pos < b.len() && b[*pos] != 0xff {
                            if !walk(b, pos, depth + 1, found) {
                                return false;
                            }
                        }
                        *pos += 1;
                        true
                    }
                }
            }
            6 => walk(b, pos, depth + 1, found),
            _ => true,
        }
    }
    let mut found = None;
    let mut pos = 0;
    walk(input, &mut pos, 0, &mut found);
    found
}

/// the child process notes, before calling the decoder, which kind of head the input declares,
/// so that an abort (which leaves no other trace) can be attributed precisely
fn note_class_in_child(kind: &str) {
    use std::io::Write;
    if let (Ok(path), Ok(idx)) = (std::env::var("C02_PROGRESS_FILE"), CHILD_INDEX.lock()) {
        if let Ok(mut f) = std::fs::OpenOptions::new().append(true).open(path) {
            let _ = writeln!(f, "CLASS {} {}", *idx, kind);
        }
    }
}
static CHILD_INDEX: Mutex<usize> = Mutex::new(0);

fn judge(ctx: &mut Ctx, d: &Dec, input: &[u8], family: &str) {
    if risky(input) && !in_child() {
        ctx.hit("quarantined-to-child-process");
        QUARANTINE.lock().unwrap().push((SCENARIO.with(|s| s.get()), ctx.choices()));
        return;
    }
    let huge = if risky(input) { Some(first_huge_head(input).unwrap_or("string-head")) } else { None };
    if let (Some(k), true) = (huge, in_child()) {
        note_class_in_child(k);
    }
    ctx.compared();
    // a decoder that does not return is caught by the watchdog (engine.rs)
    let _watch = crate::engine::watch_begin(P, d.name, input);
    match (d.bytes)(input) {
        DecOutcome::Rejected => ctx.hit("rejected"),
        DecOutcome::Panicked(p) if huge.is_some() && p.msg.contains("capacity overflow") => ctx.violation(
            format!("{}/declared-length/{}/panic@{}/{}::from_bytes", P, huge.unwrap(), crate::engine::short_file(&p.file), d.name),
            format!("[{}] input {} : {} ({}:{})", family, short(&hx(input), 300), p.msg, p.file, p.line),
        ),
        DecOutcome::Panicked(p) => ctx.violation(panic_sig(P, &format!("{}::from_bytes", d.name), &p), format!("[{}] input {} : {} ({}:{})", family, short(&hx(input), 300), p.msg, p.file, p.line)),
        DecOutcome::Accepted(Err(p)) => ctx.violation(panic_sig(P, &format!("{}::to_bytes(after from_bytes)", d.name), &p), format!("[{}] input {} : {}", family, short(&hx(input), 300), p.msg)),
        DecOutcome::Accepted(Ok(out)) => {
            ctx.hit("accepted");
            if !d.raw {
                if let Err(e) = refcbor::parse(&out) {
                    // two different situations: the library kept malformed input bytes verbatim
                    // (byte-preserving types on top of lenient length checks), or it constructed
                    // malformed bytes itself
                    let preserved = out == input || (out.len() >= 4 && input.windows(out.len()).any(|w| w == &out[..]));
                    if preserved {
                        ctx.violation(format!("{}/accepted-malformed-input-preserved-verbatim/{}", P, d.name), format!("[{}] input {} is accepted and written back as {} : {:?}", family, short(&hx(input), 200), short(&hx(&out), 200), e));
                    } else {
                        ctx.violation(format!("{}/{}/accepted-value-reserialises-malformed", P, d.name), format!("[{}] input {} -> {} : {:?}", family, short(&hx(input), 200), short(&hx(&out), 200), e));
                    }
                }
            }
        }
    }
}

// ---------------------------------------------------------------------------------------------
// (1) all inputs of length <= 2

fn sc_short(ctx: &mut Ctx) {
    let ds = decoders_static();
    let di = ctx.choose_free(ds.len());
    let k = ctx.choose_free(1 + 256 + 65536);
    let input: Vec<u8> = if k == 0 {
        vec![]
    } else if k <= 256 {
        vec![(k - 1) as u8]
    } else {
        let x = k - 257;
        vec![(x >> 8) as u8, (x & 0xff) as u8]
    };
    ctx.observe(&(di, k));
    ctx.set_sample(|| format!("{}::from_bytes({})", ds[di].name, hx(&input)));
    judge(ctx, &ds[di], &input, "len<=2");
}

// ---------------------------------------------------------------------------------------------
// seeds: valid encodings from the generators

static SEEDS: OnceLock<Vec<(&'static str, Vec<Vec<u8>>)>> = OnceLock::new();

fn collect_seeds() -> Vec<(&'static str, Vec<Vec<u8>>)> {
    // generators at deviation <= 1, single-threaded and deterministic
    let sink: Mutex<BTreeMap<&'static str, Vec<Vec<u8>>>> = Mutex::new(BTreeMap::new());
    for (name, f) in gen::roots() {
        let scen = move |ctx: &mut Ctx| {
            gen::MODE.with(|m| m.set(Mode::Seeds));
            gen::reset_flags();
            f(ctx);
            gen::MODE.with(|m| m.set(Mode::Off));
        };
        let mut opts = Opts::new(0).bound(1);
        opts.threads = 1;
        gen::SEEDS.with(|s| s.borrow_mut().clear());
        let scen_ref: &(dyn Fn(&mut Ctx) + Sync) = &scen;
        // run on this thread so that the thread-local seed buffer is ours
        let mut next: Option<Vec<u32>> = Some(vec![]);
        let mut count = 0;
        while let Some(p) = next {
            let c = crate::engine::run_once(scen_ref, p, crate::engine::Mode::Full, 0, false);
            next = next_prefix_pub(&c.trace, opts.bound);
            count += 1;
            if count > 3000 {
                break;
            }
        }
        let _ = name;
        let got: Vec<(&'static str, Vec<u8>)> = gen::SEEDS.with(|s| s.borrow_mut().drain(..).collect());
        let mut g = sink.lock().unwrap();
        for (n, b) in got {
            let e = g.entry(n).or_default();
            if b.len() <= 700 && e.len() < 60 && !e.contains(&b) {
                e.push(b);
            }
        }
    }
    let mut out: Vec<(&'static str, Vec<Vec<u8>>)> = sink.into_inner().unwrap().into_iter().collect();
    // seeds come from the library's own encoder: one that is not well-formed CBOR (for an
    // independent reader) is not a seed
    for (_, list) in out.iter_mut() {
        list.retain(|b| refcbor::parse(b).is_ok());
    }
    // encoder-independent seeds for the value types (two policies, names of two lengths), so that
    // the tree edits reach shapes such as {policy: {}} next to a non-empty policy whatever the
    // library's encoder does
    {
        let ma = Node::map(vec![
            (Node::bytes(&[0x11; 28]), Node::map(vec![(Node::bytes(b"a"), Node::uint(5))])),
            (Node::bytes(&[0x22; 28]), Node::map(vec![(Node::bytes(b"a"), Node::uint(5)), (Node::bytes(b"bb"), Node::uint(1_000_000))])),
        ]);
        let mint = Node::map(vec![(Node::bytes(&[0x11; 28]), Node::map(vec![(Node::bytes(b"a"), Node::int(-5))])), (Node::bytes(&[0x22; 28]), Node::map(vec![(Node::bytes(b"bb"), Node::uint(7))]))]);
        let value = Node::arr(vec![Node::uint(1_000_000), ma.clone()]);
        let addr: Vec<u8> = [vec![0x61u8], vec![9u8; 28]].concat();
        let out_legacy = Node::arr(vec![Node::bytes(&addr), value.clone()]);
        let out_map = Node::map(vec![(Node::uint(0), Node::bytes(&addr)), (Node::uint(1), value.clone())]);
        let mut add = |name: &'static str, n: &Node| {
            let b = refcbor::emit(n);
            match out.iter_mut().find(|(k, _)| *k == name) {
                Some((_, list)) => {
                    if !list.contains(&b) {
                        list.push(b);
                    }
                }
                None => out.push((name, vec![b])),
            }
        };
        add("MultiAsset", &ma);
        add("Mint", &mint);
        add("Value", &value);
        add("TransactionOutput", &out_legacy);
        add("TransactionOutput", &out_map);
    }
    // hand-made seeds for entry points without a generator
    out.push(("FixedTransaction", vec![minimal_tx_bytes(), full_wits_tx_bytes()]));
    out.push(("ByronAddress", vec![crate::props::c11::byron_bytes(&crate::props::c11::RefByron { root: vec![0x5a; 28], payload: Some(vec![1, 2]), magic: Some(1), typ: 0 })]));
    out.sort_by(|a, b| a.0.cmp(b.0));
    out
}

fn next_prefix_pub(trace: &[(u32, u32, bool)], bound: Option<u32>) -> Option<Vec<u32>> {
    let cost = |t: &[(u32, u32, bool)]| t.iter().filter(|x| x.0 != 0 && !x.2).count() as u32;
    let mut i = trace.len();
    while i > 0 {
        i -= 1;
        let (c, a, free) = trace[i];
        if c + 1 < a {
            let cst = cost(&trace[..i]) + if free { 0 } else { 1 };
            if bound.map_or(true, |b| cst <= b) {
                let mut p: Vec<u32> = trace[..i].iter().map(|t| t.0).collect();
                p.push(c + 1);
                return Some(p);
            }
        }
    }
    None
}

pub fn minimal_tx_bytes() -> Vec<u8> {
    let body = Node::map(vec![
        (Node::uint(0), Node::tag(258, Node::arr(vec![Node::arr(vec![Node::bytes(&[7u8; 32]), Node::uint(0)])]))),
        (Node::uint(1), Node::arr(vec![Node::arr(vec![Node::bytes(&{ let mut a = vec![0x61]; a.extend(vec![9u8; 28]); a }), Node::uint(1_000_000)])])),
        (Node::uint(2), Node::uint(170_000)),
    ]);
    refcbor::emit(&Node::arr(vec![body, Node::map(vec![]), Node::boolean(true), Node::null()]))
}

pub fn full_wits_tx_bytes() -> Vec<u8> {
    let body = Node::map(vec![
        (Node::uint(0), Node::arr(vec![Node::arr(vec![Node::bytes(&[7u8; 32]), Node::uint(0)])])),
        (Node::uint(1), Node::arr(vec![])),
        (Node::uint(2), Node::uint(0)),
    ]);
    let vk = Node::arr(vec![Node::bytes(&gen::vkeywitness_i(0).vkey().public_key().as_bytes()), Node::bytes(&gen::vkeywitness_i(0).signature().to_bytes())]);
    let wits = Node::map(vec![
        (Node::uint(0), Node::tag(258, Node::arr(vec![vk]))),
        (Node::uint(1), Node::arr(vec![Node::arr(vec![Node::uint(0), Node::bytes(&[1u8; 28])])])),
        (Node::uint(3), Node::arr(vec![Node::bytes(&[1, 2, 3])])),
        (Node::uint(4), Node::arr(vec![Node::uint(5)])),
        (Node::uint(5), Node::map(vec![(Node::arr(vec![Node::uint(0), Node::uint(0)]), Node::arr(vec![Node::uint(1), Node::arr(vec![Node::uint(2), Node::uint(3)])]))])),
    ]);
    let aux = Node::map(vec![(Node::uint(1), Node::text("hi"))]);
    refcbor::emit(&Node::arr(vec![body, wits, Node::boolean(true), aux]))
}

fn seeds() -> &'static Vec<(&'static str, Vec<Vec<u8>>)> {
    SEEDS.get_or_init(|| {
        // children load the seed list the parent computed (a respawn after an abort must be cheap)
        if let Ok(path) = std::env::var("C02_SEEDS_FILE") {
            if let Ok(text) = std::fs::read_to_string(&path) {
                let names: Vec<&'static str> = decoders().iter().map(|d| d.name).collect();
                let mut out: Vec<(&'static str, Vec<Vec<u8>>)> = Vec::new();
                for line in text.lines() {
                    let mut it = line.splitn(2, ' ');
                    let n = it.next().unwrap_or("");
                    let h = it.next().unwrap_or("");
                    let stat: &'static str = match names.iter().find(|x| **x == n) {
                        Some(x) => x,
                        None => Box::leak(n.to_string().into_boxed_str()),
                    };
                    if h == "!" {
                        out.push((stat, vec![]));
                        continue;
                    }
                    let b = hex::decode(h).unwrap_or_default();
                    match out.last_mut() {
                        Some(e) if e.0 == stat => e.1.push(b),
                        _ => out.push((stat, vec![b])),
                    }
                }
                return out;
            }
        }
        collect_seeds()
    })
}

fn write_seeds_file() -> std::path::PathBuf {
    let path = std::env::temp_dir().join(format!("csl-mc-c02-seeds-{}.txt", std::process::id()));
    let mut text = String::new();
    for (n, list) in seeds() {
        if list.is_empty() {
            text.push_str(&format!("{} !\n", n));
        }
        for b in list {
            text.push_str(&format!("{} {}\n", n, hx(b)));
        }
    }
    std::fs::write(&path, text).unwrap();
    path
}

const SUBST: [u8; 20] = [0x00, 0x17, 0x18, 0x19, 0x1a, 0x1b, 0x1f, 0x3b, 0x40, 0x58, 0x5f, 0x7f, 0x80, 0x9f, 0xa0, 0xbf, 0xc2, 0xd9, 0xf6, 0xff];

/// positions of every length/argument head in a CBOR encoding: (offset of initial byte, width, argument)
fn heads(b: &[u8]) -> Vec<(usize, u8, u64, bool)> {
    let mut out = Vec::new();
    if let Ok(n) = refcbor::parse(b) {
        n.walk(&mut |x| {
            let is_len = matches!(x.kind, Kind::Bytes(_) | Kind::Text(_) | Kind::Array(_) | Kind::Map(_));
            if !x.indefinite {
                let arg = match &x.kind {
                    Kind::UInt(v) | Kind::NInt(v) => *v,
                    Kind::Bytes(v) | Kind::Text(v) => v.len() as u64,
                    Kind::Array(v) => v.len() as u64,
                    Kind::Map(v) => v.len() as u64,
                    Kind::Tag(t, _) => *t,
                    _ => 0,
                };
                out.push((x.start, x.width, arg, is_len));
            }
        });
    }
    out
}

/// rewrite the head at `off` (keeping the major type) to carry `new_arg` in the shortest width
fn rewrite_head(b: &[u8], off: usize, width: u8, new_arg: u64) -> Vec<u8> {
    let major = b[off] >> 5;
    let mut out = b[..off].to_vec();
    let w = refcbor::min_width(new_arg);
    match w {
        0 => out.push((major << 5) | new_arg as u8),
        1 => {
            out.push((major << 5) | 24);
            out.push(new_arg as u8);
        }
        2 => {
            out.push((major << 5) | 25);
            out.extend_from_slice(&(new_arg as u16).to_be_bytes());
        }
        4 => {
            out.push((major << 5) | 26);
            out.extend_from_slice(&(new_arg as u32).to_be_bytes());
        }
        _ => {
            out.push((major << 5) | 27);
            out.extend_from_slice(&new_arg.to_be_bytes());
        }
    }
    out.extend_from_slice(&b[off + 1 + width as usize..]);
    out
}

fn dec_for(name: &str) -> Option<&'static Dec> {
    decoders_static().iter().find(|d| d.name == name)
}

/// one mutation of one seed; `pairs` applies a second, independent substitution
fn sc_mutants(pairs: bool) -> impl Fn(&mut Ctx) + Sync {
    move |ctx: &mut Ctx| {
        let ss = seeds();
        let ti = ctx.choose_free(ss.len());
        let (tname, list) = &ss[ti];
        let d = match dec_for(tname) {
            Some(d) => d,
            None => return,
        };
        if list.is_empty() {
            return;
        }
        let si = ctx.choose_free(list.len());
        let seed = &list[si];
        if pairs && seed.len() > 64 {
            return;
        }
        let fam = ctx.choose_free(if pairs { 1 } else { 7 });
        let mut m: Vec<u8> = seed.clone();
        let family: &str;
        match fam {
            0 => {
                family = if pairs { "two-substitutions" } else { "substitution" };
                let pos = ctx.choose_free(seed.len().max(1));
                let s = ctx.choose_free(SUBST.len());
                if seed.is_empty() {
                    return;
                }
                m[pos] = SUBST[s];
                if pairs {
                    let pos2 = ctx.choose_free(seed.len());
                    let s2 = ctx.choose_free(SUBST.len());
                    if pos2 <= pos {
                        return;
                    }
                    m[pos2] = SUBST[s2];
                }
            }
            1 => {
                family = "truncation";
                let n = ctx.choose_free(seed.len().max(1));
                m.truncate(n);
                ctx.hit("truncated");
            }
            2 => {
                family = "insertion";
                let pos = ctx.choose_free(seed.len() + 1);
                let what = *ctx.pick_free(&[0xffu8, 0xf6, 0x00, 0x9f, 0x5f, 0xbf]);
                m.insert(pos, what);
            }
            3 => {
                family = "head-rewrite";
                let hs = heads(seed);
                if hs.is_empty() {
                    return;
                }
                let hi = ctx.choose_free(hs.len());
                let (off, w, arg, _) = hs[hi];
                let how = ctx.choose_free(4);
                let new = match how {
                    0 => 0,
                    1 => arg.saturating_sub(1),
                    2 => arg.saturating_add(1),
                    _ => arg.saturating_add(2),
                };
                if new == arg {
                    return;
                }
                m = rewrite_head(seed, off, w, new);
            }
            4 => {
                family = "indefinite-head";
                // turn a definite container / string head into its indefinite form (no break added,
                // and with a break appended at the end)
                let hs: Vec<_> = heads(seed).into_iter().filter(|h| h.3).collect();
                if hs.is_empty() {
                    return;
                }
                let hi = ctx.choose_free(hs.len());
                let with_break = ctx.choose_free(2) == 1;
                let (off, w, _, _) = hs[hi];
                let major = seed[off] >> 5;
                let mut out = seed[..off].to_vec();
                out.push((major << 5) | 31);
                out.extend_from_slice(&seed[off + 1 + w as usize..]);
                if with_break {
                    out.push(0xff);
                }
                m = out;
                ctx.hit("indefinite-form");
            }
            6 => {
                family = "emptied-or-shortened-node";
                // well-formed edits of the tree: any container or string emptied, or its last
                // entry removed (count adjusted) - shapes such as {policy: {}} that byte edits miss
                let mut tree = match refcbor::parse(seed) {
                    Ok(t) => t,
                    Err(_) => return,
                };
                let total = tree.count_nodes();
                let ni = ctx.choose_free(total.max(1));
                let how = ctx.choose_free(2);
                match tree.nth_mut(ni) {
                    Some(node) => {
                        let changed = match (&mut node.kind, how) {
                            (Kind::Array(a), 0) if !a.is_empty() => {
                                a.clear();
                                true
                            }
                            (Kind::Array(a), _) if a.len() >= 2 => {
                                a.pop();
                                true
                            }
                            (Kind::Map(mm), 0) if !mm.is_empty() => {
                                mm.clear();
                                true
                            }
                            (Kind::Map(mm), _) if mm.len() >= 2 => {
                                mm.pop();
                                true
                            }
                            (Kind::Bytes(b), 0) | (Kind::Text(b), 0) if !b.is_empty() => {
                                b.clear();
                                node.chunks.clear();
                                true
                            }
                            _ => false,
                        };
                        if !changed {
                            return;
                        }
                        if !node.indefinite {
                            node.width = 0;
                        }
                    }
                    None => return,
                }
                m = refcbor::emit(&tree);
                ctx.hit("well-formed-tree-edit");
                if std::env::var("VERIF_DEBUG_C02").is_ok() && *tname == "MultiAsset" {
                    eprintln!("DEBUG tree-edit MultiAsset seed {} -> {}", hx(seed), hx(&m));
                }
            }
            _ => {
                family = "duplicate-tail";
                // repeat the last top-level child (duplicated map entry / extra array element)
                if let Ok(n) = refcbor::parse(seed) {
                    let (s, e) = match &n.kind {
                        Kind::Array(a) if !a.is_empty() => (a[a.len() - 1].start, a[a.len() - 1].end),
                        Kind::Map(mm) if !mm.is_empty() => (mm[mm.len() - 1].0.start, mm[mm.len() - 1].1.end),
                        _ => return,
                    };
                    let bump = ctx.choose_free(2) == 1;
                    let tail = seed[s..e].to_vec();
                    let mut out = seed[..e].to_vec();
                    out.extend_from_slice(&tail);
                    out.extend_from_slice(&seed[e..]);
                    if bump && !n.indefinite {
                        let arg = match &n.kind {
                            Kind::Array(a) => a.len() as u64,
                            Kind::Map(mm) => mm.len() as u64,
                            _ => 0,
                        };
                        out = rewrite_head(&out, n.start, n.width, arg + 1);
                    }
                    m = out;
                } else {
                    return;
                }
            }
        }
        ctx.observe(&(tname, &m));
        ctx.set_sample(|| format!("{}::from_bytes({}) [{} of a valid encoding]", tname, short(&hx(&m), 120), family));
        judge(ctx, d, &m, family);
    }
}

// ---------------------------------------------------------------------------------------------
// (3) deep nesting

fn nest(kind: usize, depth: usize, leaf: Vec<u8>) -> Vec<u8> {
    // kind 0: definite arrays [x]; 1: indefinite arrays; 2: maps {0: x}; 3: tags 6.121(...) ; 4: native-script style [1, [x]]
    let mut out = Vec::new();
    for _ in 0..depth {
        match kind {
            0 => out.push(0x81),
            1 => out.push(0x9f),
            2 => out.extend_from_slice(&[0xa1, 0x00]),
            3 => out.extend_from_slice(&[0xd8, 0x79, 0x81]),
            4 => out.extend_from_slice(&[0x82, 0x01, 0x81]),
            // 5: set-tagged arrays 258([x]); 6: set-tagged indefinite arrays; 7: general constructors 102([0, [x]]);
            // 8: maps keyed by the nested item {x: 0} is not nestable linearly - instead {0: [x]}
            5 => out.extend_from_slice(&[0xd9, 0x01, 0x02, 0x81]),
            6 => out.extend_from_slice(&[0xd9, 0x01, 0x02, 0x9f]),
            7 => out.extend_from_slice(&[0xd8, 0x66, 0x82, 0x00, 0x81]),
            _ => out.extend_from_slice(&[0xa1, 0x00, 0x81]),
        }
    }
    out.extend_from_slice(&leaf);
    if kind == 6 {
        for _ in 0..depth {
            out.push(0xff);
        }
    }
    if kind == 1 {
        for _ in 0..depth {
            out.push(0xff);
        }
    }
    out
}

fn sc_nesting(ctx: &mut Ctx) {
    let targets = ["NativeScript", "PlutusData", "TransactionMetadatum", "PlutusList", "NativeScripts", "MetadataList", "MetadataMap", "AuxiliaryData", "TransactionWitnessSet", "Transaction", "Value", "Certificate", "GovernanceAction", "ScriptRef", "TransactionOutput"];
    let ti = ctx.choose_free(targets.len());
    let kind = ctx.choose_free(9);
    let depth = *ctx.pick_free(&[1usize, 2, 16, 24, 32, 64, 255, 256]);
    let leaf = ctx.choose_free(3);
    let leaf_bytes = match leaf {
        0 => vec![0x00],
        1 => vec![0x82, 0x00, 0x58, 0x1c].into_iter().chain(vec![1u8; 28]).collect(),
        _ => vec![0x40],
    };
    let d = match dec_for(targets[ti]) {
        Some(d) => d,
        None => return,
    };
    let input = nest(kind, depth, leaf_bytes);
    ctx.observe(&(ti, kind, depth, leaf));
    ctx.set_sample(|| format!("{}::from_bytes(nesting kind {} depth {})", targets[ti], kind, depth));
    ctx.hit("nested");
    judge(ctx, d, &input, "nesting");
}

// ---------------------------------------------------------------------------------------------
// (5) text-level entry points

const TEXTS: [&str; 33] = ["", " ", "0", "zz", "0x", "a", "abc", "ABCD", "é", "aé", "abé", "abcé", "日本", "a日", "😀", "a😀", "0xé", "addr1é", "00 ", "\"", "{", "}", "[", "]", "null", "true", "1", "-1", "1.5", "[]", "{}", "\"a\"", "addr1"];

fn sc_hex_text(ctx: &mut Ctx) {
    let ds = decoders_static();
    let di = ctx.choose_free(ds.len());
    let k = ctx.choose_free(TEXTS.len() + 3);
    let s: String = if k < TEXTS.len() {
        TEXTS[k].to_string()
    } else {
        // odd-length / non-hex tail on a valid encoding
        let seed = seeds().iter().find(|s| s.0 == ds[di].name).and_then(|s| s.1.first().cloned()).unwrap_or(vec![0x00]);
        match k - TEXTS.len() {
            0 => format!("{}0", hx(&seed)),
            1 => format!("{}zz", hx(&seed)),
            _ => hx(&seed).to_uppercase(),
        }
    };
    ctx.observe(&(di, &s));
    ctx.set_sample(|| format!("{}::from_hex({:?})", ds[di].name, short(&s, 60)));
    ctx.compared();
    match (ds[di].hex)(&s) {
        Ok(_) => ctx.hit("hex-returned"),
        Err(p) => ctx.violation(panic_sig(P, &format!("{}::from_hex", ds[di].name), &p), format!("{:?}: {} ({}:{})", short(&s, 80), p.msg, p.file, p.line)),
    }
}

/// JSON: malformed text, and every single-node replacement inside the type's own JSON
fn sc_json_text(ctx: &mut Ctx) {
    let ds: Vec<&Dec> = decoders_static().iter().filter(|d| d.json.is_some()).collect();
    let di = ctx.choose_free(ds.len());
    let d = ds[di];
    let f = d.json.unwrap();
    let mode = ctx.choose_free(2);
    let text: String;
    if mode == 0 {
        let k = ctx.choose_free(TEXTS.len());
        text = TEXTS[k].to_string();
    } else {
        // own JSON of the first seeds with one node replaced
        let list = match seeds().iter().find(|s| s.0 == d.name) {
            Some(s) => &s.1,
            None => return,
        };
        if list.is_empty() {
            return;
        }
        let si = ctx.choose_free(list.len().min(4));
        let base = json_of(d.name, &list[si]);
        let base = match base {
            Some(b) => b,
            None => return,
        };
        let n = count_nodes(&base);
        let ni = ctx.choose_free(n.min(40));
        let repl: Vec<J> = vec![J::Null, json!(true), json!(0), json!(-1), json!(1.5), json!(""), json!("zz"), json!([]), json!({}), serde_json::from_str("18446744073709551616").unwrap(), json!("18446744073709551616"), json!("-1"), json!("00"), json!(4294967296u64), json!([[]]), json!({"a": 1})];
        let ri = ctx.choose_free(repl.len());
        let mut j = base.clone();
        let mut k = ni;
        replace_nth(&mut j, &mut k, &repl[ri]);
        text = serde_json::to_string(&j).unwrap();
    }
    ctx.observe(&(d.name, &text));
    ctx.set_sample(|| format!("{}::from_json({})", d.name, short(&text, 100)));
    ctx.compared();
    match f(&text) {
        Ok(_) => ctx.hit("json-returned"),
        Err(p) => ctx.violation(panic_sig(P, &format!("{}::from_json", d.name), &p), format!("{}: {} ({}:{})", short(&text, 200), p.msg, p.file, p.line)),
    }
}

fn count_nodes(j: &J) -> usize {
    1 + match j {
        J::Array(a) => a.iter().map(count_nodes).sum(),
        J::Object(o) => o.values().map(count_nodes).sum(),
        _ => 0,
    }
}
fn replace_nth(j: &mut J, k: &mut usize, with: &J) -> bool {
    if *k == 0 {
        *j = with.clone();
        return true;
    }
    *k -= 1;
    match j {
        J::Array(a) => {
            for x in a.iter_mut() {
                if replace_nth(x, k, with) {
                    return true;
                }
            }
            false
        }
        J::Object(o) => {
            for (_, x) in o.iter_mut() {
                if replace_nth(x, k, with) {
                    return true;
                }
            }
            false
        }
        _ => false,
    }
}

/// the type's own JSON for a seed (through a second registry keyed by name)
fn json_of(name: &str, seed: &[u8]) -> Option<J> {
    macro_rules! try_types {
        ($($t:ident),*) => { $( if name == stringify!($t) { let v = $t::from_bytes(seed.to_vec()).ok()?; return serde_json::from_str(&v.to_json().ok()?).ok(); } )* };
    }
    try_types!(
        Transaction, TransactionBody, TransactionOutput, TransactionWitnessSet, Value, MultiAsset, Assets, Mint, Certificate, Certificates, PoolParams, Relay,
        Withdrawals, AuxiliaryData, GeneralTransactionMetadata, NativeScript, NativeScripts, ProtocolParamUpdate, GovernanceAction, VotingProposal, VotingProcedures,
        Redeemer, Redeemers, TransactionInput, TransactionInputs, Vkeywitness, Vkeywitnesses, BootstrapWitness, BootstrapWitnesses, Costmdls, CostModel, ExUnits, UnitInterval,
        DRep, Voter, Anchor, Committee, Constitution, Credential, Credentials, Ed25519KeyHashes, ScriptRef, TransactionUnspentOutput, Block, Header, HeaderBody,
        OperationalCert, VRFCert, Update, Int, BigInt, BigNum, Language, PlutusScripts, Ipv4, Ipv6, URL, Nonce, Vkey, ProtocolVersion, GovernanceActionId, VotingProcedure
    );
    None
}

fn sc_bech32_text(ctx: &mut Ctx) {
    use bech32::ToBase32;
    let good_addr = crate::fx::base_addr(0, 1).to_bech32(None).unwrap();
    let mk = |hrp: &str, data: &[u8]| bech32::encode(hrp, data.to_base32()).unwrap();
    let texts: Vec<String> = vec![
        String::new(),
        "1".into(),
        "addr".into(),
        "addr1".into(),
        good_addr.clone(),
        good_addr[..good_addr.len() - 1].to_string(),
        format!("{}q", good_addr),
        good_addr.to_uppercase(),
        mk("addr", &[]),
        mk("addr", &[0x00]),
        mk("addr", &[0x82]),
        mk("x", &[0u8; 28]),
        mk("x", &[0u8; 32]),
        mk("x", &[0u8; 64]),
        mk("x", &[0u8; 96]),
        mk("x", &[0u8; 31]),
        mk("drep", &[0x22; 28]),
        mk("drep", &[0x22; 29]),
        mk("drep", &[0x22u8; 1]),
        mk("drep", &[]),
        mk("drep_script", &[0x23; 28]),
        mk("ed25519_pk", &[1u8; 32]),
        mk("ed25519_sk", &[1u8; 32]),
        mk("ed25519e_sk", &[1u8; 64]),
        mk("xprv", &[1u8; 96]),
        mk("xpub", &[1u8; 64]),
        mk("ed25519_sig", &[1u8; 64]),
        "é1qqqqqq".into(),
    ];
    // valid checksum over 5-bit groups that do NOT regroup into whole bytes (too many padding
    // bits, or non-zero padding): every sequence of <= 3 groups over {0, 1, 16, 31}, and the
    // neighbours of the group counts of 28- and 32-byte payloads
    let mut texts = texts;
    let mk5 = |hrp: &str, groups: &[u8]| bech32::encode(hrp, groups.iter().map(|g| bech32::u5::try_from_u8(*g).unwrap()).collect::<Vec<_>>()).unwrap();
    for hrp in ["x", "addr", "drep", "ed25519_pk", "xpub", "ed25519_sig"] {
        for n in 0..=3usize {
            for code in 0..4usize.pow(n as u32) {
                let groups: Vec<u8> = (0..n).map(|k| [0u8, 1, 16, 31][(code / 4usize.pow(k as u32)) % 4]).collect();
                texts.push(mk5(hrp, &groups));
            }
        }
        for n in [44usize, 45, 46, 51, 52, 53] {
            texts.push(mk5(hrp, &vec![0u8; n]));
            texts.push(mk5(hrp, &vec![31u8; n]));
            let mut g = vec![0u8; n];
            g[n - 1] = 1;
            texts.push(mk5(hrp, &g));
        }
    }
    let parsers: Vec<(&str, fn(&str) -> bool)> = vec![
        ("Address::from_bech32", |s| Address::from_bech32(s).is_ok()),
        ("DRep::from_bech32", |s| DRep::from_bech32(s).is_ok()),
        ("PublicKey::from_bech32", |s| PublicKey::from_bech32(s).is_ok()),
        ("PrivateKey::from_bech32", |s| PrivateKey::from_bech32(s).is_ok()),
        ("Bip32PrivateKey::from_bech32", |s| Bip32PrivateKey::from_bech32(s).is_ok()),
        ("Bip32PublicKey::from_bech32", |s| Bip32PublicKey::from_bech32(s).is_ok()),
        ("Ed25519Signature::from_bech32", |s| Ed25519Signature::from_bech32(s).is_ok()),
        ("Ed25519KeyHash::from_bech32", |s| Ed25519KeyHash::from_bech32(s).is_ok()),
        ("ScriptHash::from_bech32", |s| ScriptHash::from_bech32(s).is_ok()),
        ("TransactionHash::from_bech32", |s| TransactionHash::from_bech32(s).is_ok()),
        ("ByronAddress::from_base58", |s| ByronAddress::from_base58(s).is_ok()),
        ("ByronAddress::is_valid", |s| ByronAddress::is_valid(s)),
        ("PublicKey::from_hex", |s| PublicKey::from_hex(s).is_ok()),
        ("PrivateKey::from_hex", |s| PrivateKey::from_hex(s).is_ok()),
        ("Bip32PrivateKey::from_hex", |s| Bip32PrivateKey::from_hex(s).is_ok()),
        ("Bip32PublicKey::from_hex", |s| Bip32PublicKey::from_hex(s).is_ok()),
        ("Ed25519Signature::from_hex", |s| Ed25519Signature::from_hex(s).is_ok()),
        ("Ed25519KeyHash::from_hex", |s| Ed25519KeyHash::from_hex(s).is_ok()),
        ("BigNum::from_str", |s| BigNum::from_str(s).is_ok()),
        ("Int::from_str", |s| Int::from_str(s).is_ok()),
        ("BigInt::from_str", |s| BigInt::from_str(s).is_ok()),
    ];
    let pi = ctx.choose_free(parsers.len());
    let total = texts.len() + TEXTS.len();
    let ti = ctx.choose_free(total);
    let s: String = if ti < texts.len() { texts[ti].clone() } else { TEXTS[ti - texts.len()].to_string() };
    ctx.observe(&(pi, &s));
    ctx.set_sample(|| format!("{}({:?})", parsers[pi].0, short(&s, 60)));
    ctx.compared();
    let f = parsers[pi].1;
    match guard(|| f(&s)) {
        Ok(_) => ctx.hit("text-returned"),
        Err(p) => ctx.violation(panic_sig(P, parsers[pi].0, &p), format!("{:?}: {} ({}:{})", short(&s, 80), p.msg, p.file, p.line)),
    }
}

/// free decoding helpers
fn sc_helpers(ctx: &mut Ctx) {
    let docs: Vec<String> = {
        let mut v: Vec<String> = TEXTS.iter().map(|s| s.to_string()).collect();
        v.extend(
            [
                "{\"a\": 1}",
                "{\"int\": 1}",
                "{\"int\": -9223372036854775808}",
                "-9223372036854775808",
                "{\"constructor\": 0, \"fields\": []}",
                "{\"constructor\": -1, \"fields\": []}",
                "{\"constructor\": 18446744073709551616, \"fields\": []}",
                "{\"constructor\": 0}",
                "{\"fields\": []}",
                "{\"map\": [{\"k\": {\"int\": 1}}]}",
                "{\"bytes\": \"zz\"}",
                "{\"bytes\": \"abc\"}",
                "{\"list\": 5}",
                "{\"int\": 1e400}",
                "{\"int\": 123456789012345678901234567890123456789012345678901234567890}",
                "123456789012345678901234567890123456789012345678901234567890",
                "{\"0x\": 1}",
                "{\"-\": 1}",
                "[[[[[[[[[[[[[[[[[[[[[[[[[[[[[[[[1]]]]]]]]]]]]]]]]]]]]]]]]]]]]]]]]",
                "{\"type\": \"sig\", \"keyHash\": \"00\"}",
                "{\"cosigners\": {\"a\": \"self\"}, \"template\": \"a\"}",
                "{\"cosigners\": {\"a\": \"zz\"}, \"template\": \"a\"}",
                "{\"cosigners\": {}, \"template\": {\"all\": []}}",
                "{\"cosigners\": {}, \"template\": {\"some\": {\"at_least\": -1, \"from\": []}}}",
                "{\"cosigners\": {}, \"template\": {\"some\": {\"at_least\": 4294967296, \"from\": []}}}",
                "{\"cosigners\": {}, \"template\": {\"active_from\": -1}}",
                "{\"cosigners\": {}, \"template\": {\"active_until\": 18446744073709551616}}",
                "{\"cosigners\": 1, \"template\": 1}",
                "{\"cosigners\": {\"a\": 1}, \"template\": \"a\"}",
                "{\"cosigners\": {}, \"template\": \"missing\"}",
                "{\"cosigners\": {}, \"template\": {\"any\": [1]}}",
                "{\"cosigners\": {}, \"template\": {}}",
            ]
            .iter()
            .map(|s| s.to_string()),
        );
        // string atoms with a multi-byte character starting at byte offset 0, 1, 2 and 3 (any
        // byte-indexed slicing of a str is exposed by one of them), hex-looking prefixes in both
        // cases, escapes; each placed wherever the helpers read a string
        let atoms = ["é", "aé", "abé", "abcé", "日", "a日", "ab日", "abc日", "😀", "a😀", "ab😀", "abc😀", "0xé", "0x日", "0Xab", "0xab", "0xabc", "0xzz", "0", "\\u00e9", "\\ud83d", "a\\u0000b", "-é", "1é"];
        for a in atoms {
            let a = a.replace("\\\\", "\\");
            for t in ["\"@\"", "{\"@\": 1}", "[\"@\"]", "{\"bytes\": \"@\"}", "{\"map\": [{\"k\": {\"bytes\": \"@\"}, \"v\": {\"int\": 1}}]}", "{\"type\": \"sig\", \"keyHash\": \"@\"}", "{\"cosigners\": {\"@\": \"self\"}, \"template\": \"@\"}", "{\"cosigners\": {\"a\": \"@\"}, \"template\": \"a\"}", "{\"@\": {\"@\": \"@\"}}"] {
                v.push(t.replace('@', &a));
            }
        }
        v
    };
    let helpers: Vec<(&str, fn(&str) -> bool)> = vec![
        ("encode_json_str_to_metadatum(NoConversions)", |s| encode_json_str_to_metadatum(s.to_string(), MetadataJsonSchema::NoConversions).is_ok()),
        ("encode_json_str_to_metadatum(BasicConversions)", |s| encode_json_str_to_metadatum(s.to_string(), MetadataJsonSchema::BasicConversions).is_ok()),
        ("encode_json_str_to_metadatum(DetailedSchema)", |s| encode_json_str_to_metadatum(s.to_string(), MetadataJsonSchema::DetailedSchema).is_ok()),
        ("encode_json_str_to_plutus_datum(BasicConversions)", |s| encode_json_str_to_plutus_datum(s, PlutusDatumSchema::BasicConversions).is_ok()),
        ("encode_json_str_to_plutus_datum(DetailedSchema)", |s| encode_json_str_to_plutus_datum(s, PlutusDatumSchema::DetailedSchema).is_ok()),
        ("PlutusData::from_json(DetailedSchema)", |s| PlutusData::from_json(s, PlutusDatumSchema::DetailedSchema).is_ok()),
        ("encode_json_str_to_native_script(Wallet)", |s| encode_json_str_to_native_script(s, "zz", ScriptSchema::Wallet).is_ok()),
        ("encode_json_str_to_native_script(Wallet,xpub)", |s| {
            let x = hex::encode(crate::fx::bip32_pub(0).as_bytes());
            encode_json_str_to_native_script(s, &x, ScriptSchema::Wallet).is_ok()
        }),
        ("encode_json_str_to_native_script(Node)", |s| encode_json_str_to_native_script(s, "", ScriptSchema::Node).is_ok()),
        ("decrypt_with_password", |s| decrypt_with_password("70617373", s).is_ok()),
        ("decrypt_with_password(password)", |s| decrypt_with_password(s, &"00".repeat(80)).is_ok()),
        ("encrypt_with_password(bad-hex)", |s| encrypt_with_password(s, s, s, s).is_ok()),
        ("TransactionMetadatum::new_text/new_bytes", |s| TransactionMetadatum::new_text(s.repeat(3)).is_ok() | TransactionMetadatum::new_bytes(s.repeat(9).into_bytes()).is_ok()),
    ];
    let hi = ctx.choose_free(helpers.len());
    let di = ctx.choose_free(docs.len());
    let s = &docs[di];
    ctx.observe(&(hi, s));
    ctx.set_sample(|| format!("{}({})", helpers[hi].0, short(s, 80)));
    ctx.compared();
    let f = helpers[hi].1;
    match guard(|| f(s)) {
        Ok(_) => ctx.hit("helper-returned"),
        Err(p) => ctx.violation(panic_sig(P, helpers[hi].0, &p), format!("{}: {} ({}:{})", short(s, 120), p.msg, p.file, p.line)),
    }
    // decode_arbitrary_bytes_from_metadatum on every metadatum kind
    for md in [TransactionMetadatum::new_int(&Int::new_i32(1)), TransactionMetadatum::new_text("a".into()).unwrap(), TransactionMetadatum::new_list(&MetadataList::new()), TransactionMetadatum::new_map(&MetadataMap::new())] {
        if let Err(p) = guard(|| decode_arbitrary_bytes_from_metadatum(&md).is_ok()) {
            ctx.violation(panic_sig(P, "decode_arbitrary_bytes_from_metadatum", &p), p.msg.clone());
        }
    }
}

// ---------------------------------------------------------------------------------------------
// (4) oversized declared lengths, in child processes

const BIG: [u64; 6] = [1 << 16, 1 << 24, 1 << 32, 1 << 40, 1 << 62, (1 << 63) + 5];

fn oversize_inputs() -> Vec<(String, Vec<u8>, String)> {
    let mut out = Vec::new();
    for (tname, list) in seeds() {
        if dec_for(tname).is_none() {
            continue;
        }
        for seed in list.iter().take(6) {
            for (off, w, _arg, is_len) in heads(seed) {
                if !is_len {
                    continue;
                }
                for big in BIG {
                    out.push((tname.to_string(), rewrite_head(seed, off, w, big), format!("head@{} -> {}", off, big)));
                }
            }
        }
    }
    out
}

fn sc_oversize(ctx: &mut Ctx) {
    static INPUTS: OnceLock<Vec<(String, Vec<u8>, String)>> = OnceLock::new();
    let inputs = INPUTS.get_or_init(oversize_inputs);
    let i = ctx.choose_free(inputs.len());
    let (tname, bytes, what) = &inputs[i];
    ctx.observe(&i);
    ctx.set_sample(|| format!("{}::from_bytes({}) [{}]", tname, short(&hx(bytes), 100), what));
    ctx.hit("oversize-length");
    if let Some(d) = dec_for(tname) {
        judge(ctx, d, bytes, "oversized-declared-length");
    }
}

/// child: `csl-mc C02-child <vector-file> <progress-file> <start-line>`
/// re-executes recorded choice vectors; each is announced before it runs so that an abort can be
/// attributed to exactly one input.
#[repr(C)]
struct RLimit {
    cur: u64,
    max: u64,
}
extern "C" {
    fn setrlimit(resource: i32, rlim: *const RLimit) -> i32;
}

pub fn child_main(args: &[String]) -> i32 {
    use std::io::Write;
    // an abort must be cheap: no core file
    unsafe {
        let r = RLimit { cur: 0, max: 0 };
        let _ = setrlimit(4, &r);
    }
    if args[0] == "dump-seeds" {
        let p = write_seeds_file();
        println!("{}", p.display());
        return 0;
    }
    let vectors = std::fs::read_to_string(&args[0]).unwrap_or_default();
    let start: usize = args[2].parse().unwrap_or(0);
    let mut f = std::fs::OpenOptions::new().create(true).append(true).open(&args[1]).unwrap();
    std::env::set_var("C02_PROGRESS_FILE", &args[1]);
    for (i, line) in vectors.lines().enumerate().skip(start) {
        let mut it = line.splitn(2, ' ');
        let scen = it.next().unwrap_or("");
        let choices: Vec<u32> = it.next().unwrap_or("").split(',').filter(|x| !x.is_empty()).map(|x| x.parse().unwrap()).collect();
        writeln!(f, "START {}", i).unwrap();
        f.flush().unwrap();
        *CHILD_INDEX.lock().unwrap() = i;
        let sc = match scenario(scen, Tier::Quick) {
            Some(s) => s,
            None => continue,
        };
        let ctx = match std::panic::catch_unwind(std::panic::AssertUnwindSafe(|| crate::engine::run_once(&*sc, choices, crate::engine::Mode::Full, 0, false))) {
            Ok(c) => c,
            Err(p) => {
                let msg = p.downcast_ref::<crate::engine::Machinery>().map(|m| m.0.clone()).unwrap_or_else(|| "harness panic".into());
                writeln!(f, "MACHINERY {} {}", i, msg).unwrap();
                f.flush().unwrap();
                return 2;
            }
        };
        for v in &ctx.violations {
            writeln!(f, "VIOL {}\t{}\t{}", i, v.signature.replace('\t', " "), v.detail.replace('\t', " ").replace('\n', " ")).unwrap();
        }
        writeln!(f, "DONE {} {}", i, ctx.compared).unwrap();
        f.flush().unwrap();
    }
    0
}

fn run_quarantine(rep: &mut Report) {
    let mut q: Vec<(&'static str, Vec<u32>)> = std::mem::take(&mut *QUARANTINE.lock().unwrap());
    q.sort();
    q.dedup();
    let mut st = crate::engine::Stats::default();
    if q.is_empty() {
        rep.add("quarantine(child processes)", "inputs with a large declared length", st);
        return;
    }
    let exe = std::env::current_exe().unwrap();
    let seeds_file = write_seeds_file();
    let threads = Opts::new(0).threads.max(1);
    let chunk = (q.len() + threads - 1) / threads;
    let results: Mutex<Vec<(usize, Vec<(String, String)>, bool, u64)>> = Mutex::new(Vec::new());
    let dir = std::env::temp_dir();
    std::thread::scope(|s| {
        for t in 0..threads {
            let lo = t * chunk;
            let hi = ((t + 1) * chunk).min(q.len());
            if lo >= hi {
                continue;
            }
            let exe = exe.clone();
            let results = &results;
            let q = &q;
            let dir = dir.clone();
            let seeds_file = seeds_file.clone();
            s.spawn(move || {
                let vf = dir.join(format!("csl-mc-c02-{}-{}.vec", std::process::id(), t));
                let pf = dir.join(format!("csl-mc-c02-{}-{}.log", std::process::id(), t));
                let text: String = q[lo..hi].iter().map(|(sc, c)| format!("{} {}\n", sc, c.iter().map(|x| x.to_string()).collect::<Vec<_>>().join(","))).collect();
                std::fs::write(&vf, text).unwrap();
                let mut cur = 0usize;
                let n = hi - lo;
                let mut respawns = 0;
                while cur < n && respawns < 2000 {
                    respawns += 1;
                    let _ = std::fs::remove_file(&pf);
                    let status = std::process::Command::new(&exe)
                        .args(["C02-child", vf.to_str().unwrap(), pf.to_str().unwrap(), &cur.to_string()])
                        .env("VERIF_CHILD", "1")
                        .env("RUST_BACKTRACE", "0")
                        .env("C02_SEEDS_FILE", &seeds_file)
                        .stdout(std::process::Stdio::null())
                        .stderr(if std::env::var("VERIF_DEBUG").is_ok() { std::process::Stdio::inherit() } else { std::process::Stdio::null() })
                        .status();
                    let log = std::fs::read_to_string(&pf).unwrap_or_default();
                    let mut open: Option<usize> = None;
                    let mut viols: BTreeMap<usize, Vec<(String, String)>> = BTreeMap::new();
                    let mut done: Vec<(usize, u64)> = Vec::new();
                    let mut class: BTreeMap<usize, String> = BTreeMap::new();
                    for line in log.lines() {
                        if let Some(r) = line.strip_prefix("CLASS ") {
                            let mut it = r.split(' ');
                            if let (Some(i), Some(k)) = (it.next().and_then(|x| x.parse().ok()), it.next()) {
                                class.insert(i, k.to_string());
                            }
                            continue;
                        }
                        if let Some(r) = line.strip_prefix("START ") {
                            open = r.parse().ok();
                        } else if let Some(r) = line.strip_prefix("DONE ") {
                            let mut it = r.split(' ');
                            let i: usize = it.next().and_then(|x| x.parse().ok()).unwrap_or(0);
                            let c: u64 = it.next().and_then(|x| x.parse().ok()).unwrap_or(0);
                            done.push((i, c));
                            if open == Some(i) {
                                open = None;
                            }
                        } else if let Some(r) = line.strip_prefix("VIOL ") {
                            let parts: Vec<&str> = r.splitn(3, '\t').collect();
                            if parts.len() == 3 {
                                viols.entry(parts[0].parse().unwrap_or(0)).or_default().push((parts[1].to_string(), parts[2].to_string()));
                            }
                        }
                    }
                    let mut out = Vec::new();
                    for (i, c) in &done {
                        out.push((lo + i, viols.remove(i).unwrap_or_default(), false, *c));
                    }
                    let finished = status.map(|s| s.success()).unwrap_or(false);
                    if let Some(i) = open {
                        // the aborted input: its class travels as a pseudo violation entry
                        out.push((lo + i, vec![("ABORT-CLASS".to_string(), class.get(&i).cloned().unwrap_or_else(|| "string-head".to_string()))], true, 1));
                        cur = i + 1;
                    } else if finished {
                        cur = n;
                    } else {
                        cur = done.iter().map(|d| d.0 + 1).max().unwrap_or(cur + 1);
                    }
                    results.lock().unwrap().extend(out);
                }
                let _ = std::fs::remove_file(&vf);
                let _ = std::fs::remove_file(&pf);
            });
        }
    });
    let _ = std::fs::remove_file(&seeds_file);
    let mut res = results.into_inner().unwrap();
    res.sort_by_key(|r| r.0);
    res.dedup_by_key(|r| r.0);
    for (gi, viols, aborted, compared) in res {
        st.executions += 1;
        st.transitions += q[gi].1.len() as u64;
        st.compared += compared;
        st.outcomes.insert(crate::engine::hash64(&(&q[gi], aborted, viols.len())));
        *st.hits.entry(if aborted { "child-aborted" } else { "child-returned" }).or_insert(0) += 1;
        let mut all = viols;
        let abort_class = all.iter().find(|v| v.0 == "ABORT-CLASS").map(|v| v.1.clone()).unwrap_or_else(|| "string-head".to_string());
        all.retain(|v| v.0 != "ABORT-CLASS");
        if aborted {
            // which decoder: recover the sample by re-running the generator part only is not
            // possible without executing the call; name the scenario and keep the vector
            all.push((format!("{}/declared-length/{}/abort", P, abort_class), format!("the process aborted (allocation of a declared length) on scenario {} choices {:?}", q[gi].0, q[gi].1)));
        }
        for (sig, detail) in all {
            let e = st.viols.entry(sig).or_insert(crate::engine::VRec { count: 0, scenario: q[gi].0.to_string(), choices: q[gi].1.clone(), arities: vec![], detail });
            e.count += 1;
        }
    }
    st.samples.push(format!("{} choice vectors re-executed in child processes, e.g. scenario {} {:?}", q.len(), q[0].0, q[0].1));
    rep.add("quarantine(child processes)", "all inputs holding a string/array/map head with a declared length above 2^31", st);
}

pub fn scenario(name: &str, _tier: Tier) -> Option<BoxedScenario> {
    let stat: &'static str = match name {
        "short" => "short",
        "mutants" => "mutants",
        "mutant_pairs" => "mutant_pairs",
        "nesting" => "nesting",
        "hex_text" => "hex_text",
        "json_text" => "json_text",
        "bech32_text" => "bech32_text",
        "helpers" => "helpers",
        "oversize" => "oversize",
        _ => return None,
    };
    let inner: BoxedScenario = inner_scenario(stat)?;
    Some(Box::new(move |ctx: &mut Ctx| {
        SCENARIO.with(|s| s.set(stat));
        inner(ctx)
    }))
}

fn inner_scenario(name: &str) -> Option<BoxedScenario> {
    Some(match name {
        "short" => Box::new(sc_short),
        "mutants" => Box::new(sc_mutants(false)),
        "mutant_pairs" => Box::new(sc_mutants(true)),
        "nesting" => Box::new(sc_nesting),
        "hex_text" => Box::new(sc_hex_text),
        "json_text" => Box::new(sc_json_text),
        "bech32_text" => Box::new(sc_bech32_text),
        "helpers" => Box::new(sc_helpers),
        "oversize" => Box::new(sc_oversize),
        _ => return None,
    })
}

pub fn run(tier: Tier, seed: u64) -> i32 {
    let mut rep = Report::new(P, tier, seed);
    if let Err(e) = refcbor::self_test() {
        crate::engine::machinery(format!("refcbor self-test failed: {}", e));
    }
    let n_seeds: usize = seeds().iter().map(|s| s.1.len()).sum();
    rep.bound("decoders", json!(decoders_static().len()));
    rep.bound("seed_encodings", json!(n_seeds));
    rep.bound("seed_types", json!(seeds().len()));
    rep.rule = "every byte string of length <= 2 for every byte-level entry point; every single-deviation mutant (6 families) of every seed encoding (generators at deviation <= 1, <= 60 seeds of <= 700 bytes per type); nesting depth up to 256; oversized lengths in child processes; malformed hex / JSON (incl. every single-node replacement in the types' own JSON) / Bech32 / Base58 / helper inputs. distinct = distinct (entry point, input) pairs".into();
    rep.assume("nesting deeper than 256 is out of scope (the decoders recurse without a depth limit)");
    rep.assume("a call counts as returned when it comes back within the run; no per-call watchdog is needed because no enumerated input loops (the run itself would not finish)");
    rep.trusted_base = vec!["harness/src/refcbor.rs (well-formedness of re-serialised values)".into()];
    rep.required_hits = vec!["accepted", "rejected", "truncated", "indefinite-form", "nested", "hex-returned", "json-returned", "text-returned", "helper-returned", "oversize-length", "child-returned"];
    let opts = Opts::new(seed);
    let mut names = vec!["short", "mutants", "nesting", "oversize", "hex_text", "json_text", "bech32_text", "helpers"];
    if tier.thorough() {
        names.push("mutant_pairs");
    }
    for name in names {
        let f = scenario(name, tier).unwrap();
        let st = explore(name, &*f, &opts);
        rep.add(name, "full product", st);
    }
    run_quarantine(&mut rep);
    rep.finish()
}
