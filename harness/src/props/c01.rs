//! C01 — every ledger type survives an encode/decode round trip.
//!
//! Space: chooser-driven generators for every public CBOR type (gen.rs); per root type a
//! deviation-bounded exploration of ALL choice points (variant, presence, width class, size),
//! plus full presence products for the transaction body (2^18) and witness set (2^6) and the
//! <=3-deviation neighbourhoods of both corners of ProtocolParamUpdate.
//! Oracle: from_bytes(to_bytes(v)) == v, re-encoding is byte-identical, hex == bytes, and the
//! bytes are exactly one well-formed CBOR item for the independent reader.

use crate::engine::{explore, guard, panic_sig, Ctx, Opts};
use crate::gen::{self, Codec, Mode};
use crate::props::BoxedScenario;
use crate::refcbor;
use crate::report::{Report, Tier};
use crate::util::*;
use cardano_serialization_lib as csl;
use csl::*;
use serde_json::json;

const P: &str = "C01";

/// types whose to_bytes is a raw byte string rather than a CBOR item
fn is_raw(name: &str) -> bool {
    matches!(name, "Address" | "Ed25519KeyHash" | "ScriptHash" | "TransactionHash" | "DataHash" | "AuxiliaryDataHash")
}

pub fn check<T: Codec>(ctx: &mut Ctx, v: &T) {
    ctx.compared();
    let name = T::NAME;
    let b = match guard(|| v.enc()) {
        Ok(b) => b,
        Err(p) => {
            ctx.violation(panic_sig(P, &format!("{}::to_bytes", name), &p), format!("{:?}: {}", short(&format!("{:?}", v), 200), p.msg));
            return;
        }
    };
    ctx.observe(&(name, &b));
    if !is_raw(name) {
        if let Err(e) = refcbor::parse(&b) {
            ctx.violation(format!("{}/{}/to_bytes-not-one-wellformed-item", P, name), format!("{} : {:?}", short(&hx(&b), 200), e));
        }
    }
    let back = match guard(|| T::dec(b.clone())) {
        Err(p) => {
            ctx.violation(panic_sig(P, &format!("{}::from_bytes", name), &p), format!("{}: {}", short(&hx(&b), 200), p.msg));
            return;
        }
        Ok(Err(e)) => {
            ctx.violation(format!("{}/{}/from_bytes-rejects-own-output", P, name), format!("{} : {}", short(&hx(&b), 200), short(&e, 200)));
            return;
        }
        Ok(Ok(x)) => x,
    };
    let empty_optional = gen::EMPTY_OPTIONAL.with(|c| c.get());
    if !empty_optional && !back.same(v) {
        ctx.violation(
            format!("{}/{}/decoded-value-differs", P, name),
            format!("bytes {} ; original {} ; decoded {}", short(&hx(&b), 160), short(&format!("{:?}", v), 300), short(&format!("{:?}", back), 300)),
        );
    }
    match guard(|| back.enc()) {
        Ok(b2) => {
            if b2 != b {
                ctx.violation(format!("{}/{}/reencoding-differs", P, name), format!("{} -> {}", short(&hx(&b), 200), short(&hx(&b2), 200)));
            }
        }
        Err(p) => ctx.violation(panic_sig(P, &format!("{}::to_bytes(decoded)", name), &p), p.msg.clone()),
    }
    // a second decode of the re-encoding must be stable
    if empty_optional {
        if let Ok(Ok(back2)) = guard(|| T::dec(back.enc())) {
            if !back2.same(&back) {
                ctx.violation(format!("{}/{}/second-roundtrip-differs", P, name), short(&hx(&b), 200));
            }
        }
    }
    // hex entry points behave identically
    match guard(|| v.enc_hex()) {
        Ok(h) => {
            if h != hx(&b) {
                ctx.violation(format!("{}/{}/to_hex-differs-from-to_bytes", P, name), format!("{} vs {}", short(&h, 100), short(&hx(&b), 100)));
            }
            match guard(|| T::dec_hex(&h)) {
                Ok(Ok(x)) => {
                    if !x.same(&back) {
                        ctx.violation(format!("{}/{}/from_hex-differs-from-from_bytes", P, name), short(&h, 200));
                    }
                }
                Ok(Err(e)) => ctx.violation(format!("{}/{}/from_hex-rejects-own-output", P, name), format!("{}: {}", short(&h, 160), short(&e, 160))),
                Err(p) => ctx.violation(panic_sig(P, &format!("{}::from_hex", name), &p), p.msg.clone()),
            }
        }
        Err(p) => ctx.violation(panic_sig(P, &format!("{}::to_hex", name), &p), p.msg.clone()),
    }
}

pub fn root_scenario(mode: Mode, name: &'static str) -> Option<BoxedScenario> {
    let f = gen::root_by_name(name)?;
    Some(Box::new(move |ctx: &mut Ctx| {
        gen::MODE.with(|m| m.set(mode));
        gen::reset_flags();
        ctx.set_sample(|| format!("root type {} (choice vector selects variant / presence / widths / sizes)", name));
        f(ctx);
        gen::MODE.with(|m| m.set(Mode::Off));
    }))
}

/// full presence product of the 18 optional body fields, fixed representative values
pub fn body_presence(mode: Mode) -> BoxedScenario {
    Box::new(move |ctx: &mut Ctx| {
        gen::MODE.with(|m| m.set(mode));
        gen::reset_flags();
        let mut ins = TransactionInputs::new();
        ins.add(&TransactionInput::new(&TransactionHash::from_bytes(vec![1; 32]).unwrap(), 0));
        let mut b = TransactionBody::new_tx_body(&ins, &TransactionOutputs::new(), &bn(170_000));
        let mut mask = 0u32;
        for f in 0..gen::BODY_OPT_FIELDS {
            if ctx.choose_free(2) == 1 {
                gen::set_body_field(ctx, &mut b, f, false);
                mask |= 1 << f;
            }
        }
        ctx.set_sample(|| format!("TransactionBody with optional-field presence mask {:018b}", mask));
        gen::visit(ctx, &b);
        gen::MODE.with(|m| m.set(Mode::Off));
    })
}

pub fn wits_presence(mode: Mode) -> BoxedScenario {
    Box::new(move |ctx: &mut Ctx| {
        gen::MODE.with(|m| m.set(mode));
        gen::reset_flags();
        let mut w = TransactionWitnessSet::new();
        let mut mask = 0;
        for f in 0..gen::WITS_FIELDS {
            if ctx.choose_free(2) == 0 {
                continue;
            }
            mask |= 1 << f;
            match f {
                0 => {
                    let mut x = Vkeywitnesses::new();
                    x.add(&gen::vkeywitness_i(0));
                    w.set_vkeys(&x)
                }
                1 => {
                    let mut x = NativeScripts::new();
                    x.add(&crate::fx::native_pubkey(0));
                    w.set_native_scripts(&x)
                }
                2 => {
                    let mut x = BootstrapWitnesses::new();
                    x.add(&gen::bootstrap_witness_i(1));
                    w.set_bootstraps(&x)
                }
                3 => {
                    let mut x = PlutusScripts::new();
                    x.add(&PlutusScript::new(vec![1, 2, 3]));
                    if mode != Mode::C17 {
                        // the JSON form does not carry the language (C17 known finding, own scenario)
                        x.add(&PlutusScript::new_v2(vec![4, 5]));
                        x.add(&PlutusScript::new_v3(vec![6]));
                    }
                    w.set_plutus_scripts(&x)
                }
                4 => {
                    let mut x = PlutusList::new();
                    x.add(&PlutusData::new_integer(&BigInt::from(1u64)));
                    w.set_plutus_data(&x)
                }
                _ => {
                    let mut x = Redeemers::new();
                    x.add(&Redeemer::new(&RedeemerTag::new_spend(), &bn(0), &PlutusData::new_bytes(vec![1]), &ExUnits::new(&bn(1), &bn(2))));
                    w.set_redeemers(&x)
                }
            }
        }
        ctx.set_sample(|| format!("TransactionWitnessSet with presence mask {:06b}", mask));
        gen::visit(ctx, &w);
        gen::MODE.with(|m| m.set(Mode::Off));
    })
}

/// ProtocolParamUpdate near a corner: `from_present` = start from all fields present and drop
/// fields (deviation = absent), otherwise start from empty and add fields. Bounded by D.
pub fn ppu_corner(mode: Mode, from_present: bool) -> BoxedScenario {
    Box::new(move |ctx: &mut Ctx| {
        gen::MODE.with(|m| m.set(mode));
        gen::reset_flags();
        let mut p = ProtocolParamUpdate::new();
        let mut mask: u64 = 0;
        for f in 0..gen::PPU_FIELDS - 1 {
            let dev = ctx.choose(2) == 1;
            if dev != from_present {
                gen::set_ppu_field(ctx, &mut p, f, false);
                mask |= 1 << f;
            }
        }
        ctx.set_sample(|| format!("ProtocolParamUpdate presence mask {:030b}", mask));
        gen::visit(ctx, &p);
        gen::MODE.with(|m| m.set(Mode::Off));
    })
}

pub fn scenario(name: &str, _tier: Tier) -> Option<BoxedScenario> {
    scenario_for(Mode::C01, name)
}

pub fn scenario_for(mode: Mode, name: &str) -> Option<BoxedScenario> {
    match name {
        "body_presence" => Some(body_presence(mode)),
        "wits_presence" => Some(wits_presence(mode)),
        "ppu_absent_corner" => Some(ppu_corner(mode, false)),
        "ppu_present_corner" => Some(ppu_corner(mode, true)),
        "fixed_tx_after_history" => Some(Box::new(crate::props::c04::sc_roundtrip_after_history(3))),
        _ => {
            let r = name.strip_prefix("root:")?;
            let stat: &'static str = gen::roots().into_iter().find(|x| x.0 == r)?.0;
            root_scenario(mode, stat)
        }
    }
}

/// Shared driver for the generator-based properties (C01, C03, C17a): explores every root.
pub fn run_generators(rep: &mut Report, mode: Mode, tier: Tier, seed: u64) {
    let d = if tier.thorough() { 3 } else { 2 };
    rep.bound("deviation_bound_per_root_type", json!(d));
    rep.bound("root_types", json!(gen::roots().len()));
    for (name, _) in gen::roots() {
        let sname = format!("root:{}", name);
        let f = scenario_for(mode, &sname).unwrap();
        // cap per root so that one very wide type cannot eat the whole budget; the cap is reported
        let opts = Opts::new(seed).bound(d).cap(if tier.thorough() { 6_000_000 } else { 400_000 });
        let st = explore(&sname, &*f, &opts);
        rep.add(&sname, &format!("<= {} deviations from the simplest value", d), st);
    }
    for (sname, bound) in [("body_presence", None), ("wits_presence", None), ("ppu_absent_corner", Some(3u32)), ("ppu_present_corner", Some(3u32))] {
        let f = scenario_for(mode, sname).unwrap();
        let mut opts = Opts::new(seed);
        if let Some(b) = bound {
            opts = opts.bound(b);
        }
        let st = explore(sname, &*f, &opts);
        rep.add(sname, if bound.is_some() { "<= 3 deviations from the corner" } else { "full presence product" }, st);
    }
}

pub fn run(tier: Tier, seed: u64) -> i32 {
    let mut rep = Report::new(P, tier, seed);
    if let Err(e) = refcbor::self_test() {
        crate::engine::machinery(format!("refcbor self-test failed: {}", e));
    }
    rep.rule = "per root type: all values within D deviations (non-default variant / present field / non-zero width class / non-minimal size) of the simplest value, every nested codec value visited as well; full presence products for body and witness set; both corners of ProtocolParamUpdate; distinct = distinct (type, bytes) pairs".into();
    rep.assume("an optional collection that is present but empty is compared through its bytes and a second round trip (the wire format writes it as absent)");
    rep.assume("nesting depth of scripts / Plutus data / metadata <= 3 (4 with all containers)");
    rep.trusted_base = vec!["harness/src/refcbor.rs (well-formedness)".into(), "the types' own PartialEq for value equality".into()];
    run_generators(&mut rep, Mode::C01, tier, seed);
    // the byte-preserving transaction type is a value built by load + operations
    let depth = if tier.thorough() { 3 } else { 2 };
    let f = crate::props::c04::sc_roundtrip_after_history(depth);
    let st = explore("fixed_tx_after_history", &f, &Opts::new(seed));
    rep.bound("fixed_tx_history_depth", json!(depth));
    rep.add("fixed_tx_after_history", "5 base transactions x 4 load paths x every history of operations up to the depth", st);
    rep.required_hits.push("fixed-transaction-round-trips-after-history");
    rep.finish()
}
