//! C19 — collateral return and total collateral are consistent and sufficient.

use crate::engine::{explore, guard, panic_sig, Ctx, Opts};
use crate::fx::*;
use crate::ledger::{self, Val};
use crate::props::BoxedScenario;
use crate::refcbor;
use crate::report::{Report, Tier};
use crate::util::*;
use cardano_serialization_lib as csl;
use csl::*;
use std::collections::BTreeMap;

const P: &str = "C19";

// collateral candidates: (coin, A, B)
const COLL: [(u64, u64, u64); 5] = [(5_000_000, 0, 0), (70_000, 0, 0), (5_000_000_000, 0, 0), (4_000_000, 30, 0), (6_000_000, 5, 7)];

fn pol(i: usize) -> ScriptHash {
    sh(i)
}
fn an() -> AssetName {
    AssetName::new(b"c".to_vec()).unwrap()
}
fn value_of(coin: u64, assets: &[(usize, u64)]) -> Value {
    let mut v = Value::new(&bn(coin));
    let nz: Vec<&(usize, u64)> = assets.iter().filter(|a| a.1 > 0).collect();
    if !nz.is_empty() {
        let mut ma = MultiAsset::new();
        for (p, q) in nz {
            // policy index 10 + i: policy i under ANOTHER asset name ("d")
            if *p >= 10 {
                ma.set_asset(&pol(*p - 10), &AssetName::new(b"d".to_vec()).unwrap(), &bn(*q));
            } else {
                ma.set_asset(&pol(*p), &an(), &bn(*q));
            }
        }
        v.set_multiasset(&ma);
    }
    v
}
fn coll_utxo(i: usize) -> TransactionUnspentOutput {
    let (c, a, b) = COLL[i];
    TransactionUnspentOutput::new(&crate::builder::op_outpoint(8 + i), &TransactionOutput::new(&enterprise_addr(1), &value_of(c, &[(0, a), (1, b)])))
}

/// body fields 13, 16, 17 of the builder as it stands (fee forced so that build() works)
struct Fields {
    coll: Vec<(Vec<u8>, u64)>,
    ret: Option<ledger::POut>,
    total: Option<u64>,
    fee: u64,
}
fn fields(tb: &TransactionBuilder) -> Result<Fields, String> {
    let mut c = tb.clone();
    if c.get_fee_if_set().is_none() {
        c.set_fee(&bn(200_000));
    }
    let body = guard(|| c.build()).map_err(|p| format!("PANIC {}", p.msg))?.map_err(|e| format!("{:?}", e))?;
    let b = body.to_bytes();
    let n = refcbor::parse(&b).map_err(|e| format!("{:?}", e))?;
    let outp = |x: &refcbor::Node| -> Option<(Vec<u8>, u64)> {
        let a = x.as_array()?;
        Some((a.get(0)?.as_bytes()?.to_vec(), a.get(1)?.as_uint()?))
    };
    Ok(Fields {
        coll: n.map_get(13).and_then(|v| v.set_items()).map(|v| v.iter().filter_map(outp).collect()).unwrap_or_default(),
        ret: n.map_get(16).and_then(|v| ledger::parse_output(v, &b)),
        total: n.map_get(17).and_then(|v| v.as_uint()),
        fee: n.map_get(2).and_then(|v| v.as_uint()).unwrap_or(0),
    })
}

fn table_val(f: &Fields) -> Option<Val> {
    let mut v = Val::default();
    for o in &f.coll {
        let i = (0..COLL.len()).find(|i| crate::builder::op_outpoint_key(8 + *i) == *o)?;
        let (c, a, b) = COLL[i];
        v.coin += c as u128;
        if a > 0 {
            *v.assets.entry((pol(0).to_bytes(), b"c".to_vec())).or_insert(0) += a as i128;
        }
        if b > 0 {
            *v.assets.entry((pol(1).to_bytes(), b"c".to_vec())).or_insert(0) += b as i128;
        }
    }
    Some(v)
}

/// the invariant on a body in which a helper set the collateral fields
fn judge_fields(ctx: &mut Ctx, f: &Fields, cpb: u64, helper: &str, what: &str) {
    ctx.compared();
    let (ret, total) = match (&f.ret, f.total) {
        (Some(r), Some(t)) => (r, t),
        (None, Some(t)) => {
            // total only: the whole collateral is pure lovelace and equals the total
            match table_val(f) {
                Some(v) => {
                    if !v.assets.is_empty() {
                        ctx.violation(format!("{}/{}/assets-of-collateral-inputs-not-returned", P, helper), what.to_string());
                    }
                    if v.coin != t as u128 {
                        ctx.violation(format!("{}/{}/total-without-return-differs-from-inputs", P, helper), format!("inputs {} total {} ; {}", v.coin, t, what));
                    } else {
                        ctx.hit("total-equals-inputs-no-return");
                    }
                }
                None => ctx.violation(format!("{}/oracle-cannot-resolve-collateral", P), what.to_string()),
            }
            return;
        }
        _ => return,
    };
    let inputs = match table_val(f) {
        Some(v) => v,
        None => {
            ctx.violation(format!("{}/oracle-cannot-resolve-collateral", P), what.to_string());
            return;
        }
    };
    let mut rhs = ret.value.clone();
    rhs.coin += total as u128;
    if inputs.normalized() != rhs.normalized() {
        let kind = if inputs.coin != rhs.coin {
            "lovelace"
        } else if rhs.assets.keys().any(|k| !inputs.assets.contains_key(k)) {
            "return-has-asset-the-inputs-lack"
        } else if rhs.assets.iter().any(|(k, q)| inputs.assets.get(k).copied().unwrap_or(0) < *q) {
            "return-has-more-of-an-asset-than-the-inputs"
        } else {
            "asset-of-inputs-missing-from-return"
        };
        ctx.violation(format!("{}/{}/inputs-differ-from-return-plus-total/{}", P, helper, kind), format!("collateral inputs {:?} ; return {:?} + total {} ; {}", inputs, ret.value, total, what));
    } else {
        ctx.hit("equation-holds");
        if !inputs.assets.is_empty() {
            ctx.hit("asset-carrying-collateral");
        }
    }
    let need = cpb as u128 * (160 + ret.size as u128);
    if ret.value.coin < need {
        ctx.violation(format!("{}/{}/return-below-min-ada", P, helper), format!("return carries {} needs {} ; {}", ret.value.coin, need, what));
    }
}

thread_local! {
    /// largest collateral set explored (3 quick, 5 thorough)
    static MAX_SET: std::cell::Cell<usize> = std::cell::Cell::new(3);
}
fn sc_explicit(ctx: &mut Ctx) {
    let mask = 1 + ctx.choose_free((1 << COLL.len()) - 1);
    let sel: Vec<usize> = (0..COLL.len()).filter(|i| mask & (1 << i) != 0).collect();
    if sel.len() > MAX_SET.with(|m| m.get()) {
        return;
    }
    let helper = ctx.choose_free(2);
    let coin_sel = ctx.choose_free(9);
    let asset_sel = ctx.choose_free(8);
    let cpb = *ctx.pick_free(&[4310u64, 1]);
    let order = ctx.choose_free(2); // 0: collateral first then balance, 1: balance first
    // an earlier, successful use of a helper on the same builder (the fields are then set again)
    let prior = ctx.choose_free(3);
    // what else the explicit return output carries (it all counts towards its size and so its minimum)
    let ret_extra = ctx.choose_free(4);
    ctx.observe(&(mask, helper, coin_sel, asset_sel, cpb, order, prior, ret_extra));
    let mut p = Params::mainnet();
    p.coins_per_byte = cpb;
    let mut tb = TransactionBuilder::new(&p.config());
    let mut ib = TxInputsBuilder::new();
    ib.add_regular_utxo(&TransactionUnspentOutput::new(&crate::builder::op_outpoint(0), &TransactionOutput::new(&enterprise_addr(0), &Value::new(&bn(20_000_000))))).unwrap();
    tb.set_inputs(&ib);
    tb.add_output(&TransactionOutput::new(&enterprise_addr(3), &Value::new(&bn(2_000_000)))).unwrap();
    let mut cb = TxInputsBuilder::new();
    let (mut tc, mut ta, mut tbq) = (0u64, 0u64, 0u64);
    for i in &sel {
        cb.add_regular_utxo(&coll_utxo(*i)).unwrap();
        tc += COLL[*i].0;
        ta += COLL[*i].1;
        tbq += COLL[*i].2;
    }
    tb.set_collateral(&cb);
    let change = base_addr(3, 1);
    if order == 1 {
        let _ = tb.add_change_if_needed(&change);
    }
    // the return's min-ADA with the inputs' assets, for the boundary cases
    let dress = |o: &mut TransactionOutput| match ret_extra {
        1 => o.set_data_hash(&DataHash::from_bytes(vec![0xd7; 32]).unwrap()),
        2 => o.set_plutus_data(&PlutusData::new_bytes(vec![0xe1; 64])),
        3 => o.set_script_ref(&ScriptRef::new_plutus_script(&PlutusScript::new_v2(vec![0x5c; 120]))),
        _ => {}
    };
    let mut probe = TransactionOutput::new(&change, &value_of(0, &[(0, ta), (1, tbq)]));
    let bare_min = guard(|| min_ada_for_output(&probe, &DataCost::new_coins_per_byte(&bn(cpb)))).ok().and_then(|r| r.ok()).map(|x| u(&x)).unwrap_or(1_000_000);
    if helper == 0 {
        dress(&mut probe);
    }
    let min_ret = guard(|| min_ada_for_output(&probe, &DataCost::new_coins_per_byte(&bn(cpb)))).ok().and_then(|r| r.ok()).map(|x| u(&x)).unwrap_or(1_000_000);
    let mut prior_ok = false;
    if prior == 1 {
        prior_ok = matches!(guard(|| tb.set_total_collateral_and_return(&bn(tc.saturating_sub(min_ret).saturating_sub(5)), &change)), Ok(Ok(())));
    } else if prior == 2 {
        let ret = TransactionOutput::new(&enterprise_addr(2), &value_of(tc.saturating_sub(7), &[(0, ta), (1, tbq)]));
        prior_ok = matches!(guard(|| tb.set_collateral_return_and_total(&ret)), Ok(Ok(())));
    }
    if prior != 0 && !prior_ok {
        return;
    }
    if prior_ok {
        ctx.hit("helper-used-twice");
    }
    let what: String;
    let res: Result<Result<(), JsError>, crate::engine::PanicRec>;
    let hname: &str;
    if helper == 0 {
        hname = "set_collateral_return_and_total";
        let coin = match coin_sel {
            0 => min_ret.saturating_sub(1),
            1 => min_ret,
            2 => min_ret + 1,
            3 => tc.saturating_sub(1),
            4 => tc,
            5 => tc.saturating_add(1),
            6 => tc / 2,
            7 => 0,
            // between the minimum of the bare output and the minimum of the output as carried
            _ => (bare_min + min_ret) / 2,
        };
        let assets: Vec<(usize, u64)> = match asset_sel {
            0 => vec![(0, ta), (1, tbq)],
            1 => vec![(0, ta.saturating_sub(1)), (1, tbq)],
            2 => vec![(0, ta + 1), (1, tbq)],
            3 => vec![(0, ta), (1, tbq), (2, 5)],
            4 => vec![],
            5 => vec![(1, tbq)],
            // everything the inputs hold, plus another asset NAME under a policy they do hold / under
            // each policy (when the inputs hold no such policy this is a foreign policy again)
            6 => vec![(0, ta), (1, tbq), (10, 7)],
            _ => vec![(0, ta), (1, tbq), (10, 1), (11, 1)],
        };
        let mut ret = TransactionOutput::new(&change, &value_of(coin, &assets));
        dress(&mut ret);
        if ret_extra != 0 {
            ctx.hit("return-output-with-datum-or-script-ref");
        }
        what = format!("collateral {:?} (coin {}, A {}, B {}) ; prior call {} ; set_collateral_return_and_total(return coin {} assets {:?}) ; cpb {} ; order {}", sel, tc, ta, tbq, prior, coin, assets, cpb, order);
        res = guard(|| tb.set_collateral_return_and_total(&ret));
    } else {
        hname = "set_total_collateral_and_return";
        let total = match coin_sel {
            0 => 0,
            1 => 1,
            2 => tc.saturating_sub(min_ret),
            3 => tc.saturating_sub(min_ret).saturating_sub(1),
            4 => tc.saturating_sub(min_ret).saturating_add(1),
            5 => tc,
            6 => tc.saturating_add(1),
            7 => 65_536,
            _ => 0x1_0000_0000,
        };
        if asset_sel != 0 || ret_extra != 0 {
            return;
        }
        what = format!("collateral {:?} (coin {}, A {}, B {}) ; prior call {} ; set_total_collateral_and_return(total {}) ; cpb {} ; order {}", sel, tc, ta, tbq, prior, total, cpb, order);
        res = guard(|| tb.set_total_collateral_and_return(&bn(total), &change));
    }
    ctx.set_sample(|| what.clone());
    match res {
        Err(p) => ctx.violation(panic_sig(P, hname, &p), format!("{} : {}", what, p.msg)),
        Ok(Err(e)) => {
            ctx.hit("helper-err");
            let m = format!("{:?}", e);
            if m.contains("cannot contain assets") {
                ctx.hit("err:assets-left-in-total");
            } else if m.contains("Not enough coin") {
                ctx.hit("err:return-below-min-ada");
            } else if m.contains("cannot exceed") || m.contains("underflow") {
                ctx.hit("err:total-exceeds-inputs");
            }
            match fields(&tb) {
                Ok(f) => {
                    if prior_ok {
                        // the earlier call's fields may stay; they must still satisfy the equation
                        judge_fields(ctx, &f, cpb, "after-a-failed-second-call", &what);
                    } else if f.ret.is_some() || f.total.is_some() {
                        ctx.violation(format!("{}/{}/failed-attempt-leaves-fields-set", P, hname), format!("return set: {} total: {:?} ; {}", f.ret.is_some(), f.total, what));
                    }
                }
                Err(e) => ctx.violation(format!("{}/cannot-read-body", P), e),
            }
        }
        Ok(Ok(())) => {
            ctx.hit(if helper == 0 { "ok:return_and_total" } else { "ok:total_and_return" });
            if order == 0 {
                let _ = tb.add_change_if_needed(&change);
            }
            match fields(&tb) {
                Ok(f) => judge_fields(ctx, &f, cpb, hname, &what),
                Err(e) => ctx.violation(format!("{}/cannot-read-body", P), e),
            }
        }
    }
}

fn sc_percentage(ctx: &mut Ctx) {
    let mask = ctx.choose_free(1 << COLL.len());
    let sel: Vec<usize> = (0..COLL.len()).filter(|i| mask & (1 << i) != 0).collect();
    if sel.len() > MAX_SET.with(|m| m.get()) {
        return;
    }
    let pct = *ctx.pick_free(&[150u64, 0, 1, 100, 99, 0x1_0000_0000, u64::MAX]);
    // the last one is more than everything offered: the helper then fails in its balancing step
    let out_coin = *ctx.pick_free(&[2_000_000u64, 19_000_000, 4_990_000_000, 6_000_000_000]);
    let strat = ctx.choose_free(2) as u8;
    // a fee request made before the helper runs: the percentage applies to the fee the body ends up with
    let fee_req = ctx.choose_free(5);
    ctx.observe(&(mask, pct, out_coin, strat, fee_req));
    let p = Params::mainnet();
    let mut tb = TransactionBuilder::new(&p.config());
    match fee_req {
        1 => tb.set_min_fee(&bn(1000)),
        2 => tb.set_min_fee(&bn(5_000_000)),
        3 => tb.set_fee(&bn(300_000)),
        4 => tb.set_fee(&bn(100)),
        _ => {}
    }
    tb.add_output(&TransactionOutput::new(&enterprise_addr(3), &Value::new(&bn(out_coin)))).unwrap();
    let mut cb = TxInputsBuilder::new();
    for i in &sel {
        cb.add_regular_utxo(&coll_utxo(*i)).unwrap();
    }
    tb.set_collateral(&cb);
    let mut pool = TransactionUnspentOutputs::new();
    for (k, c) in [(0usize, 20_000_000u64), (1, 3_000_000), (2, 5_000_000_000)] {
        pool.add(&TransactionUnspentOutput::new(&crate::builder::op_outpoint(k), &TransactionOutput::new(&enterprise_addr(k), &Value::new(&bn(c)))));
    }
    let change = base_addr(3, 1);
    let what = format!("collateral {:?} ; fee request {} ; add_inputs_from_and_change_with_collateral_return(pct {}) ; output {} ; strategy {}", sel, ["none", "set_min_fee(1000)", "set_min_fee(5000000)", "set_fee(300000)", "set_fee(100)"][fee_req], pct, out_coin, strat);
    ctx.set_sample(|| what.clone());
    let res = crate::builder::with_rng(ctx, true, || guard(|| tb.add_inputs_from_and_change_with_collateral_return(&pool, crate::builder::strategy(strat), &ChangeConfig::new(&change), &bn(pct))));
    match res {
        Err(pn) => ctx.violation(panic_sig(P, "add_inputs_from_and_change_with_collateral_return", &pn), format!("{} : {}", what, pn.msg)),
        Ok(Err(_)) => {
            ctx.hit("percentage-helper-err");
            if out_coin > 5_100_000_000 {
                ctx.hit("percentage-helper-err-in-balancing");
            }
            match fields(&tb) {
                Ok(f) => {
                    if f.ret.is_some() || f.total.is_some() {
                        ctx.violation(format!("{}/percentage-helper/failed-attempt-leaves-fields-set", P), what.clone());
                    }
                }
                Err(_) => {}
            }
        }
        Ok(Ok(())) => {
            ctx.hit("ok:percentage-helper");
            if fee_req != 0 {
                ctx.hit("ok:percentage-helper-after-a-fee-request");
            }
            match fields(&tb) {
                Ok(f) => {
                    judge_fields(ctx, &f, p.coins_per_byte, "percentage-helper", &what);
                    match f.total {
                        Some(t) => {
                            let need = (f.fee as u128 * pct as u128 + 99) / 100;
                            if (f.fee as u128 * pct as u128) % 100 == 0 {
                                ctx.hit("pct-no-remainder");
                            } else {
                                ctx.hit("pct-with-remainder");
                            }
                            if (t as u128) < need {
                                ctx.violation(format!("{}/percentage-helper/total-below-required-percentage", P), format!("total {} < ceil({} * {} / 100) = {} ; {}", t, f.fee, pct, need, what));
                            }
                        }
                        None => ctx.violation(format!("{}/percentage-helper/ok-without-total", P), what.clone()),
                    }
                }
                Err(e) => ctx.violation(format!("{}/cannot-read-body", P), e),
            }
        }
    }
    let _: BTreeMap<u8, u8> = BTreeMap::new();
}

pub fn scenario(name: &str, tier: Tier) -> Option<BoxedScenario> {
    let max = if tier.thorough() { 5 } else { 3 };
    match name {
        "explicit" => Some(Box::new(move |c| {
            MAX_SET.with(|m| m.set(max));
            sc_explicit(c)
        })),
        "percentage" => Some(Box::new(move |c| {
            MAX_SET.with(|m| m.set(max));
            sc_percentage(c)
        })),
        _ => None,
    }
}

pub fn run(tier: Tier, seed: u64) -> i32 {
    let mut rep = Report::new(P, tier, seed);
    rep.rule = "collateral input sets of size 1..3 (thorough 1..5) over 5 candidates (ADA at three widths, ADA+A, ADA+A+B) x {set_collateral_return_and_total with 9 return coins around min-ADA / the input total x 8 asset choices (exact, fewer, more, another policy, none, partial, another asset name under a held policy x2); set_total_collateral_and_return with 9 totals} x coins_per_byte {4310, 1} x 4 dressings of the explicit return output (plain, data hash, 64-byte inline datum, script reference) x both orders of setting collateral and balancing; percentage helper: collateral sets (incl. none) x 7 percentages x 4 output sizes (one beyond everything offered, so that the helper fails while balancing) x 2 strategies x 5 fee requests made beforehand (none, lower bound below / above the computed fee, exact above / far below). distinct = distinct argument tuples".into();
    rep.assume("the raw pass-through setters set_collateral_return / set_total_collateral validate nothing by design and are not entry points of this property");
    rep.trusted_base = vec!["notes/ledger_rules.md §7".into(), "refcbor".into()];
    rep.required_hits = vec!["ok:return_and_total", "ok:total_and_return", "ok:percentage-helper", "equation-holds", "asset-carrying-collateral", "err:assets-left-in-total", "err:return-below-min-ada", "err:total-exceeds-inputs", "helper-used-twice", "return-output-with-datum-or-script-ref", "percentage-helper-err", "percentage-helper-err-in-balancing", "pct-with-remainder", "ok:percentage-helper-after-a-fee-request"];
    for name in ["explicit", "percentage"] {
        let f = scenario(name, tier).unwrap();
        let st = explore(name, &*f, &Opts::new(seed));
        rep.add(name, "full product", st);
    }
    rep.finish()
}
