//! Oracles applied to every finished builder scenario, selected by property.

use crate::builder::*;
use cardano_serialization_lib::verif_hooks;
use crate::engine::Ctx;
use crate::fx::Params;
use crate::ledger::{self, Deposits, PTx};
use crate::util::*;
use cardano_serialization_lib as csl;
use csl::*;
use num_bigint::BigInt as NB;
use std::collections::{BTreeMap, BTreeSet};

pub const VKEY_WITNESS_SIZE: i64 = 101;

fn width_class(x: u64) -> &'static str {
    if x < (1 << 16) {
        "<2^16"
    } else if x < (1u64 << 32) {
        "<2^32"
    } else {
        ">=2^32"
    }
}

/// conformance: the parsed body holds what the model says was put into the builder
fn conformance(prop: &str, ctx: &mut Ctx, w: &World, st: &St, t: &PTx, fin: &Finish) {
    let model_inputs: BTreeSet<(Vec<u8>, u64)> = st.m.inputs.iter().map(|(i, _)| crate::builder::utxo_outpoint_key(*i)).collect();
    let got: BTreeSet<(Vec<u8>, u64)> = t.inputs.iter().cloned().collect();
    if got.len() != t.inputs.len() {
        ctx.violation(format!("{}/conformance/duplicate-input-in-body", prop), format!("{} inputs, {} distinct", t.inputs.len(), got.len()));
    }
    if !model_inputs.is_subset(&got) {
        ctx.violation(format!("{}/conformance/input-lost", prop), format!("model {:?}", st.m.inputs));
    }
    for extra in got.difference(&model_inputs) {
        match w.lookup(extra) {
            Some(i) if fin.offered.contains(&i) => {}
            _ => ctx.violation(format!("{}/conformance/input-not-offered", prop), format!("{}#{}", hx(&extra.0[..4]), extra.1)),
        }
    }
    if t.certs.len() != st.m.certs.len() {
        ctx.violation(format!("{}/conformance/certificates", prop), format!("{} in body, {} in model", t.certs.len(), st.m.certs.len()));
    }
    if t.withdrawals.len() != st.m.wds.len() {
        ctx.violation(format!("{}/conformance/withdrawals", prop), format!("{} in body, {} in model", t.withdrawals.len(), st.m.wds.len()));
    }
    let mut mm: BTreeMap<(Vec<u8>, Vec<u8>), i128> = BTreeMap::new();
    for (p, assets) in &t.mint {
        for (n, q) in assets {
            *mm.entry((p.clone(), n.clone())).or_insert(0) += *q;
        }
    }
    // an asset whose mints and burns cancel is not expected in the body
    let want: BTreeMap<(Vec<u8>, Vec<u8>), i128> = st.m.mint.iter().filter(|(_, q)| **q != 0).map(|((p, n), q)| ((w.policies[*p].to_bytes(), w.names[*n].name()), *q)).collect();
    let mut want = want;
    if st.m.mint_and_output {
        *want.entry((w.policies[0].to_bytes(), w.names[2].name())).or_insert(0) += 7;
        want.retain(|_, q| *q != 0);
    }
    mm.retain(|_, q| *q != 0);
    if mm != want {
        ctx.violation(format!("{}/conformance/mint", prop), format!("body {:?} model {:?}", mm, want));
    }
    if t.proposals.len() != st.m.proposals.len() || t.donation != st.m.donation {
        ctx.violation(format!("{}/conformance/proposals-or-donation", prop), format!("{} / {:?}", t.proposals.len(), t.donation));
    }
    let coll: BTreeSet<(Vec<u8>, u64)> = t.collateral.iter().cloned().collect();
    let want_coll: BTreeSet<(Vec<u8>, u64)> = st.m.collateral.iter().map(|i| crate::builder::utxo_outpoint_key(*i)).collect();
    if coll != want_coll {
        ctx.violation(format!("{}/conformance/collateral", prop), format!("{:?}", st.m.collateral));
    }
    ctx.compared();
}

pub fn judge(prop: &str, ctx: &mut Ctx, w: &World, st: &St, hist: &[Op], params: &Params, cname: &str, method: Method, fin: &Finish) {
    if let Some(e) = &fin.setup_err {
        ctx.hit("finish-setup-err");
        if e.starts_with("PANIC") {
            ctx.violation(format!("{}/panic/setup/{}", prop, crate::engine::norm_msg(e)), format!("{:?}: {}", hist, e));
        }
        return;
    }
    let bal = match &fin.balance {
        Some(Ok(b)) => *b,
        Some(Err(e)) => {
            ctx.hit("balancing-err");
            if e.starts_with("PANIC") {
                ctx.violation(format!("{}/panic/balancing/{}", prop, crate::engine::norm_msg(e)), format!("{:?} {:?} {}: {}", hist, method, cname, e));
            }
            if e.contains("Not enough ADA leftover to include non-ADA assets") {
                ctx.hit("err:not-enough-ada-for-asset-change");
            }
            if e.contains("Not enough ADA leftover to include a new change output") {
                ctx.hit("err:burn-refused");
            }
            return;
        }
        None => return,
    };
    ctx.hit(if bal { "balanced-with-change" } else { "balanced-without-change" });
    let tx = match &fin.tx {
        Some(Ok(tx)) => tx,
        Some(Err(e)) => {
            ctx.hit("build_tx-err");
            if e.starts_with("PANIC") {
                ctx.violation(format!("{}/panic/build_tx/{}", prop, crate::engine::norm_msg(e)), format!("{:?}: {}", hist, e));
            }
            if prop == "C06" {
                fee_on_build_only(ctx, w, st, hist, params, cname, method, fin, e);
            }
            if prop == "C05" && e.contains("Total input and total output are not equal") {
                // balancing reported success, build_tx finds the imbalance itself - but build() and
                // build_tx_unsafe() hand the same body out: it is judged like any produced transaction
                ctx.hit("build_tx-refuses-own-balance");
                let tbr = &fin.tb;
                if let Ok(Ok(tx)) = crate::engine::guard(|| tbr.build_tx_unsafe()) {
                    let bytes = tx.to_bytes();
                    if let Ok(t) = ledger::parse_tx(&bytes) {
                        let what = || format!("balancing returned Ok, build_tx refuses ({}), build()/build_tx_unsafe() return the body ; history {:?} finish {:?} config {} tx {}", short(e, 80), hist, method, cname, short(&hx(&bytes), 300));
                        c05(ctx, w, &t, params, &what);
                    }
                }
            }
            return;
        }
        None => return,
    };
    ctx.hit("transaction-produced");
    let bytes = tx.to_bytes();
    ctx.observe(&bytes);
    let t = match ledger::parse_tx(&bytes) {
        Ok(t) => t,
        Err(e) => {
            ctx.violation(format!("{}/built-transaction-unparseable", prop), format!("{:?}: {}", hist, e));
            return;
        }
    };
    conformance(prop, ctx, w, st, &t, fin);
    let what = || format!("history {:?} finish {:?} config {} tx {}", hist, method, cname, short(&hx(&bytes), 400));
    match prop {
        "C03" => crate::props::c03::check_bytes(ctx, "Transaction", &bytes, true),
        "C05" => c05(ctx, w, &t, params, &what),
        "C06" => c06(ctx, w, st, &t, params, &what),
        "C07" => c07(ctx, w, st, &t, params, &what),
        "C18" => c18(ctx, w, st, &t, params, fin, &what),
        "C16" => c16(ctx, w, st, params, method, fin, &bytes, &what),
        "C09" => crate::props::c09::judge_tx(ctx, w, st, &t, &what),
        "C10" => crate::props::c10::judge_tx(ctx, w, st, &t, &what),
        _ => {}
    }
    // shared coverage counters
    if t.outputs.len() > st.m.outputs.len() + 1 {
        ctx.hit("several-change-outputs");
    }
    let created_outputs: Vec<&ledger::POut> = t.outputs.iter().skip(st.m.outputs.len() + if st.m.mint_and_output { 1 } else { 0 }).collect();
    if created_outputs.iter().any(|o| o.value.assets.is_empty()) && created_outputs.iter().any(|o| !o.value.assets.is_empty()) {
        ctx.hit("pure-ada-change-next-to-token-change");
    }
    if created_outputs.len() == 1 && created_outputs[0].value.assets.is_empty() {
        ctx.hit("single-pure-ada-change");
    }
    if created_outputs.is_empty() && !bal {
        ctx.hit("no-change-output(leftover-folded-into-fee-or-exact)");
    }
    if t.collateral_return.is_some() {
        ctx.hit("collateral-return-in-body");
    }
    if !t.redeemers.is_empty() {
        ctx.hit("tx-with-redeemers");
    }
    if t.inputs.len() > st.m.inputs.len() {
        ctx.hit("selection-added-inputs");
    }
    let extra_outputs = if st.m.mint_and_output { 1 } else { 0 };
    if t.outputs.iter().skip(st.m.outputs.len() + extra_outputs).filter(|o| !o.value.assets.is_empty()).count() >= 2 {
        ctx.hit("token-change-split-over->=2-outputs");
    }
    if !t.mint.is_empty() {
        ctx.hit("tx-with-mint");
    }
    if !t.withdrawals.is_empty() {
        ctx.hit("tx-with-withdrawal");
    }
    if t.donation.is_some() {
        ctx.hit("tx-with-donation");
    }
    if !t.certs.is_empty() {
        ctx.hit("tx-with-certificate");
    }
    if t.inputs.len() > st.m.inputs.len() {
        ctx.hit("inputs-selected");
    }
    match width_class(t.fee) {
        "<2^16" => ctx.hit("fee<2^16"),
        "<2^32" => ctx.hit("fee<2^32"),
        _ => ctx.hit("fee>=2^32"),
    }
}

fn c05(ctx: &mut Ctx, w: &World, t: &PTx, params: &Params, what: &dyn Fn() -> String) {
    let dep = Deposits { key_deposit: params.key_deposit, pool_deposit: params.pool_deposit };
    let r = ledger::conservation(t, &|op| w.lookup(op).map(|i| w.utxo_val(i)), &dep);
    ctx.compared();
    match r {
        Err(e) => ctx.violation(format!("C05/oracle-cannot-evaluate/{}", e.split(' ').next().unwrap_or("")), format!("{} : {}", e, what())),
        Ok((consumed, produced)) => {
            if consumed != produced {
                let mut diff = vec![];
                if consumed.coin != produced.coin {
                    diff.push(format!("lovelace consumed {} produced {}", consumed.coin, produced.coin));
                }
                let keys: BTreeSet<_> = consumed.assets.keys().chain(produced.assets.keys()).cloned().collect();
                for k in keys {
                    let a = consumed.assets.get(&k).copied().unwrap_or(0);
                    let b = produced.assets.get(&k).copied().unwrap_or(0);
                    if a != b {
                        diff.push(format!("asset {}.{} consumed {} produced {}", hx(&k.0[..3]), hx(&k.1), a, b));
                    }
                }
                let kind = if consumed.coin != produced.coin { "lovelace" } else { "asset" };
                let dir = if consumed.coin > produced.coin || (consumed.coin == produced.coin && consumed.assets.values().sum::<i128>() > produced.assets.values().sum::<i128>()) { "value-destroyed" } else { "value-created" };
                ctx.violation(format!("C05/not-conserved/{}/{}", kind, dir), format!("{} ; {}", diff.join("; "), what()));
            } else {
                ctx.hit("conserved");
            }
        }
    }
}

fn real_signed(w: &World, st: &St, t: &PTx) -> Result<(Vec<u8>, usize, usize), String> {
    let n = needed_signers(w, st, t)?;
    let boots: Vec<Vec<u8>> = n.byron.iter().map(|_| w.byron_attrs.clone()).collect();
    Ok((ledger::signed_bytes(t, n.keys.len(), &boots), n.keys.len(), boots.len()))
}

fn c06(ctx: &mut Ctx, w: &World, st: &St, t: &PTx, params: &Params, what: &dyn Fn() -> String) {
    ctx.compared();
    let (signed, nk, nb) = match real_signed(w, st, t) {
        Ok(x) => x,
        Err(e) => {
            ctx.violation("C06/oracle-cannot-evaluate".to_string(), format!("{} : {}", e, what()));
            return;
        }
    };
    if crate::refcbor::parse(&signed).is_err() {
        crate::engine::machinery("signed_bytes produced malformed CBOR");
    }
    let need = ledger::min_fee(signed.len(), &t.redeemers, ref_script_total(t, st), &fee_params(params));
    if nb > 0 {
        ctx.hit("bootstrap-witness-needed");
    }
    if nk >= 3 {
        ctx.hit(">=3-signers");
    }
    if !t.redeemers.is_empty() {
        ctx.hit("with-redeemers");
    }
    if NB::from(t.fee) < need {
        ctx.violation("C06/fee-short/build_tx".to_string(), format!("fee {} < minimum {} for the signed transaction of {} bytes ({} key + {} bootstrap witnesses) ; {}", t.fee, need, signed.len(), nk, nb, what()));
    } else {
        ctx.hit("fee-sufficient");
    }
    if let Some(req) = st.m.fee_req {
        let (exact, v) = fee_request_value(req);
        if exact {
            ctx.hit("exact-fee-request");
            if t.fee != v {
                ctx.violation("C06/exact-fee-not-used".to_string(), format!("requested exactly {} got {} ; {}", v, t.fee, what()));
            }
        } else {
            ctx.hit("min-fee-request");
            if t.fee < v {
                ctx.violation("C06/requested-minimum-fee-not-honoured".to_string(), format!("requested at least {} got {} ; {}", v, t.fee, what()));
            }
        }
    }
}

/// balancing succeeded but build_tx refused: build()/build_tx_unsafe() still hand out a body with
/// the fee the builder set
fn fee_on_build_only(ctx: &mut Ctx, w: &World, st: &St, hist: &[Op], params: &Params, cname: &str, method: Method, fin: &Finish, err: &str) {
    if !err.contains("Fee is less than the minimum fee") {
        return;
    }
    if let Some(req) = st.m.fee_req {
        if fee_request_value(req).0 {
            // a caller-fixed fee below the minimum: "used exactly or the build fails" - it failed
            ctx.hit("exact-fee-below-minimum-build-refused");
            return;
        }
    }
    ctx.hit("build_tx-refuses-own-fee");
    let tbr = &fin.tb;
    if let Ok(Ok(tx)) = crate::engine::guard(|| tbr.build_tx_unsafe()) {
        let bytes = tx.to_bytes();
        if let Ok(t) = ledger::parse_tx(&bytes) {
            if let Ok((signed, nk, nb)) = real_signed(w, st, &t) {
                let need = ledger::min_fee(signed.len(), &t.redeemers, ref_script_total(&t, st), &fee_params(params));
                if std::env::var("VERIF_DEBUG_C06").is_ok() {
                    eprintln!("DEBUG build-only fee {} need {} outputs {} hist {:?} {:?} {}", t.fee, need, t.outputs.len(), hist, method, cname);
                }
                if NB::from(t.fee) < need {
                    let created: Vec<&ledger::POut> = t.outputs.iter().skip(st.m.outputs.len()).collect();
                    let class = if created.iter().any(|o| !o.value.assets.is_empty()) { "change-with-assets" } else if created.is_empty() { "no-change" } else { "pure-change" };
                    ctx.violation(
                        // the recorded finding needs a price per byte so small that the late top-up of
                        // the last change output can widen its coin: say so in the signature
                        format!("C06/fee-short/build-only/{}/{}", class, if params.coins_per_byte < 100 { "tiny-min-ada-price" } else { "ordinary-min-ada-price" }),
                        format!("balancing returned Ok and set fee {} but the minimum for the signed transaction ({} bytes, {}+{} witnesses) is {}; build_tx refuses ({}), build()/build_tx_unsafe() return the body ; history {:?} finish {:?} config {}", t.fee, signed.len(), nk, nb, need, short(err, 80), hist, method, cname),
                    );
                }
            }
        }
    }
}

fn c07(ctx: &mut Ctx, w: &World, st: &St, t: &PTx, params: &Params, what: &dyn Fn() -> String) {
    ctx.compared();
    let mut outs: Vec<(&str, &ledger::POut)> = t.outputs.iter().map(|o| ("output", o)).collect();
    if let Some(r) = &t.collateral_return {
        outs.push(("collateral-return", r));
    }
    for (i, (kind, o)) in outs.iter().enumerate() {
        let need = params.coins_per_byte as u128 * (160 + o.size as u128);
        let requested = i < st.m.outputs.len();
        if o.value.coin < need {
            ctx.violation(format!("C07/builder-output-below-min-ada/{}/{}", kind, if requested { "requested" } else { "created" }), format!("{} #{} carries {} < {} (size {}) ; {}", kind, i, o.value.coin, need, o.size, what()));
        }
        if o.value_bytes > params.max_value_size as usize {
            ctx.violation(format!("C07/builder-value-exceeds-max-value-size/{}", if requested { "requested" } else { "created" }), format!("{} #{} value is {} bytes > {} ; {}", kind, i, o.value_bytes, params.max_value_size, what()));
        }
        if !requested {
            ctx.hit("change-output-checked");
        }
    }
    match real_signed(w, st, t) {
        Ok((signed, _, _)) => {
            if signed.len() > params.max_tx_size as usize {
                ctx.violation("C07/built-transaction-exceeds-max-tx-size".to_string(), format!("{} > {} ; {}", signed.len(), params.max_tx_size, what()));
            } else {
                ctx.hit("tx-size-within-limit");
            }
        }
        Err(e) => ctx.violation("C07/oracle-cannot-evaluate".to_string(), e),
    }
}

fn script_hash_of(lang: u8, bytes: &[u8]) -> Vec<u8> {
    let mut pre = vec![lang];
    pre.extend_from_slice(bytes);
    blake2b224(&pre)
}

fn c18(ctx: &mut Ctx, w: &World, st: &St, t: &PTx, _params: &Params, fin: &Finish, what: &dyn Fn() -> String) {
    ctx.compared();
    // scripts available exactly once
    let mut have: Vec<Vec<u8>> = Vec::new();
    for s in &t.native_scripts {
        have.push(script_hash_of(0, s));
    }
    for (l, b) in &t.plutus_scripts {
        have.push(script_hash_of(*l, b));
    }
    let mut sorted = have.clone();
    sorted.sort();
    sorted.dedup();
    if sorted.len() != have.len() {
        ctx.violation("C18/script-twice-in-witness-set".to_string(), what());
    }
    // script-locked items -> how the model supplied the script
    let mut needs: Vec<(Vec<u8>, bool, String)> = Vec::new(); // (hash, by_reference, item)
    for (i, variant) in &st.m.inputs {
        match &w.utxos[*i].0.owner {
            Owner::Native(n) => needs.push((w.native[*n].hash().to_bytes(), *variant >= 1, format!("input {}", i))),
            Owner::Plutus(p) => needs.push((w.plutus[*p].hash().to_bytes(), *variant == 1 || *variant == 3 || *variant == 4, format!("input {}", i))),
            _ => {}
        }
    }
    for ((p, _), _) in &st.m.mint {
        match p {
            0 => needs.push((w.native[0].hash().to_bytes(), false, "mint policy 0".into())),
            1 => needs.push((w.plutus[1].hash().to_bytes(), false, "mint policy 1".into())),
            3 => needs.push((w.plutus[0].hash().to_bytes(), st.m.ref_plutus.contains(&0), "mint policy 3".into())),
            _ => {}
        }
    }
    if st.m.mint_and_output && !st.m.mint.keys().any(|k| k.0 == 0) {
        // add_mint_asset_and_output_min_required_coin mints under policy 0 with the script inline
        needs.push((w.native[0].hash().to_bytes(), false, "mint-and-output (policy 0)".into()));
    }
    for k in &st.m.certs {
        match w.certs[*k].script {
            Some(2) => needs.push((w.plutus[1].hash().to_bytes(), false, format!("cert {}", k))),
            Some(1) => needs.push((w.native[1].hash().to_bytes(), false, format!("cert {}", k))),
            Some(0) if *k == 4 => needs.push((w.native[0].hash().to_bytes(), true, format!("cert {}", k))),
            Some(_) => needs.push((w.native[0].hash().to_bytes(), false, format!("cert {}", k))),
            None => {}
        }
    }
    for i in &st.m.wds {
        match i {
            1 => needs.push((w.native[0].hash().to_bytes(), false, "withdrawal 1".into())),
            3 => needs.push((w.plutus[1].hash().to_bytes(), false, "withdrawal 3".into())),
            5 => needs.push((w.plutus[0].hash().to_bytes(), false, "withdrawal 5".into())),
            6 => needs.push((w.native[1].hash().to_bytes(), false, "withdrawal 6".into())),
            7 => needs.push((w.plutus[2].hash().to_bytes(), true, "withdrawal 7".into())),
            8 => needs.push((w.native[0].hash().to_bytes(), true, "withdrawal 8".into())),
            _ => {}
        }
    }
    for i in &st.m.votes {
        match i {
            3 => needs.push((w.native[0].hash().to_bytes(), false, "vote 3".into())),
            4 => needs.push((w.plutus[2].hash().to_bytes(), false, "vote 4".into())),
            5 | 6 => needs.push((w.plutus[0].hash().to_bytes(), false, format!("vote {}", i))),
            7 => needs.push((w.plutus[2].hash().to_bytes(), true, "vote 7".into())),
            8 => needs.push((w.native[0].hash().to_bytes(), true, "vote 8".into())),
            _ => {}
        }
    }
    for i in &st.m.proposals {
        if *i >= 3 {
            needs.push((w.plutus[0].hash().to_bytes(), false, format!("proposal {}", i)));
        }
    }
    let refs: BTreeSet<(Vec<u8>, u64)> = t.reference_inputs.iter().cloned().collect();
    for (hash, by_ref, item) in &needs {
        let in_wits = have.iter().filter(|h| *h == hash).count();
        if *by_ref {
            ctx.hit("script-by-reference");
            let is_native = w.native.iter().any(|n| &n.hash().to_bytes() == hash);
            let outp = if is_native { op_outpoint_key(REF_SCRIPT_OUTPOINT + 1) } else { op_outpoint_key(REF_SCRIPT_OUTPOINT) };
            // the same script may also be supplied inline by another use; then the witness copy is fine
            let also_inline = needs.iter().any(|(h, r, _)| h == hash && !*r);
            if !refs.contains(&outp) {
                ctx.violation("C18/reference-script-input-missing-from-body".to_string(), format!("{} ; {}", item, what()));
            }
            if in_wits > 0 && !also_inline {
                ctx.violation("C18/referenced-script-also-in-witness-set".to_string(), format!("{} ; {}", item, what()));
            }
            if also_inline {
                ctx.hit("script-inline-and-by-reference");
            }
        } else {
            ctx.hit("script-inline");
            if in_wits != 1 {
                ctx.violation(format!("C18/inline-script-present-{}-times", in_wits), format!("{} ; {}", item, what()));
            }
        }
    }
    if needs.len() >= 2 {
        let mut hs: Vec<&Vec<u8>> = needs.iter().map(|n| &n.0).collect();
        hs.sort();
        hs.dedup();
        if hs.len() < needs.len() {
            ctx.hit("same-script-on-two-uses");
        }
    }
    // datums: witness datums exactly once each
    let mut want_datums: BTreeSet<Vec<u8>> = BTreeSet::new();
    for (i, variant) in &st.m.inputs {
        if let Owner::Plutus(_) = &w.utxos[*i].0.owner {
            if *variant == 0 || *variant == 4 {
                want_datums.insert(w.datums[*i % 3].to_bytes());
            }
        }
    }
    for d in &st.m.extra_datums {
        want_datums.insert(w.datums[*d].to_bytes());
    }
    let got_datums: BTreeSet<Vec<u8>> = t.datums.iter().cloned().collect();
    if got_datums.len() != t.datums.len() {
        ctx.violation("C18/datum-twice-in-witness-set".to_string(), what());
    }
    if got_datums != want_datums {
        ctx.violation("C18/witness-datums-differ-from-supplied".to_string(), format!("{} in witness set, {} supplied ; {}", got_datums.len(), want_datums.len(), what()));
    }
    // one redeemer per Plutus use
    let plutus_uses = st.m.inputs.iter().filter(|(i, _)| matches!(w.utxos[*i].0.owner, Owner::Plutus(_))).count()
        + st.m.mint.keys().map(|k| k.0).collect::<BTreeSet<_>>().iter().filter(|p| **p == 1 || **p == 3).count()
        + st.m.certs.iter().filter(|k| w.certs[**k].script == Some(2)).count()
        + st.m.wds.iter().filter(|i| **i == 3 || **i == 5 || **i == 7).count()
        + st.m.votes.iter().filter(|i| **i >= 4 && **i != 8).count()
        + st.m.proposals.iter().filter(|i| **i >= 3).count();
    if t.redeemers.len() != plutus_uses {
        ctx.violation("C18/redeemer-count".to_string(), format!("{} redeemers for {} Plutus uses ; {}", t.redeemers.len(), plutus_uses, what()));
    }
    // size prediction
    let (signed, nk, nb) = match real_signed(w, st, t) {
        Ok(x) => x,
        Err(e) => {
            ctx.violation("C18/oracle-cannot-evaluate".to_string(), e);
            return;
        }
    };
    let tbr = &fin.tb;
    match crate::engine::guard(|| tbr.full_size()) {
        Ok(Ok(fs)) => {
            let d = fs as i64 - signed.len() as i64;
            if d == 0 {
                ctx.hit("size-exact");
            } else if d > 0 {
                ctx.hit("size-over");
            }
            if nb > 0 {
                ctx.hit("byron+key");
                let byron_inputs = st.m.inputs.iter().filter(|(i, _)| matches!(w.utxos[*i].0.owner, Owner::Byron(_))).count();
                if byron_inputs > nb {
                    ctx.hit("byron:two-inputs-one-address");
                }
                if nb >= 2 {
                    ctx.hit("byron:two-addresses");
                }
                if byron_inputs > nb && nb >= 2 {
                    ctx.hit("byron:repeated-address-among-others");
                }
            }
            if d < 0 {
                ctx.violation("C18/full_size-below-signed-size".to_string(), format!("full_size {} < signed {} ({} key + {} bootstrap witnesses needed) ; {}", fs, signed.len(), nk, nb, what()));
            } else if d >= VKEY_WITNESS_SIZE {
                ctx.violation("C18/full_size-exceeds-signed-size-by-a-witness".to_string(), format!("full_size {} vs signed {} ({} key + {} bootstrap witnesses needed) ; {}", fs, signed.len(), nk, nb, what()));
            }
        }
        Ok(Err(e)) => ctx.violation("C18/full_size-errors-after-build".to_string(), format!("{:?}", e)),
        Err(p) => ctx.violation(crate::engine::panic_sig("C18", "full_size", &p), p.msg.clone()),
    }
}

fn c16(ctx: &mut Ctx, _w: &World, _st: &St, _params: &Params, _method: Method, fin: &Finish, bytes: &[u8], what: &dyn Fn() -> String) {
    ctx.compared();
    let tbr = &fin.tb;
    // repeated builds of the unchanged builder, on the object and on a clone, and with the hash
    // containers of the library seeded differently (in production every container is seeded afresh)
    let mut variants: Vec<(String, Vec<u8>)> = Vec::new();
    for seed in 0..4u64 {
        verif_hooks::set_hash_seed(seed);
        for k in 0..2 {
            match crate::engine::guard(|| tbr.build_tx_unsafe()) {
                Ok(Ok(tx)) => variants.push((format!("seed {} build {}", seed, k), tx.to_bytes())),
                _ => ctx.violation("C16/rebuild-fails".to_string(), what()),
            }
        }
        let cl = tbr.clone();
        if let Ok(Ok(tx)) = crate::engine::guard(|| cl.build_tx_unsafe()) {
            variants.push((format!("seed {} clone", seed), tx.to_bytes()));
        }
    }
    // containers created when the builder was set up keep the order they were born with: the whole
    // builder is set up and balanced again under other seeds (as another process would)
    for seed in 1..4u64 {
        verif_hooks::set_hash_seed(seed);
        let again = finish(_w, _st, _params, _method, ctx, false);
        if let Some(Ok(tx)) = &again.tx {
            variants.push((format!("builder set up again under seed {}", seed), tx.to_bytes()));
        } else {
            ctx.violation("C16/rebuild-fails".to_string(), format!("setting the builder up again under hash seed {} does not produce the transaction ; {}", seed, what()));
        }
    }
    verif_hooks::set_hash_seed(0);
    ctx.hit("rebuilt-under-4-seeds");
    // no set-typed field of the built transaction repeats an element; values and mint canonical
    if let Ok(n) = crate::refcbor::parse(bytes) {
        if let Some(tx) = n.as_array() {
            let mut sets: Vec<(&str, u64, &crate::refcbor::Node)> = Vec::new();
            for k in [0u64, 13, 18, 14, 4, 20] {
                if let Some(f) = tx[0].map_get(k) {
                    sets.push(("body", k, f));
                }
            }
            for k in [0u64, 1, 2, 3, 4, 6, 7] {
                if let Some(f) = tx[1].map_get(k) {
                    sets.push(("witness-set", k, f));
                }
            }
            for (part, k, f) in sets {
                if let Some(items) = f.set_items() {
                    let mut spans: Vec<&[u8]> = items.iter().map(|x| x.span(bytes)).collect();
                    if spans.len() > 1 {
                        ctx.hit("built-set-with-two-or-more-elements");
                    }
                    spans.sort();
                    if spans.windows(2).any(|w| w[0] == w[1]) {
                        ctx.violation(format!("C16/built-transaction-repeats-an-element/{}-field-{}", part, k), what());
                    }
                }
            }
            let mut maps: Vec<&crate::refcbor::Node> = Vec::new();
            if let Some(m) = tx[0].map_get(9) {
                maps.push(m);
            }
            for k in [1u64, 16] {
                let outs: Vec<&crate::refcbor::Node> = match (k, tx[0].map_get(k)) {
                    (1, Some(o)) => o.as_array().map(|a| a.iter().collect()).unwrap_or_default(),
                    (_, Some(o)) => vec![o],
                    _ => vec![],
                };
                for o in outs {
                    let v = o.as_array().and_then(|a| a.get(1)).or_else(|| o.map_get(1));
                    if let Some(ma) = v.and_then(|v| v.as_array()).and_then(|a| a.get(1)) {
                        maps.push(ma);
                    }
                }
            }
            for m in maps {
                ctx.hit("built-asset-map-checked");
                if let Some(d) = asset_order_defect(m) {
                    ctx.violation("C16/built-transaction-asset-map-not-canonical".to_string(), format!("{} ; {}", d, what()));
                }
            }
        }
    }
    for (name, b) in &variants {
        if b != bytes {
            let t1 = ledger::parse_tx(bytes).ok();
            let t2 = ledger::parse_tx(b).ok();
            let field = match (t1, t2) {
                (Some(a), Some(c)) => {
                    if a.reference_inputs != c.reference_inputs {
                        "reference-inputs-order"
                    } else if a.inputs != c.inputs {
                        "inputs"
                    } else {
                        "other"
                    }
                }
                _ => "unparseable",
            };
            ctx.violation(format!("C16/nondeterministic-build/{}", field), format!("{} differs from the first build ; {}", name, what()));
            break;
        }
    }
}

fn asset_order_defect(n: &crate::refcbor::Node) -> Option<String> {
    let less = |a: &[u8], b: &[u8]| (a.len(), a) < (b.len(), b);
    let m = n.as_map()?;
    let keys: Vec<&[u8]> = m.iter().filter_map(|(k, _)| k.as_bytes()).collect();
    for w in keys.windows(2) {
        if !less(w[0], w[1]) {
            return Some(format!("policy {} before {}", hx(w[0]), hx(w[1])));
        }
    }
    for (_, inner) in m {
        let im = inner.as_map()?;
        let ik: Vec<&[u8]> = im.iter().filter_map(|(k, _)| k.as_bytes()).collect();
        for w in ik.windows(2) {
            if !less(w[0], w[1]) {
                return Some(format!("asset name {} before {}", hx(w[0]), hx(w[1])));
            }
        }
    }
    None
}
